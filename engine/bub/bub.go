// Package bub runs a function inside a testing/synctest bubble (virtual clock,
// goroutine census at exit) and reports panics and leaked goroutines.
package bub

import (
	"fmt"
	"runtime/debug"
	"strings"
	"testing"
	"testing/synctest"
	"time"

	"github.com/segmentio/kafka-go/zzverif/vsync"
)

type Result struct {
	Panic   string
	Leak    bool
	Elapsed time.Duration // virtual time spent in f
}

// Run executes f as the root of a fresh bubble. grace is slept (virtual time)
// after f returns so that goroutines bounded by timeouts can exit before the
// census. vsync pools should be reset by the caller if needed.
func Run(t *testing.T, grace time.Duration, f func()) (res Result) {
	defer func() {
		if r := recover(); r != nil {
			msg := fmt.Sprint(r)
			if strings.Contains(msg, "blocked goroutines remain") {
				res.Leak = true
			} else if res.Panic == "" {
				res.Panic = msg + "\n" + string(debug.Stack())
			}
		}
	}()
	synctest.Test(t, func(t *testing.T) {
		// pooled codec objects may hold channels of the bubble that created them
		vsync.ResetPools()
		t0 := time.Now()
		func() {
			defer func() {
				if r := recover(); r != nil {
					res.Panic = fmt.Sprint(r) + "\n" + string(debug.Stack())
				}
			}()
			f()
		}()
		res.Elapsed = time.Since(t0)
		if grace > 0 {
			time.Sleep(grace)
		}
	})
	return
}
