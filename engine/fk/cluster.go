// Package fk is a small fake Kafka cluster for the harnesses: brokers on the
// in-memory network, partition logs held as physical batch lists, a group
// coordinator, committed offsets, per-broker ApiVersions tables and a SASL
// acceptor. Requests are framed/parsed here; generic bodies are decoded with
// kafka-go's protocol package (checked independently by C04), produce record
// sets and fetch responses go through refwire byte-exactly.
package fk

import (
	"bytes"
	"context"
	"encoding/binary"
	"fmt"
	"io"
	"net"
	"sort"
	"strconv"
	"strings"
	"sync"
	"time"

	"github.com/segmentio/kafka-go/protocol"
	"github.com/segmentio/kafka-go/zzverif/vhook"

	"verif/engine/racectl"
	"verif/engine/refwire"
	"verif/engine/vnet"
)

type Broker struct {
	ID   int
	Host string
	Port int
	Rack string
	Down bool // dials are refused
}

func (b *Broker) Addr() string { return net.JoinHostPort(b.Host, strconv.Itoa(b.Port)) }

type Partition struct {
	Topic    string
	ID       int
	Leader   int
	Replicas []int
	Log      []*refwire.Batch // physical layout, ascending offsets
	Start    int64            // log start offset
	End      int64            // next offset to assign (high watermark)
	Err      int16            // if non-zero every data request on this partition gets this error
}

type Topic struct {
	Name  string
	Parts []*Partition
}

type VRange struct{ Min, Max int16 }

// Entry is one request seen by a broker.
type Entry struct {
	Seq       int
	Conn      int
	Broker    int
	At        time.Duration
	Key       protocol.ApiKey
	Version   int16
	CorrID    int32
	ClientID  string
	Msg       protocol.Message
	Raw       []byte // whole request frame without the size prefix
	DecodeErr string

	Answer     string
	AnsweredAt time.Duration
	Applied    bool
	ClientGone bool // produce: applied after the client had closed the connection the request came on
	// OffsetCommit answered "err@p<idx>:<code>": the partitions of the request that got an error code of their own and
	// were NOT recorded (Applied then tells that the others were)
	PartErr   map[TP]int16
	RespBytes int
	Held      bool // waiting for a group barrier
	sc        *srvConn
	done      bool
	// Produce details
	Batches   []refwire.Batch
	BaseOff   int64
	ProdErr   string
	AuthDone  bool // request arrived after the connection was authenticated (or no SASL)
	AfterCut  bool // request arrived after the broker had cut the connection short (see HalfCloseOnCut)
	memberID  string
	scripted  string
	longPoll  bool
	hasScript bool
}

type srvConn struct {
	id             int
	broker         *Broker
	srv            *vnet.Conn
	cli            *vnet.Conn
	pending        []*Entry // unanswered requests of this connection, in arrival order
	authed         bool
	mech           string
	sasl           *saslSession
	rawAuth        bool // handshake v0: next bytes are raw auth tokens
	closedByBroker bool
	cut            bool // an answer was cut short on this connection ("cut:<k>" / RawAuthCut)
}

type Cluster struct {
	mu         sync.Mutex
	Brokers    []*Broker
	Topics     map[string]*Topic
	Controller int
	Versions   map[int]map[protocol.ApiKey]VRange // per broker overrides; nil = defaults
	Groups     map[string]*Group
	CoordOf    func(group string) int
	SASL       *SASLConfig

	Journal []*Entry
	Conns   []*srvConn
	Dials   []DialRec

	// Auto: answer every request normally as soon as it can be answered.
	Auto bool
	// Script, if set, is consulted in Auto mode before the normal answer; it may
	// return a non-empty alternative (see Answer) for this entry.
	Script func(e *Entry) string
	// OnEvent is called (without the lock) whenever something observable happened.
	OnEvent func()
	// ClientWriteWindow, when > 0, bounds the bytes a client connection may have in flight (its writes block
	// when the broker does not read, and then obey the write deadline).
	ClientWriteWindow int
	// StalledReads counts how many times a broker stopped reading in the middle of a request (StallNext).
	StalledReads int
	stallNext    map[protocol.ApiKey]bool
	stalledConn  int
	stallCond    *sync.Cond
	// RawAuthMutate, when set, may replace a raw (handshake v0) SASL answer: a 4-byte length and the token.
	RawAuthMutate func(round int, frame []byte) []byte
	// Mutate, when set, may replace a complete response frame just before it is written (msg is the decoded
	// form when the broker encoded it with the protocol package, nil for raw frames). Called with the lock held.
	Mutate func(e *Entry, frame []byte, msg protocol.Message) []byte
	Now    func() time.Duration

	// ClientWritePoints makes every client-side network write a scheduling point; GateResponses
	// withholds response bytes until Release is called (partial delivery under explorer control).
	ClientWritePoints bool
	AcceptAnyVersion  bool // answer requests at versions outside the advertised range (if decodable) instead of closing
	Storm             bool // set when a request storm was detected (see serve)
	stormAt           time.Duration
	stormN            int
	NoLongPoll        bool
	GateResponses     bool

	pieces       []int // split points of the response being written (Answer "split:...")
	pieceGap     time.Duration
	nextMember   int
	start        time.Time
	shape        FetchShape
	Auths        []AuthRec
	RawAuthFault string
	// RawAuthCut, when set, is asked before every raw (handshake v0) SASL answer (round counts the client's tokens
	// from 1, frame is the 4-byte length and the token): a result k >= 0 delivers only the first k bytes of the
	// answer and then ends the stream like "cut:<k>" does for framed answers; k < 0 leaves the answer alone.
	RawAuthCut func(conn, round int, frame []byte) int
	// HalfCloseOnCut makes a cut ("cut:<k>", RawAuthCut) shut down only the broker's sending side: the client sees
	// the end of the stream after k bytes, while the broker keeps reading, so that whatever the client still writes
	// on that connection is journaled (Entry.AfterCut). Default: the broker closes the connection.
	HalfCloseOnCut bool
}

type DialRec struct {
	At   time.Duration
	Addr string
	Conn int
	Err  string
}

func New(nbrokers int) *Cluster {
	c := &Cluster{Topics: map[string]*Topic{}, Groups: map[string]*Group{}, Controller: 1, start: time.Now()}
	for i := 1; i <= nbrokers; i++ {
		c.Brokers = append(c.Brokers, &Broker{ID: i, Host: fmt.Sprintf("b%d", i), Port: 9092})
	}
	c.Now = func() time.Duration { return time.Since(c.start) }
	c.stallNext = map[protocol.ApiKey]bool{}
	c.stalledConn = -1
	c.stallCond = sync.NewCond(&c.mu)
	c.CoordOf = func(string) int { return 1 }
	return c
}

func (c *Cluster) Lock()   { c.mu.Lock() }
func (c *Cluster) Unlock() { c.mu.Unlock() }

func (c *Cluster) AddTopic(name string, nparts int, leaderOf func(p int) int) *Topic {
	t := &Topic{Name: name}
	for p := 0; p < nparts; p++ {
		l := 1
		if leaderOf != nil {
			l = leaderOf(p)
		}
		t.Parts = append(t.Parts, &Partition{Topic: name, ID: p, Leader: l, Replicas: []int{l}})
	}
	c.Topics[name] = t
	return t
}

func (c *Cluster) Part(topic string, p int) *Partition {
	t := c.Topics[topic]
	if t == nil || p < 0 || p >= len(t.Parts) {
		return nil
	}
	return t.Parts[p]
}

func (c *Cluster) brokerByAddr(addr string) *Broker {
	for _, b := range c.Brokers {
		if b.Addr() == addr || b.Host == addr {
			return b
		}
	}
	return nil
}

func (c *Cluster) BrokerByID(id int) *Broker {
	for _, b := range c.Brokers {
		if b.ID == id {
			return b
		}
	}
	return nil
}

func (c *Cluster) event() {
	if c.OnEvent != nil {
		c.OnEvent()
	}
}

// Dial is a Dialer.DialFunc / Transport.Dial.
func (c *Cluster) Dial(ctx context.Context, network, addr string) (net.Conn, error) {
	racectl.Off() // the brokers' bookkeeping is not synchronisation of the program under test
	defer racectl.On()
	vhook.Point(vhook.KEnv, nil)
	c.mu.Lock()
	b := c.brokerByAddr(addr)
	if b == nil || b.Down {
		c.Dials = append(c.Dials, DialRec{At: c.Now(), Addr: addr, Conn: -1, Err: "refused"})
		c.mu.Unlock()
		return nil, &net.OpError{Op: "dial", Net: "tcp", Addr: vnet.Addr{S: addr}, Err: vnet.ErrRefused.Err}
	}
	id := len(c.Conns)
	cli, srv := vnet.Pipe(id, "client:"+strconv.Itoa(40000+id), b.Addr(), true)
	cli.PointOnWrite = c.ClientWritePoints
	if c.ClientWriteWindow > 0 {
		cli.SetWriteWindow(c.ClientWriteWindow)
	}
	if c.GateResponses {
		srv.Gate()
	}
	sc := &srvConn{id: id, broker: b, srv: srv, cli: cli, authed: c.SASL == nil}
	c.Conns = append(c.Conns, sc)
	c.Dials = append(c.Dials, DialRec{At: c.Now(), Addr: addr, Conn: id})
	c.mu.Unlock()
	racectl.On() // the broker's goroutine may know what its creator knows (the reverse must not happen)
	go c.serve(sc)
	racectl.Off()
	return cli, nil
}

// serve reads request frames from one connection.
func (c *Cluster) serve(sc *srvConn) {
	for {
		var szb [4]byte
		if _, err := io.ReadFull(sc.srv, szb[:]); err != nil {
			return
		}
		// handshake v0: opaque auth tokens are sent as size-prefixed blobs without header
		c.mu.Lock()
		raw := sc.rawAuth
		c.mu.Unlock()
		size := int(int32(binary.BigEndian.Uint32(szb[:])))
		if size < 0 || size > 64<<20 {
			sc.srv.Close()
			return
		}
		frame := make([]byte, size)
		if size >= 2 && !raw {
			// the api key first: a broker that stops reading in the middle of a request (armed with StallNext)
			if _, err := io.ReadFull(sc.srv, frame[:2]); err != nil {
				return
			}
			key := protocol.ApiKey(int16(binary.BigEndian.Uint16(frame[:2])))
			c.mu.Lock()
			if c.stallNext[key] {
				delete(c.stallNext, key)
				c.stalledConn = sc.id
				c.StalledReads++
				c.mu.Unlock()
				c.event()
				c.mu.Lock()
				for c.stalledConn == sc.id {
					c.stallCond.Wait()
				}
			}
			c.mu.Unlock()
			if _, err := io.ReadFull(sc.srv, frame[2:]); err != nil {
				return
			}
		} else if _, err := io.ReadFull(sc.srv, frame); err != nil {
			return
		}
		vhook.Point(vhook.KEnv, nil)
		if raw {
			c.rawAuthToken(sc, frame)
			continue
		}
		e := &Entry{Conn: sc.id, Broker: sc.broker.ID, Raw: frame, sc: sc}
		full := append(append([]byte{}, szb[:]...), frame...)
		ver, corr, client, msg, err := protocol.ReadRequest(bytes.NewReader(full))
		if len(frame) >= 8 {
			e.Key = protocol.ApiKey(int16(binary.BigEndian.Uint16(frame[0:])))
			e.Version = int16(binary.BigEndian.Uint16(frame[2:]))
			e.CorrID = int32(binary.BigEndian.Uint32(frame[4:]))
		}
		if err != nil {
			e.DecodeErr = err.Error()
		} else {
			e.Version, e.CorrID, e.ClientID, e.Msg = ver, corr, client, msg
		}
		c.mu.Lock()
		e.Seq = len(c.Journal)
		e.At = c.Now()
		// request storm guard: a client that sends hundreds of requests at one virtual instant is
		// busy-looping; the brokers stop answering so that virtual time can move on
		if e.At == c.stormAt {
			c.stormN++
		} else {
			c.stormAt, c.stormN = e.At, 0
		}
		if c.stormN > 400 {
			c.Storm = true
		}
		e.AuthDone = sc.authed
		e.AfterCut = sc.cut
		c.Journal = append(c.Journal, e)
		sc.pending = append(sc.pending, e)
		if e.Key == protocol.Produce && e.DecodeErr == "" {
			c.parseProduce(e)
		}
		auto := c.Auto
		if auto && c.Script != nil {
			// the script decides at arrival, so that an injected error leaves the coordinator state untouched
			c.mu.Unlock()
			e.scripted = c.Script(e)
			e.hasScript = true
			c.mu.Lock()
		}
		if !(e.hasScript && (len(e.scripted) >= 3 && e.scripted[:3] == "err" || e.scripted == "drop")) {
			c.holdIfNeeded(e)
		}
		if c.Storm {
			e.Held = true
			e.Answer = "stall"
		}
		c.mu.Unlock()
		if auto {
			c.autoAnswer()
		}
		c.event()
	}
}

// autoAnswer answers everything answerable, repeatedly (barriers may release others).
func (c *Cluster) autoAnswer() {
	for {
		c.mu.Lock()
		var pick *Entry
		for _, sc := range c.Conns {
			if len(sc.pending) > 0 && !sc.pending[0].Held {
				pick = sc.pending[0]
				break
			}
		}
		c.mu.Unlock()
		if pick == nil {
			return
		}
		alt := ""
		if pick.hasScript {
			alt = pick.scripted
		} else if c.Script != nil {
			alt = c.Script(pick)
		}
		if alt == "hold" {
			c.mu.Lock()
			pick.Held = true
			c.mu.Unlock()
			continue
		}
		c.Answer(pick, alt)
	}
}

// Pending lists the requests that can be answered now: the oldest unanswered
// request of every connection, unless it is held by a group barrier.
func (c *Cluster) Pending() []*Entry {
	c.mu.Lock()
	defer c.mu.Unlock()
	var r []*Entry
	for _, sc := range c.Conns {
		if len(sc.pending) > 0 && !sc.pending[0].Held {
			r = append(r, sc.pending[0])
		}
	}
	sort.Slice(r, func(i, j int) bool { return r[i].Seq < r[j].Seq })
	return r
}

// HeldEntries lists requests waiting for a group barrier.
func (c *Cluster) HeldEntries() []*Entry {
	c.mu.Lock()
	defer c.mu.Unlock()
	var r []*Entry
	for _, sc := range c.Conns {
		for _, e := range sc.pending {
			if e.Held {
				r = append(r, e)
			}
		}
	}
	return r
}

func (c *Cluster) finish(e *Entry, ans string) {
	sc := e.sc
	for i, p := range sc.pending {
		if p == e {
			sc.pending = append(sc.pending[:i], sc.pending[i+1:]...)
			break
		}
	}
	e.done = true
	e.Held = false
	e.Answer = ans
	e.AnsweredAt = c.Now()
}

func (c *Cluster) writeFrame(e *Entry, body []byte) {
	var w refwire.W
	w.I32(int32(4 + len(body)))
	w.I32(e.CorrID)
	w.Raw(body)
	if c.Mutate != nil {
		w.B = c.Mutate(e, w.B, nil)
	}
	e.RespBytes = len(w.B)
	c.send(e, w.B)
}

// send writes a response frame, whole or (Answer "split:...") in pieces.
func (c *Cluster) send(e *Entry, frame []byte) {
	if len(c.pieces) > 0 {
		e.sc.srv.WritePieces(frame, c.pieces, c.pieceGap)
		return
	}
	e.sc.srv.Write(frame)
}

func (c *Cluster) writeMsg(e *Entry, msg protocol.Message) {
	var buf bytes.Buffer
	if err := protocol.WriteResponse(&buf, e.Version, e.CorrID, msg); err != nil {
		panic(fmt.Sprintf("fk: cannot encode %T v%d: %v", msg, e.Version, err))
	}
	frame := buf.Bytes()
	if c.Mutate != nil {
		frame = c.Mutate(e, frame, msg)
	}
	e.RespBytes = len(frame)
	c.send(e, frame)
}

// Answer answers a pending request. alt:
//
//	""  / "ok"          normal answer computed from the cluster state
//	"err:<code>"        the API's error answer with that code in its (first/main) error field, nothing applied
//	"err@<field>:<code>" error placed in a specific field (API dependent)
//	                    OffsetCommit: "err@p<idx>:<code>" rejects only the idx-th partition entry of the request (see Entry.PartErr)
//	"drop"              close the connection without answering, request not applied
//	"apply-drop"        apply the request, then close the connection without answering
//	"cut:<k>"           normal answer, but only k bytes of the response frame are delivered, then the connection closes
//	"<alt>+cut:<k>"     the answer <alt> (e.g. "err:6", nothing applied), cut in the same way after k bytes
//	"split:<k1>,<k2>,..[@<ms>]" normal answer, complete, but the client receives the response frame in pieces: the
//	                    bytes before k1 at once, those before k2 <ms> (default 10) of virtual time later, and so on;
//	                    nothing is lost and the connection stays open (a response that arrives in several segments)
//	"stall"             never answer (the request stays unanswered; the connection is blocked behind it)
//	"raw:<hex>"         (internal) write the given frame
func (c *Cluster) Answer(e *Entry, alt string) {
	c.mu.Lock()
	if e.done {
		c.mu.Unlock()
		return
	}
	sc := e.sc
	switch {
	case alt == "drop":
		c.finish(e, alt)
		c.dropConn(sc)
		c.mu.Unlock()
		c.event()
		return
	case alt == "stall":
		e.Held = true
		e.Answer = "stall"
		c.mu.Unlock()
		return
	}
	cut := -1
	mode := alt
	if len(alt) > 4 && alt[:4] == "cut:" {
		cut, _ = strconv.Atoi(alt[4:])
		mode = ""
	}
	if i := strings.Index(alt, "+cut:"); i > 0 {
		// "<answer>+cut:<k>": the answer alternative before the '+' (e.g. "err:6"), cut like "cut:<k>"
		cut, _ = strconv.Atoi(alt[i+5:])
		mode = alt[:i]
	}
	if alt == "apply-drop" {
		mode = ""
	}
	if len(alt) > 6 && alt[:6] == "split:" {
		spec, gap := alt[6:], 10
		if i := strings.IndexByte(spec, '@'); i >= 0 {
			gap, _ = strconv.Atoi(spec[i+1:])
			spec = spec[:i]
		}
		c.pieces = nil
		for _, f := range strings.Split(spec, ",") {
			if k, err := strconv.Atoi(f); err == nil {
				c.pieces = append(c.pieces, k)
			}
		}
		c.pieceGap = time.Duration(gap) * time.Millisecond
		mode = ""
	}
	if alt == "apply-drop" {
		// the response is produced to apply side effects; it must not reach the client
		sc.srv.LimitPeerReadsAfter(0)
	} else if cut >= 0 {
		sc.srv.LimitPeerReadsAfter(cut) // set before writing: the client may be reading concurrently
	}
	if cut >= 0 {
		sc.cut = true
	}
	c.respond(e, mode)
	c.pieces = nil
	if cut >= 0 && c.HalfCloseOnCut {
		c.finish(e, alt)
		c.mu.Unlock()
		c.event()
		return
	}
	if alt == "apply-drop" || cut >= 0 {
		c.finish(e, alt)
		c.dropConn(sc)
		c.mu.Unlock()
		c.event()
		return
	}
	if alt == "" {
		alt = "ok"
	}
	c.finish(e, alt)
	c.releaseBarriers()
	c.mu.Unlock()
	c.event()
}

func (c *Cluster) dropConn(sc *srvConn) {
	sc.closedByBroker = true
	for _, p := range sc.pending {
		p.done = true
		if p.Answer == "" {
			p.Answer = "conn-dropped"
			p.AnsweredAt = c.Now()
		}
	}
	sc.pending = nil
	sc.srv.Close()
	c.memberConnLost(sc)
}

// CutConn closes a connection from the broker side (no request needed).
func (c *Cluster) CutConn(id int) {
	c.mu.Lock()
	if id < len(c.Conns) {
		c.dropConn(c.Conns[id])
	}
	c.mu.Unlock()
	c.event()
}

// StallNext makes the broker stop reading after the first six bytes (size and api key) of the next request with
// that api key, on whichever connection it arrives, until ResumeReads.
func (c *Cluster) StallNext(key protocol.ApiKey) {
	c.mu.Lock()
	c.stallNext[key] = true
	c.mu.Unlock()
}

// StalledConn returns the connection on which the broker has stopped reading (-1: none).
func (c *Cluster) StalledConn() int {
	c.mu.Lock()
	defer c.mu.Unlock()
	return c.stalledConn
}

// ResumeReads lets the broker read on.
func (c *Cluster) ResumeReads() {
	c.mu.Lock()
	c.stalledConn = -1
	c.stallCond.Broadcast()
	c.mu.Unlock()
	c.event()
}

// MoveBroker models a broker restarting on another address: its connections are closed, it listens on the
// new host:port, and (when squatter >= 0) a new broker with that id takes over the old address.
func (c *Cluster) MoveBroker(id int, host string, port int, squatter int) {
	c.mu.Lock()
	b := c.BrokerByID(id)
	oldHost, oldPort := b.Host, b.Port
	for _, sc := range c.Conns {
		if sc.broker == b && !sc.closedByBroker {
			c.dropConn(sc)
		}
	}
	b.Host, b.Port = host, port
	if squatter >= 0 {
		c.Brokers = append(c.Brokers, &Broker{ID: squatter, Host: oldHost, Port: oldPort})
	}
	c.mu.Unlock()
	c.event()
}

// Withheld lists connections with response bytes not yet released to the client.
func (c *Cluster) Withheld() map[int]int {
	c.mu.Lock()
	defer c.mu.Unlock()
	r := map[int]int{}
	for _, sc := range c.Conns {
		if n := sc.srv.Withheld(); n > 0 && !sc.cli.Closed() {
			r[sc.id] = n
		}
	}
	return r
}

// Release lets the client read n more response bytes on connection id (n<0: all).
func (c *Cluster) Release(id, n int) {
	c.mu.Lock()
	sc := c.Conns[id]
	c.mu.Unlock()
	sc.srv.Release(n)
}

// OpenConns lists connections the client has not closed and the broker has not dropped.
func (c *Cluster) OpenConns() []int {
	c.mu.Lock()
	defer c.mu.Unlock()
	var r []int
	for _, sc := range c.Conns {
		if !sc.cli.Closed() && !sc.closedByBroker {
			r = append(r, sc.id)
		}
	}
	return r
}

// ClientClosed reports whether the client closed its end of connection id.
func (c *Cluster) ClientClosed(id int) bool {
	c.mu.Lock()
	defer c.mu.Unlock()
	return c.Conns[id].cli.Closed()
}

// Unconsumed reports how many response bytes written on conn id the client has not read.
func (c *Cluster) Unconsumed(id int) int {
	c.mu.Lock()
	defer c.mu.Unlock()
	return c.Conns[id].srv.Unread()
}

// ConnClosedLocked: the client closed its end or the broker dropped the connection (lock held by caller).
func (c *Cluster) ConnClosedLocked(id int) bool {
	return c.Conns[id].cli.Closed() || c.Conns[id].closedByBroker
}

// ClientClosedLocked: the client closed its end of connection id (lock held by caller).
func (c *Cluster) ClientClosedLocked(id int) bool { return c.Conns[id].cli.Closed() }

// ConnCutLocked: an answer was cut short on this connection (lock held by caller).
func (c *Cluster) ConnCutLocked(id int) bool { return c.Conns[id].cut }

// ClientBytes returns everything the client wrote on connection id (lock held by caller).
func (c *Cluster) ClientBytes(id int) []byte { return c.Conns[id].cli.Journal() }

// VersionsOf returns the table broker id advertises (lock held by caller).
func (c *Cluster) VersionsOf(broker int) map[protocol.ApiKey]VRange { return c.versionsOf(broker) }

func (c *Cluster) ConnBroker(id int) int {
	c.mu.Lock()
	defer c.mu.Unlock()
	return c.Conns[id].broker.ID
}
