package fk

import (
	"github.com/segmentio/kafka-go/protocol/fetch"

	"verif/engine/refwire"
)

// FetchShape lets a scenario shape the record set of fetch responses.
type FetchShape struct {
	// MaxBatches limits the number of whole batches returned per partition (0 = by byte limits only).
	MaxBatches int
	// TruncateTail cuts the record set after this many bytes of the LAST returned batch
	// (a partial trailing batch, as old fetch versions produce at the byte limit); 0 = keep whole.
	TruncateTail int
	// TruncateHead, when > 0, serves only the first this-many bytes of the FIRST returned batch and nothing after
	// it (a record set cut inside its first batch, as brokers do when the byte limit is below one batch); 0 = off.
	TruncateHead int
	// IgnoreMaxBytes returns all batches regardless of the request's limits.
	IgnoreMaxBytes bool
}

// SetFetchShape installs the shape used by subsequent fetch answers.
func (c *Cluster) SetFetchShape(s FetchShape) { c.mu.Lock(); c.shape = s; c.mu.Unlock() }

// recordSet builds the bytes served for a fetch at offset off: whole batches
// starting with the batch that contains off (so records before off may be
// included, as a broker does), limited by maxBytes but always at least one batch.
func (c *Cluster) recordSet(p *Partition, off int64, maxBytes int) []byte {
	var out []byte
	n := 0
	for _, b := range p.Log {
		if b.Last < off {
			continue
		}
		enc := b.Encode()
		if c.shape.TruncateHead > 0 {
			k := c.shape.TruncateHead
			if k > len(enc) {
				k = len(enc)
			}
			return append(out, enc[:k]...)
		}
		if !c.shape.IgnoreMaxBytes && n > 0 && maxBytes > 0 && len(out)+len(enc) > maxBytes {
			// byte limit: old versions return a partial batch
			if c.shape.TruncateTail > 0 {
				k := c.shape.TruncateTail
				if k > len(enc) {
					k = len(enc)
				}
				out = append(out, enc[:k]...)
			}
			return out
		}
		out = append(out, enc...)
		n++
		if c.shape.MaxBatches > 0 && n >= c.shape.MaxBatches {
			if c.shape.TruncateTail > 0 {
				// append a partial copy of the next batch
				for _, nb := range p.Log {
					if nb.FirstOffset() > b.Last {
						e2 := nb.Encode()
						k := c.shape.TruncateTail
						if k > len(e2) {
							k = len(e2)
						}
						out = append(out, e2[:k]...)
						break
					}
				}
			}
			return out
		}
	}
	return out
}

func (c *Cluster) respondFetch(e *Entry, req *fetch.Request, isErr bool, field string, code int16) {
	v := e.Version
	var w refwire.W
	if v >= 1 {
		w.I32(0) // throttle
	}
	if v >= 7 {
		if isErr && field == "top" {
			w.I16(code)
		} else {
			w.I16(0)
		}
		w.I32(0) // session id
	}
	w.I32(int32(len(req.Topics)))
	for _, t := range req.Topics {
		w.Str(t.Topic)
		w.I32(int32(len(t.Partitions)))
		for _, rp := range t.Partitions {
			part := c.Part(t.Topic, int(rp.Partition))
			var ec int16
			var hwm, start int64 = -1, -1
			var rs []byte
			switch {
			case isErr && field != "top":
				ec = code
				if part != nil {
					hwm, start = part.End, part.Start
				}
			case part == nil:
				ec = ErrUnknownTopicOrPartition
			case part.Err != 0:
				ec = part.Err
			case part.Leader != e.Broker:
				ec = ErrNotLeaderForPartition
			case rp.FetchOffset < part.Start || rp.FetchOffset > part.End:
				ec = ErrOffsetOutOfRange
				hwm, start = part.End, part.Start
			default:
				hwm, start = part.End, part.Start
				max := int(rp.PartitionMaxBytes)
				rs = c.recordSet(part, rp.FetchOffset, max)
			}
			w.I32(rp.Partition)
			w.I16(ec)
			w.I64(hwm)
			if v >= 4 {
				w.I64(hwm) // last stable offset
			}
			if v >= 5 {
				w.I64(start)
			}
			if v >= 4 {
				w.I32(-1) // aborted transactions: null
			}
			w.I32(int32(len(rs)))
			w.Raw(rs)
		}
	}
	c.writeFrame(e, w.B)
}
