package fk

import (
	"fmt"
	"sort"
	"time"

	"github.com/segmentio/kafka-go/protocol/fetch"
	"github.com/segmentio/kafka-go/protocol/joingroup"
	"github.com/segmentio/kafka-go/protocol/syncgroup"
)

type TP struct {
	Topic string
	Part  int
}

type Member struct {
	ID        string
	Conn      int
	Protocols []joingroup.RequestProtocol
	JoinedGen int // generation of its last completed join
	joinReq   *Entry
	syncReq   *Entry
	Assign    []byte
	LastSeen  time.Duration
	learned   bool // a join response carrying this id was delivered
	Session   time.Duration
}

type CommitRec struct {
	At     time.Duration
	Seq    int
	Group  string
	Member string
	Gen    int
	TP     TP
	Offset int64
}

type GroupEvent struct {
	At          time.Duration
	Seq         int    // journal sequence number of the request that caused it (-1: environment)
	Kind        string // join-complete, sync-complete, leave, evict, heartbeat
	Gen         int
	Member      string
	Assignments map[string][]byte
}

type Group struct {
	ID         string
	State      string // Empty, PreparingRebalance, CompletingRebalance, Stable
	Gen        int
	Members    map[string]*Member
	Leader     string
	Protocol   string
	Offsets    map[TP]int64
	Commits    []CommitRec
	Events     []GroupEvent
	Heartbeats []GroupEvent
	Leaves     []GroupEvent
}

func (c *Cluster) group(id string) *Group {
	g := c.Groups[id]
	if g == nil {
		g = &Group{ID: id, State: "Empty", Members: map[string]*Member{}, Offsets: map[TP]int64{}}
		c.Groups[id] = g
	}
	return g
}

// SetCommitted presets a committed offset.
func (c *Cluster) SetCommitted(group, topic string, part int, off int64) {
	c.mu.Lock()
	c.group(group).Offsets[TP{topic, part}] = off
	c.mu.Unlock()
}

func (g *Group) memberIDs() []string {
	var ids []string
	for id := range g.Members {
		ids = append(ids, id)
	}
	sort.Strings(ids)
	return ids
}

// holdIfNeeded marks join/sync requests that must wait for a barrier (lock held).
func (c *Cluster) holdIfNeeded(e *Entry) {
	switch req := e.Msg.(type) {
	case *fetch.Request:
		// long poll: a fetch that would return no data is held for MaxWaitTime (or until data arrives)
		if c.NoLongPoll || req.MaxWaitTime <= 0 {
			return
		}
		for _, t := range req.Topics {
			for _, p := range t.Partitions {
				part := c.Part(t.Topic, int(p.Partition))
				if part == nil || part.Err != 0 || part.Leader != e.Broker || p.FetchOffset != part.End {
					return
				}
			}
		}
		e.Held = true
		e.longPoll = true
		time.AfterFunc(time.Duration(req.MaxWaitTime)*time.Millisecond, func() {
			c.mu.Lock()
			was := e.Held && !e.done && e.Answer != "stall"
			if was {
				e.Held = false
			}
			auto := c.Auto
			c.mu.Unlock()
			if was {
				if auto {
					c.autoAnswer()
				}
				c.event()
			}
		})
	case *joingroup.Request:
		g := c.group(req.GroupID)
		if req.MemberID != "" && g.Members[req.MemberID] == nil {
			return // answered immediately with UnknownMemberId
		}
		id := req.MemberID
		if id == "" {
			c.nextMember++
			id = fmt.Sprintf("member-%d", c.nextMember)
			g.Members[id] = &Member{ID: id}
		}
		m := g.Members[id]
		m.Conn = e.Conn
		m.Protocols = req.Protocols
		m.joinReq = e
		m.LastSeen = c.Now()
		e.memberID = id
		m.Session = time.Duration(req.SessionTimeoutMS) * time.Millisecond
		if g.State != "PreparingRebalance" {
			g.State = "PreparingRebalance"
		}
		e.Held = true
		c.tryCompleteJoin(g)
		if e.Held {
			// A broker completes the join when the rebalance timeout expires, dropping the members that did
			// not rejoin (a member whose connection was lost, a second instance that went away): without
			// this a single lost connection would keep every later JoinGroup waiting for ever.
			wait := time.Duration(req.RebalanceTimeoutMS) * time.Millisecond
			if wait <= 0 {
				wait = time.Duration(req.SessionTimeoutMS) * time.Millisecond
			}
			gid := g.ID
			time.AfterFunc(wait, func() {
				c.mu.Lock()
				g2 := c.Groups[gid]
				changed := false
				if g2 != nil && e.Held && !e.done && g2.State == "PreparingRebalance" {
					for _, oid := range g2.memberIDs() {
						if om := g2.Members[oid]; om != nil && om.joinReq == nil {
							c.removeMember(g2, oid, "rebalance-timeout", -1)
							changed = true
						}
					}
					if changed {
						c.releaseBarriers()
					}
				}
				auto := c.Auto
				c.mu.Unlock()
				if changed {
					if auto {
						c.autoAnswer()
					}
					c.event()
				}
			})
		}
		if c.Auto && e.Held {
			// session expiry of members that do not rejoin (only emulated in auto mode; under the
			// explorer eviction is an explicit environment event)
			for oid, om := range g.Members {
				if om.joinReq != nil || om.Session <= 0 {
					continue
				}
				oid, seen, gid := oid, om.LastSeen, g.ID
				wait := om.Session - (c.Now() - om.LastSeen)
				if wait < 0 {
					wait = 0
				}
				time.AfterFunc(wait, func() {
					c.mu.Lock()
					g2 := c.Groups[gid]
					mm := g2.Members[oid]
					stale := mm != nil && mm.joinReq == nil && mm.LastSeen == seen
					c.mu.Unlock()
					if stale {
						c.Evict(gid, oid)
						c.autoAnswer()
					}
				})
			}
		}
	case *syncgroup.Request:
		g := c.group(req.GroupID)
		m := g.Members[req.MemberID]
		if m == nil || int(req.GenerationID) != g.Gen || g.State == "PreparingRebalance" || g.State == "Empty" {
			return // immediate error answer
		}
		m.syncReq = e
		m.LastSeen = c.Now()
		if req.MemberID == g.Leader {
			for _, a := range req.Assignments {
				if mm := g.Members[a.MemberID]; mm != nil {
					mm.Assign = a.Assignment
				}
			}
			g.State = "Stable"
			as := map[string][]byte{}
			for id, mm := range g.Members {
				as[id] = mm.Assign
			}
			g.Events = append(g.Events, GroupEvent{At: c.Now(), Seq: e.Seq, Kind: "sync-complete", Gen: g.Gen, Assignments: as})
		}
		if g.State != "Stable" {
			e.Held = true
		}
	}
}

// tryCompleteJoin completes the join barrier when every member has a pending join (lock held).
func (c *Cluster) tryCompleteJoin(g *Group) {
	if g.State != "PreparingRebalance" || len(g.Members) == 0 {
		return
	}
	for _, m := range g.Members {
		if m.joinReq == nil {
			return
		}
	}
	g.Gen++
	g.State = "CompletingRebalance"
	ids := g.memberIDs()
	if g.Members[g.Leader] == nil {
		g.Leader = ids[0]
	}
	// protocol: first protocol of the leader supported by all
	g.Protocol = ""
	for _, p := range g.Members[g.Leader].Protocols {
		all := true
		for _, m := range g.Members {
			has := false
			for _, q := range m.Protocols {
				has = has || q.Name == p.Name
			}
			all = all && has
		}
		if all {
			g.Protocol = p.Name
			break
		}
	}
	for _, m := range g.Members {
		m.JoinedGen = g.Gen
		m.Assign = nil
		m.syncReq = nil
		if m.joinReq != nil {
			m.joinReq.Held = false
		}
	}
	g.Events = append(g.Events, GroupEvent{At: c.Now(), Seq: -1, Kind: "join-complete", Gen: g.Gen})
}

// releaseBarriers un-holds requests whose barrier is complete (lock held).
func (c *Cluster) releaseBarriers() {
	for _, sc := range c.Conns {
		for _, e := range sc.pending {
			if e.longPoll && e.Held && e.Answer != "stall" {
				if req, ok := e.Msg.(*fetch.Request); ok {
					for _, t := range req.Topics {
						for _, p := range t.Partitions {
							if part := c.Part(t.Topic, int(p.Partition)); part != nil && p.FetchOffset < part.End {
								e.Held = false
							}
						}
					}
				}
			}
		}
	}
	for _, g := range c.Groups {
		c.tryCompleteJoin(g)
		if g.State == "Stable" {
			for _, m := range g.Members {
				if m.syncReq != nil && m.syncReq.Held && m.syncReq.Answer != "stall" {
					m.syncReq.Held = false
				}
			}
		}
	}
}

func (c *Cluster) respondJoin(e *Entry, req *joingroup.Request, isErr bool, code int16) {
	res := &joingroup.Response{GenerationID: -1}
	g := c.group(req.GroupID)
	id := e.memberID
	m := g.Members[id]
	switch {
	case isErr:
		res.ErrorCode = code
		res.MemberID = req.MemberID
		if m != nil && m.joinReq == e {
			m.joinReq = nil
			if req.MemberID == "" {
				delete(g.Members, id) // the client never learns this id
			}
		}
	case m == nil:
		res.ErrorCode = ErrUnknownMemberID
		res.MemberID = req.MemberID
	case g.Protocol == "":
		res.ErrorCode = ErrInconsistentProtocol
		res.MemberID = id
		m.joinReq = nil
	default:
		res.GenerationID = int32(g.Gen)
		res.ProtocolName = g.Protocol
		res.LeaderID = g.Leader
		res.MemberID = id
		if id == g.Leader {
			for _, mid := range g.memberIDs() {
				mm := g.Members[mid]
				var md []byte
				for _, p := range mm.Protocols {
					if p.Name == g.Protocol {
						md = p.Metadata
					}
				}
				res.Members = append(res.Members, joingroup.ResponseMember{MemberID: mid, Metadata: md})
			}
		}
		m.joinReq = nil
		m.learned = true
		e.Applied = true
	}
	c.writeMsg(e, res)
}

func (c *Cluster) respondSync(e *Entry, req *syncgroup.Request, isErr bool, code int16) {
	res := &syncgroup.Response{}
	g := c.group(req.GroupID)
	m := g.Members[req.MemberID]
	switch {
	case isErr:
		res.ErrorCode = code
	case m == nil:
		res.ErrorCode = ErrUnknownMemberID
	case int(req.GenerationID) != g.Gen:
		res.ErrorCode = ErrIllegalGeneration
	case g.State == "PreparingRebalance" || g.State == "Empty":
		res.ErrorCode = ErrRebalanceInProgress
	default:
		res.Assignments = m.Assign
		e.Applied = true
	}
	if m != nil && m.syncReq == e {
		m.syncReq = nil
	}
	c.writeMsg(e, res)
}

func (c *Cluster) heartbeat(e *Entry, group, member string, gen int32) int16 {
	g := c.group(group)
	m := g.Members[member]
	code := int16(0)
	switch {
	case m == nil:
		code = ErrUnknownMemberID
	case int(gen) != g.Gen:
		code = ErrIllegalGeneration
	case g.State == "PreparingRebalance":
		code = ErrRebalanceInProgress
	}
	if m != nil {
		m.LastSeen = c.Now()
	}
	g.Heartbeats = append(g.Heartbeats, GroupEvent{At: c.Now(), Seq: e.Seq, Kind: "heartbeat", Gen: int(gen), Member: member})
	return code
}

func (c *Cluster) leave(e *Entry, group, member string) int16 {
	g := c.group(group)
	g.Leaves = append(g.Leaves, GroupEvent{At: c.Now(), Seq: e.Seq, Kind: "leave", Gen: g.Gen, Member: member})
	if g.Members[member] == nil {
		return ErrUnknownMemberID
	}
	c.removeMember(g, member, "leave", e.Seq)
	e.Applied = true
	return 0
}

func (c *Cluster) removeMember(g *Group, member, kind string, seq int) {
	delete(g.Members, member)
	g.Events = append(g.Events, GroupEvent{At: c.Now(), Seq: seq, Kind: kind, Gen: g.Gen, Member: member})
	if len(g.Members) == 0 {
		g.State = "Empty"
		return
	}
	g.State = "PreparingRebalance"
	c.tryCompleteJoin(g)
}

// Evict removes a member as a session timeout would (environment event).
func (c *Cluster) Evict(group, member string) {
	c.mu.Lock()
	g := c.group(group)
	if g.Members[member] != nil {
		c.removeMember(g, member, "evict", -1)
		c.releaseBarriers()
	}
	c.mu.Unlock()
	c.event()
}

// ForceRebalance puts the group into PreparingRebalance (as a new member joining would).
func (c *Cluster) ForceRebalance(group string) {
	c.mu.Lock()
	g := c.group(group)
	if len(g.Members) > 0 {
		g.State = "PreparingRebalance"
		g.Events = append(g.Events, GroupEvent{At: c.Now(), Seq: -1, Kind: "rebalance-forced", Gen: g.Gen})
	}
	c.mu.Unlock()
	c.event()
}

func (c *Cluster) memberConnLost(sc *srvConn) {
	// a lost connection does not remove the member (the session timeout does); pending join/sync of that connection vanish
	for _, g := range c.Groups {
		for id, m := range g.Members {
			if m.joinReq != nil && m.joinReq.sc == sc {
				m.joinReq = nil
				if m.JoinedGen == 0 || (m.joinReq == nil && !m.learned) {
					// the client never learned this member id: the coordinator drops the member
					// (a broker does so when the rebalance timeout expires)
					delete(g.Members, id)
					if len(g.Members) == 0 {
						g.State = "Empty"
					}
					continue
				}
			}
			if m.syncReq != nil && m.syncReq.sc == sc {
				m.syncReq = nil
			}
		}
	}
}

func (c *Cluster) commitCheck(e *Entry, group, member string, gen int32) int16 {
	g := c.group(group)
	if gen < 0 && member == "" {
		return 0 // simple consumer commit
	}
	m := g.Members[member]
	switch {
	case m == nil:
		return ErrUnknownMemberID
	case int(gen) != g.Gen:
		return ErrIllegalGeneration
	case g.State == "CompletingRebalance":
		return ErrRebalanceInProgress
	}
	return 0
}

func (c *Cluster) commit(e *Entry, group, member string, gen int, topic string, part int, off int64) {
	g := c.group(group)
	g.Offsets[TP{topic, part}] = off
	g.Commits = append(g.Commits, CommitRec{At: c.Now(), Seq: e.Seq, Group: group, Member: member, Gen: gen, TP: TP{topic, part}, Offset: off})
}
