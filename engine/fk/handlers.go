package fk

import (
	"fmt"
	"sort"
	"strconv"
	"strings"

	"github.com/segmentio/kafka-go/protocol"
	"github.com/segmentio/kafka-go/protocol/apiversions"
	"github.com/segmentio/kafka-go/protocol/createtopics"
	"github.com/segmentio/kafka-go/protocol/deletetopics"
	"github.com/segmentio/kafka-go/protocol/fetch"
	"github.com/segmentio/kafka-go/protocol/findcoordinator"
	"github.com/segmentio/kafka-go/protocol/heartbeat"
	"github.com/segmentio/kafka-go/protocol/joingroup"
	"github.com/segmentio/kafka-go/protocol/leavegroup"
	"github.com/segmentio/kafka-go/protocol/listoffsets"
	"github.com/segmentio/kafka-go/protocol/metadata"
	"github.com/segmentio/kafka-go/protocol/offsetcommit"
	"github.com/segmentio/kafka-go/protocol/offsetfetch"
	"github.com/segmentio/kafka-go/protocol/produce"
	"github.com/segmentio/kafka-go/protocol/saslauthenticate"
	"github.com/segmentio/kafka-go/protocol/saslhandshake"
	"github.com/segmentio/kafka-go/protocol/syncgroup"

	"verif/engine/refwire"
)

// Kafka error codes used here.
const (
	ErrNone                    = 0
	ErrOffsetOutOfRange        = 1
	ErrCorruptMessage          = 2
	ErrUnknownTopicOrPartition = 3
	ErrLeaderNotAvailable      = 5
	ErrNotLeaderForPartition   = 6
	ErrRequestTimedOut         = 7
	ErrCoordinatorNotAvailable = 15
	ErrNotCoordinator          = 16
	ErrIllegalGeneration       = 22
	ErrInconsistentProtocol    = 23
	ErrUnknownMemberID         = 25
	ErrRebalanceInProgress     = 27
	ErrUnsupportedSASL         = 33
	ErrIllegalSASLState        = 34
	ErrUnsupportedVersion      = 35
	ErrTopicAlreadyExists      = 36
	ErrSASLAuthFailed          = 58
)

// DefaultVersions is what a broker advertises unless overridden.
var DefaultVersions = map[protocol.ApiKey]VRange{
	protocol.Produce: {0, 7}, protocol.Fetch: {0, 10}, protocol.ListOffsets: {0, 5}, protocol.Metadata: {0, 8},
	protocol.OffsetCommit: {0, 7}, protocol.OffsetFetch: {0, 5}, protocol.FindCoordinator: {0, 2}, protocol.JoinGroup: {0, 5},
	protocol.Heartbeat: {0, 3}, protocol.LeaveGroup: {0, 3}, protocol.SyncGroup: {0, 3}, protocol.DescribeGroups: {0, 4},
	protocol.ListGroups: {0, 2}, protocol.SaslHandshake: {0, 1}, protocol.ApiVersions: {0, 2}, protocol.CreateTopics: {0, 4},
	protocol.DeleteTopics: {0, 3}, protocol.SaslAuthenticate: {0, 1},
}

func (c *Cluster) versionsOf(broker int) map[protocol.ApiKey]VRange {
	if v, ok := c.Versions[broker]; ok {
		return v
	}
	return DefaultVersions
}

func parseErr(mode string) (field string, code int16, ok bool) {
	if !strings.HasPrefix(mode, "err") {
		return "", 0, false
	}
	rest := mode[3:]
	if strings.HasPrefix(rest, "@") {
		i := strings.IndexByte(rest, ':')
		field = rest[1:i]
		rest = rest[i:]
	}
	n, err := strconv.Atoi(strings.TrimPrefix(rest, ":"))
	if err != nil {
		panic("fk: bad answer " + mode)
	}
	return field, int16(n), true
}

// respond writes the response for e (lock held). mode "" = normal.
func (c *Cluster) respond(e *Entry, mode string) {
	field, code, isErr := parseErr(mode)
	_ = field
	if e.DecodeErr != "" {
		// a broker closes the connection on an undecodable request
		c.dropConn(e.sc)
		return
	}
	vr, known := c.versionsOf(e.Broker)[e.Key]
	if e.Key != protocol.ApiVersions && !c.AcceptAnyVersion && (!known || e.Version < vr.Min || e.Version > vr.Max) {
		// Kafka closes the connection for versions it does not support (except ApiVersions)
		e.ProdErr = fmt.Sprintf("unsupported version %d of api %d (broker supports %v)", e.Version, e.Key, vr)
		c.dropConn(e.sc)
		return
	}
	if !e.sc.authed {
		switch e.Key {
		case protocol.ApiVersions, protocol.SaslHandshake, protocol.SaslAuthenticate:
		default:
			// unauthenticated request: a real broker closes the connection
			c.dropConn(e.sc)
			return
		}
	}
	switch req := e.Msg.(type) {
	case *apiversions.Request:
		res := &apiversions.Response{}
		if isErr {
			res.ErrorCode = code
		}
		var keys []int
		vs := c.versionsOf(e.Broker)
		for k := range vs {
			keys = append(keys, int(k))
		}
		sort.Ints(keys)
		if isErr && code != 35 {
			keys = nil // a broker lists its versions with UNSUPPORTED_VERSION only; other errors come with an empty list
		}
		for _, k := range keys {
			r := vs[protocol.ApiKey(k)]
			res.ApiKeys = append(res.ApiKeys, apiversions.ApiKeyResponse{ApiKey: int16(k), MinVersion: r.Min, MaxVersion: r.Max})
		}
		c.writeMsg(e, res)

	case *metadata.Request:
		c.writeMsg(e, c.MetadataResponse(req.TopicNames, isErr, code, e.Version))

	case *produce.Request:
		c.respondProduce(e, req, isErr, code)

	case *fetch.Request:
		c.respondFetch(e, req, isErr, field, code)

	case *listoffsets.Request:
		res := &listoffsets.Response{}
		for _, t := range req.Topics {
			rt := listoffsets.ResponseTopic{Topic: t.Topic}
			for _, p := range t.Partitions {
				rp := listoffsets.ResponsePartition{Partition: p.Partition, Timestamp: -1, Offset: -1, LeaderEpoch: -1}
				part := c.Part(t.Topic, int(p.Partition))
				switch {
				case isErr:
					rp.ErrorCode = code
				case part == nil:
					rp.ErrorCode = ErrUnknownTopicOrPartition
				case part.Err != 0:
					rp.ErrorCode = part.Err
				case part.Leader != e.Broker:
					rp.ErrorCode = ErrNotLeaderForPartition
				default:
					rp.Offset, rp.Timestamp = part.OffsetFor(p.Timestamp)
				}
				rt.Partitions = append(rt.Partitions, rp)
			}
			res.Topics = append(res.Topics, rt)
		}
		c.writeMsg(e, res)

	case *findcoordinator.Request:
		res := &findcoordinator.Response{}
		if isErr {
			res.ErrorCode = code
			res.NodeID = -1
		} else {
			b := c.BrokerByID(c.CoordOf(req.Key))
			res.NodeID, res.Host, res.Port = int32(b.ID), b.Host, int32(b.Port)
		}
		c.writeMsg(e, res)

	case *joingroup.Request:
		c.respondJoin(e, req, isErr, code)
	case *syncgroup.Request:
		c.respondSync(e, req, isErr, code)
	case *heartbeat.Request:
		res := &heartbeat.Response{}
		if isErr {
			res.ErrorCode = code
		} else {
			res.ErrorCode = c.heartbeat(e, req.GroupID, req.MemberID, req.GenerationID)
		}
		c.writeMsg(e, res)
	case *leavegroup.Request:
		res := &leavegroup.Response{}
		if isErr {
			res.ErrorCode = code
		} else {
			if len(req.Members) > 0 {
				for _, m := range req.Members {
					ec := c.leave(e, req.GroupID, m.MemberID)
					res.Members = append(res.Members, leavegroup.ResponseMember{MemberID: m.MemberID, ErrorCode: ec})
				}
			} else {
				res.ErrorCode = c.leave(e, req.GroupID, req.MemberID)
			}
		}
		c.writeMsg(e, res)

	case *offsetcommit.Request:
		res := &offsetcommit.Response{}
		gerr := int16(0)
		if isErr {
			gerr = code
		} else {
			gerr = c.commitCheck(e, req.GroupID, req.MemberID, req.GenerationID)
		}
		// "err@p<idx>:<code>": only the idx-th partition entry of the request (entries counted across its topics in
		// request order) is answered with the code and not recorded; the other entries are handled normally
		rej := -1
		if isErr && len(field) > 1 && field[0] == 'p' {
			if n, perr := strconv.Atoi(field[1:]); perr == nil {
				rej = n
				gerr = c.commitCheck(e, req.GroupID, req.MemberID, req.GenerationID)
			}
		}
		idx := -1
		for _, t := range req.Topics {
			rt := offsetcommit.ResponseTopic{Name: t.Name}
			for _, p := range t.Partitions {
				idx++
				rp := offsetcommit.ResponsePartition{PartitionIndex: p.PartitionIndex, ErrorCode: gerr}
				if gerr == 0 {
					if idx == rej {
						rp.ErrorCode = code
						if e.PartErr == nil {
							e.PartErr = map[TP]int16{}
						}
						e.PartErr[TP{t.Name, int(p.PartitionIndex)}] = code
					} else if c.Part(t.Name, int(p.PartitionIndex)) == nil {
						rp.ErrorCode = ErrUnknownTopicOrPartition
					} else {
						c.commit(e, req.GroupID, req.MemberID, int(req.GenerationID), t.Name, int(p.PartitionIndex), p.CommittedOffset)
					}
				}
				rt.Partitions = append(rt.Partitions, rp)
			}
			res.Topics = append(res.Topics, rt)
		}
		e.Applied = gerr == 0
		c.writeMsg(e, res)

	case *offsetfetch.Request:
		res := &offsetfetch.Response{}
		g := c.Groups[req.GroupID]
		for _, t := range req.Topics {
			rt := offsetfetch.ResponseTopic{Name: t.Name}
			for _, p := range t.PartitionIndexes {
				rp := offsetfetch.ResponsePartition{PartitionIndex: p, CommittedOffset: -1, ComittedLeaderEpoch: -1}
				if isErr {
					rp.ErrorCode = code
				} else if g != nil {
					if off, ok := g.Offsets[TP{t.Name, int(p)}]; ok {
						rp.CommittedOffset = off
					}
				}
				rt.Partitions = append(rt.Partitions, rp)
			}
			res.Topics = append(res.Topics, rt)
		}
		c.writeMsg(e, res)

	case *saslhandshake.Request:
		c.respondHandshake(e, req, isErr, code)
	case *saslauthenticate.Request:
		c.respondAuthenticate(e, req, isErr, code, mode)

	case *createtopics.Request:
		res := &createtopics.Response{}
		for _, t := range req.Topics {
			rt := createtopics.ResponseTopic{Name: t.Name}
			switch {
			case isErr:
				rt.ErrorCode = code
			case e.Broker != c.Controller:
				rt.ErrorCode = 41 // NOT_CONTROLLER
			case c.Topics[t.Name] != nil:
				rt.ErrorCode = ErrTopicAlreadyExists
			default:
				n := int(t.NumPartitions)
				if n <= 0 {
					n = 1
				}
				c.AddTopic(t.Name, n, nil)
				e.Applied = true
			}
			res.Topics = append(res.Topics, rt)
		}
		c.writeMsg(e, res)

	case *deletetopics.Request:
		res := &deletetopics.Response{}
		for _, n := range req.TopicNames {
			rt := deletetopics.ResponseTopic{Name: n}
			switch {
			case isErr:
				rt.ErrorCode = code
			case c.Topics[n] == nil:
				rt.ErrorCode = ErrUnknownTopicOrPartition
			default:
				delete(c.Topics, n)
				e.Applied = true
			}
			res.Responses = append(res.Responses, rt)
		}
		c.writeMsg(e, res)

	default:
		panic(fmt.Sprintf("fk: no handler for %T", e.Msg))
	}
}

// MetadataResponse for the named topics (nil = all).
func (c *Cluster) MetadataResponse(names []string, isErr bool, code int16, version int16) *metadata.Response {
	res := &metadata.Response{ControllerID: int32(c.Controller), ClusterID: "fk"}
	for _, b := range c.Brokers {
		res.Brokers = append(res.Brokers, metadata.ResponseBroker{NodeID: int32(b.ID), Host: b.Host, Port: int32(b.Port), Rack: b.Rack})
	}
	if names == nil {
		for n := range c.Topics {
			names = append(names, n)
		}
		sort.Strings(names)
	}
	for _, n := range names {
		t := c.Topics[n]
		rt := metadata.ResponseTopic{Name: n}
		switch {
		case isErr:
			rt.ErrorCode = code
		case t == nil:
			rt.ErrorCode = ErrUnknownTopicOrPartition
		default:
			for _, p := range t.Parts {
				rp := metadata.ResponsePartition{PartitionIndex: int32(p.ID), LeaderID: int32(p.Leader)}
				for _, r := range p.Replicas {
					rp.ReplicaNodes = append(rp.ReplicaNodes, int32(r))
					rp.IsrNodes = append(rp.IsrNodes, int32(r))
				}
				if p.Leader < 0 {
					rp.ErrorCode = ErrLeaderNotAvailable
				}
				rt.Partitions = append(rt.Partitions, rp)
			}
		}
		res.Topics = append(res.Topics, rt)
	}
	return res
}

// OffsetFor answers a ListOffsets timestamp query: -2 earliest, -1 latest, else
// the first offset whose timestamp is >= ts.
func (p *Partition) OffsetFor(ts int64) (offset, timestamp int64) {
	switch ts {
	case -2:
		return p.Start, -1
	case -1:
		return p.End, -1
	}
	for _, b := range p.Log {
		for _, r := range b.Recs {
			if r.Offset >= p.Start && r.TS >= ts {
				return r.Offset, r.TS
			}
		}
	}
	return -1, -1
}

// Records returns the stored records with offset >= from, ascending (ground truth).
func (p *Partition) Records(from int64) []refwire.Rec {
	var out []refwire.Rec
	for _, b := range p.Log {
		if b.Control {
			continue
		}
		for _, r := range b.Recs {
			if r.Offset >= from {
				out = append(out, r)
			}
		}
	}
	return out
}

// Append adds a physical batch to the log; offsets inside the batch must be set.
func (p *Partition) Append(b *refwire.Batch) {
	p.Log = append(p.Log, b)
	if b.Last+1 > p.End {
		p.End = b.Last + 1
	}
}

// parseProduce extracts and strictly decodes the record sets of a produce request from its raw bytes.
func (c *Cluster) parseProduce(e *Entry) {
	r := &refwire.R{B: e.Raw}
	r.I16()
	v := r.I16()
	r.I32()
	r.NStr()
	if v >= 3 {
		r.NStr()
	}
	r.I16()
	r.I32()
	nt := int(r.I32())
	for i := 0; i < nt && r.Err == nil; i++ {
		r.Str()
		np := int(r.I32())
		for j := 0; j < np && r.Err == nil; j++ {
			r.I32()
			rs := r.Bytes()
			bs, err := refwire.DecodeRecordSet(rs)
			if err != nil {
				e.ProdErr = err.Error()
			}
			e.Batches = append(e.Batches, bs...)
		}
	}
	if r.Err != nil {
		e.ProdErr = "produce request framing: " + r.Err.Error()
	} else if r.Remain() != 0 {
		e.ProdErr = fmt.Sprintf("produce request: %d bytes after the last partition", r.Remain())
	}
}

func (c *Cluster) respondProduce(e *Entry, req *produce.Request, isErr bool, code int16) {
	res := &produce.Response{}
	bi := 0
	for _, t := range req.Topics {
		rt := produce.ResponseTopic{Topic: t.Topic}
		for _, p := range t.Partitions {
			rp := produce.ResponsePartition{Partition: p.Partition, BaseOffset: -1, LogAppendTime: -1}
			part := c.Part(t.Topic, int(p.Partition))
			switch {
			case isErr:
				rp.ErrorCode = code
			case part == nil:
				rp.ErrorCode = ErrUnknownTopicOrPartition
			case part.Err != 0:
				rp.ErrorCode = part.Err
			case part.Leader != e.Broker:
				rp.ErrorCode = ErrNotLeaderForPartition
			case e.ProdErr != "":
				rp.ErrorCode = ErrCorruptMessage
			default:
				base := part.End
				rp.BaseOffset = base
				e.BaseOff = base
				// store as one v2 batch per incoming physical batch
				for ; bi < len(e.Batches); bi++ {
					in := e.Batches[bi]
					nb := &refwire.Batch{Format: 2, Base: part.End}
					for k, r := range in.Recs {
						r.Offset = part.End + int64(k)
						nb.Recs = append(nb.Recs, r)
					}
					if len(nb.Recs) == 0 {
						continue
					}
					nb.Last = nb.Base + int64(len(nb.Recs)) - 1
					part.Append(nb)
				}
				e.Applied = true
				// the client may have given this attempt up (closed the connection) before the broker got to it
				e.ClientGone = e.sc.cli.Closed()
			}
			rt.Partitions = append(rt.Partitions, rp)
		}
		res.Topics = append(res.Topics, rt)
	}
	if req.Acks == 0 {
		return // no response for acks=0
	}
	c.writeMsg(e, res)
}
