package fk

import (
	"bytes"
	"crypto/sha256"
	"crypto/sha512"
	"hash"
	"strconv"
	"strings"

	"github.com/segmentio/kafka-go/protocol/saslauthenticate"
	"github.com/segmentio/kafka-go/protocol/saslhandshake"
	"github.com/xdg-go/scram"
)

// SASLConfig turns the brokers into SASL listeners.
type SASLConfig struct {
	Mechanisms []string          // advertised / accepted mechanisms
	Users      map[string]string // user -> password
	// Fault injected into the exchange: "", "bad-server-final" (malformed last server message),
	// "close-at:<step>" (close the connection instead of answering authenticate round <step>)
	Fault string
	// InBand makes a failed SCRAM step answer with error code 0 and the server's e=... message
	// (what a broker does that signals the failure inside the SASL payload)
	InBand bool
	// PlainAnswer is the token a broker sends along with the acceptance of a PLAIN exchange (nil: none, like Kafka).
	PlainAnswer []byte
}

type saslSession struct {
	mech         string
	conv         *scram.ServerConversation
	round        int
	done         bool
	failedInBand bool
}

type AuthRec struct {
	Conn    int
	Mech    string
	User    string
	Success bool
	Round   int
}

func (c *Cluster) scramServer(mech string) *scram.ServerConversation {
	var hg scram.HashGeneratorFcn
	if mech == "SCRAM-SHA-256" {
		hg = func() hash.Hash { return sha256.New() }
	} else {
		hg = func() hash.Hash { return sha512.New() }
	}
	srv, err := hg.NewServer(func(user string) (scram.StoredCredentials, error) {
		pw, ok := c.SASL.Users[user]
		if !ok {
			// RFC 5802: ',' and '=' travel as =2C and =3D in the user name
			user = strings.ReplaceAll(strings.ReplaceAll(user, "=2C", ","), "=3D", "=")
			pw, ok = c.SASL.Users[user]
		}
		if !ok {
			return scram.StoredCredentials{}, errUnknownUser
		}
		client, _ := hg.NewClient(user, pw, "")
		kf := scram.KeyFactors{Salt: "fk-salt-" + user, Iters: 4096}
		return client.GetStoredCredentials(kf), nil
	})
	if err != nil {
		panic(err)
	}
	return srv.NewConversation()
}

type authErr string

func (e authErr) Error() string { return string(e) }

var errUnknownUser = authErr("unknown user")

func (c *Cluster) respondHandshake(e *Entry, req *saslhandshake.Request, isErr bool, code int16) {
	res := &saslhandshake.Response{Mechanisms: c.SASL.mechs()}
	ok := false
	for _, m := range res.Mechanisms {
		ok = ok || m == req.Mechanism
	}
	switch {
	case isErr:
		res.ErrorCode = code
	case c.SASL == nil:
		res.ErrorCode = ErrIllegalSASLState
	case !ok:
		res.ErrorCode = ErrUnsupportedSASL
	default:
		e.sc.mech = req.Mechanism
		e.sc.sasl = &saslSession{mech: req.Mechanism}
		if req.Mechanism != "PLAIN" {
			e.sc.sasl.conv = c.scramServer(req.Mechanism)
		}
		if e.Version == 0 {
			e.sc.rawAuth = true
		}
	}
	c.writeMsg(e, res)
}

func (s *SASLConfig) mechs() []string {
	if s == nil {
		return nil
	}
	return s.Mechanisms
}

// step runs one round of the server side; returns the server message, whether
// the exchange is complete and successful, and whether it failed.
func (c *Cluster) saslStep(sc *srvConn, in []byte) (out []byte, done, failed bool) {
	s := sc.sasl
	if s == nil {
		return nil, false, true
	}
	s.round++
	if s.mech == "PLAIN" {
		parts := bytes.Split(in, []byte{0})
		if len(parts) != 3 {
			return nil, false, true
		}
		pw, ok := c.SASL.Users[string(parts[1])]
		if !ok || pw != string(parts[2]) {
			return nil, false, true
		}
		return c.SASL.PlainAnswer, true, false
	}
	resp, err := s.conv.Step(string(in))
	if err != nil {
		if c.SASL.InBand && resp != "" {
			s.failedInBand = true
			return []byte(resp), false, false
		}
		return nil, false, true
	}
	if s.failedInBand {
		return nil, false, true
	}
	if s.conv.Done() {
		if !s.conv.Valid() {
			return nil, false, true
		}
		return []byte(resp), true, false
	}
	return []byte(resp), false, false
}

func (c *Cluster) respondAuthenticate(e *Entry, req *saslauthenticate.Request, isErr bool, code int16, mode string) {
	res := &saslauthenticate.Response{}
	if isErr {
		res.ErrorCode = code
		c.writeMsg(e, res)
		return
	}
	out, done, failed := c.saslStep(e.sc, req.AuthBytes)
	if mode == "garble" && len(out) > 0 {
		out = append([]byte("x="), out...)
	}
	if failed {
		res.ErrorCode = ErrSASLAuthFailed
		msg := "authentication failed"
		res.ErrorMessage = msg
		c.Auths = append(c.Auths, AuthRec{Conn: e.Conn, Mech: e.sc.mech, Success: false, Round: e.sc.saslRound()})
		c.writeMsg(e, res)
		return
	}
	res.AuthBytes = out
	if done {
		e.sc.authed = true
		c.Auths = append(c.Auths, AuthRec{Conn: e.Conn, Mech: e.sc.mech, Success: true, Round: e.sc.saslRound()})
	}
	c.writeMsg(e, res)
}

func (sc *srvConn) saslRound() int {
	if sc.sasl == nil {
		return 0
	}
	return sc.sasl.round
}

// rawAuthToken handles the opaque tokens of handshake v0 (no request header).
func (c *Cluster) rawAuthToken(sc *srvConn, token []byte) {
	c.mu.Lock()
	e := &Entry{Seq: len(c.Journal), Conn: sc.id, Broker: sc.broker.ID, At: c.Now(), Key: -1, Raw: token, sc: sc, Answer: "raw-auth", AfterCut: sc.cut}
	c.Journal = append(c.Journal, e)
	out, done, failed := c.saslStep(sc, token)
	if c.RawAuthFault != "" && c.RawAuthFault == "close" {
		failed = true
	}
	if failed {
		c.Auths = append(c.Auths, AuthRec{Conn: sc.id, Mech: sc.mech, Success: false, Round: sc.saslRound()})
		c.dropConn(sc) // a broker signals failure of the raw exchange by closing
		c.mu.Unlock()
		c.event()
		return
	}
	if done {
		sc.authed = true
		sc.rawAuth = false
		c.Auths = append(c.Auths, AuthRec{Conn: sc.id, Mech: sc.mech, Success: true, Round: sc.saslRound()})
	}
	var b [4]byte
	b[0], b[1], b[2], b[3] = byte(len(out)>>24), byte(len(out)>>16), byte(len(out)>>8), byte(len(out))
	frame := append(b[:], out...)
	if c.RawAuthMutate != nil {
		frame = c.RawAuthMutate(sc.saslRound(), frame)
	}
	e.RespBytes = len(frame)
	if c.RawAuthCut != nil {
		if k := c.RawAuthCut(sc.id, sc.saslRound(), frame); k >= 0 {
			sc.cut = true
			e.Answer = "raw-auth cut:" + strconv.Itoa(k)
			sc.srv.LimitPeerReadsAfter(k) // set before writing: the client may be reading concurrently
			sc.srv.Write(frame)
			if !c.HalfCloseOnCut {
				c.dropConn(sc)
			}
			c.mu.Unlock()
			c.event()
			return
		}
	}
	sc.srv.Write(frame)
	c.mu.Unlock()
	c.event()
}
