// Package qx is a stateless model checker for real Go code running inside a
// testing/synctest bubble: a controlled scheduler (one decision at every
// quiescent point: which parked goroutine, which environment event, or let
// virtual time run) plus a deviation-bounded breadth/depth-first search that
// re-executes the scenario from scratch for every alternative decision.
package qx

import (
	"fmt"
	"hash/fnv"
	"os"
	"path/filepath"
	"runtime"
	"sort"
	"strconv"
	"strings"
	"sync"
	"testing/synctest"
	"time"

	"github.com/segmentio/kafka-go/zzverif/vhook"
	"github.com/segmentio/kafka-go/zzverif/vsync"

	"verif/engine/racectl"
)

// Action is an environment event offered at a decision point.
type Action struct {
	Label string
	Do    func()
}

// Config of one scenario's executions.
type Config struct {
	Fine      bool          // park goroutines at sync points (else points are free)
	Files     []string      // base names of kafka-go files whose points park (empty = all)
	Kinds     []vhook.Kind  // kinds that park (empty = Lock,RLock,WGWait,Once)
	WakeFiles []string      // files (among Files) in which the points after channel operations and at the start of select cases are decisions too
	Horizon   time.Duration // virtual-time horizon of one execution
	Quantum   time.Duration // first idle tick length (doubles while idle)
	Grace     time.Duration // virtual time granted after the body finished, before the leak census
	MaxSteps  int           // safety valve per execution
	NoTick    bool          // never offer the tick as an alternative while something else is enabled
}

type Step struct {
	Pick  int    `json:"pick"`
	N     int    `json:"n"`
	Label string `json:"label"`
	At    int64  `json:"at_ms"`
}

type Status string

const (
	StDone     Status = "done"
	StHang     Status = "hang"     // horizon reached with client threads blocked
	StDeadlock Status = "deadlock" // nothing enabled, no timer can change that
	StSteps    Status = "maxsteps"
	StDiverged Status = "diverged" // replay prefix asked for a choice that does not exist
)

// pcInfo describes a call site of a point.
type pcInfo struct {
	pc       uintptr
	shim     bool // the frame is a sync shim: the site is its caller
	resolved bool // file/line/function filled in (only for sites, not for shim frames)
	file     string
	fn       string
	line     int
	inFiles  bool
	waitResp bool
	derived  bool
	wakeDec  bool
}

type parked struct {
	g     *gor
	kind  vhook.Kind
	obj   any
	pc    uintptr
	yield bool // re-locking the mutex it just released: a spin iteration
	prog  int  // progress counter when it parked
	auto  bool // not a decision: granted in canonical order as soon as enabled
	ch    chan struct{}
}

type gor struct {
	gid        int64
	ord        int
	name       string
	lastUnlock any
	spinPC     uintptr
	spinN      int
	spinning   bool
	iterSites  []uintptr
	bodySites  []uintptr
}

// Exec is one execution of a scenario. All exported methods are for the
// scenario body, which runs as the root goroutine of the bubble.
type Exec struct {
	Cfg    Config
	prefix []int
	Steps  []Step
	Status Status
	Note   string

	mu       sync.Mutex
	joinMu   sync.Mutex // the only synchronisation between client threads and the body that the race detector sees: thread end -> Run returns
	parked   []*parked
	wake     chan struct{}
	active   bool
	rootGID  int64
	lastRun  *gor
	start    time.Time
	env      func() []Action
	envAlt   func() []Action
	threads  int
	finished int
	idle     time.Duration
	files    map[string]bool
	kinds    [32]bool
	// Tables used on the goroutines of the program under test are plain arrays: map operations are
	// instrumented by the runtime even in packages built without -race, and every (false) report about
	// harness state costs the race detector memory it never gives back.
	pcTab  [4096]*pcInfo
	gorTab [8192]*gor
	ngors  int

	stateSigs map[uint64]struct{}
	Blocked   []string // filled on hang/deadlock: where client threads are blocked
	progress  int      // counts grants, environment actions and ticks (guarded by mu)
	autoSteps int
}

func newExec(cfg Config, prefix []int, sigs map[uint64]struct{}) *Exec {
	x := &Exec{Cfg: cfg, prefix: prefix, stateSigs: sigs}
	if x.Cfg.Horizon == 0 {
		x.Cfg.Horizon = 60 * time.Second
	}
	if x.Cfg.Quantum == 0 {
		// A tick lasts until the first observable consequence of a timer, or this
		// long if there is none; scenarios set it above their longest timer so that
		// one tick always reaches the next timer event.
		x.Cfg.Quantum = 5 * time.Second
	}
	if x.Cfg.MaxSteps == 0 {
		x.Cfg.MaxSteps = 2000
	}
	if len(cfg.Files) > 0 {
		x.files = map[string]bool{}
		for _, f := range cfg.Files {
			x.files[f] = true
		}
	}
	if len(cfg.Kinds) == 0 {
		for _, k := range []vhook.Kind{vhook.KLock, vhook.KRLock, vhook.KWGWait, vhook.KOnce, vhook.KGo, vhook.KUser, vhook.KEnv, vhook.KWake} {
			x.kinds[k] = true
		}
	} else {
		for _, k := range cfg.Kinds {
			x.kinds[k] = true
		}
		x.kinds[vhook.KEnv] = true
		x.kinds[vhook.KWake] = true
	}
	return x
}

func curGID() int64 {
	var buf [40]byte
	n := runtime.Stack(buf[:], false)
	// "goroutine 123 ["
	s := buf[10:n]
	var id int64
	for _, c := range s {
		if c < '0' || c > '9' {
			break
		}
		id = id*10 + int64(c-'0')
	}
	return id
}

// begin is called by the explorer as the first thing inside the bubble.
func (x *Exec) begin() {
	x.wake = make(chan struct{}, 1)
	x.rootGID = curGID()
	x.start = time.Now()
	x.active = true
	vsync.ResetPools()
	vhook.Install(&vhook.Hooks{Point: x.point, Note: x.note})
}

// Release ends scheduling control: parked goroutines are let go and points become no-ops, so
// that the body can let virtual time run (time.Sleep) before its final census.
func (x *Exec) Release() { x.end() }

func (x *Exec) end() {
	x.mu.Lock()
	x.active = false
	ps := x.parked
	x.parked = nil
	x.mu.Unlock()
	for _, p := range ps {
		close(p.ch)
	}
	vhook.Uninstall()
}

// Free runs f (part of a scenario's set-up, on the body's goroutine) without scheduling control: requests made
// before Run would otherwise wait for broker goroutines that are parked until Run grants them.
func (x *Exec) Free(f func()) {
	vhook.Uninstall()
	defer vhook.Install(&vhook.Hooks{Point: x.point, Note: x.note})
	f()
}

// Now is the virtual time since the execution began.
func (x *Exec) Now() time.Duration { return time.Since(x.start) }

// SetEnv registers the function that lists the enabled environment actions in
// canonical order. It is called by the explorer at quiescent points only.
func (x *Exec) SetEnv(f func() []Action) { x.env = f }

// SetEnvAlt registers a second list of environment actions, offered after the tick: they are never the default
// choice, not even when nothing else is enabled and time would otherwise pass (events that may strike while the
// system is idle, e.g. a fault on an outstanding long poll).
func (x *Exec) SetEnvAlt(f func() []Action) { x.envAlt = f }

// Notify tells the explorer that something observable happened (ends a tick).
//
//go:norace
func (x *Exec) Notify() {
	racectl.Off()
	defer racectl.On()
	select {
	case x.wake <- struct{}{}:
	default:
	}
}

// Go starts a client thread. The execution is complete when all client threads
// have returned.
func (x *Exec) Go(name string, f func()) {
	x.threads++
	go x.thread(name, f)
}

//go:norace
func (x *Exec) thread(name string, f func()) {
	racectl.Off()
	gid := curGID()
	x.mu.Lock()
	g := x.gorLocked(gid)
	g.name = name
	x.mu.Unlock()
	racectl.On()
	defer func() {
		// what the thread did happens before what the body does after Run (as after a WaitGroup.Wait)
		x.joinMu.Lock()
		x.joinMu.Unlock()
		racectl.Off()
		x.mu.Lock()
		x.finished++
		x.mu.Unlock()
		racectl.On()
		x.Notify()
	}()
	f()
}

//go:norace
func (x *Exec) gorLocked(gid int64) *gor {
	n := len(x.gorTab)
	for i := int(gid) % n; ; i = (i + 1) % n {
		g := x.gorTab[i]
		if g == nil {
			if x.ngors >= n-1 {
				panic("qx: more goroutines than the table holds")
			}
			g = &gor{gid: gid, ord: x.ngors}
			x.ngors++
			x.gorTab[i] = g
			return g
		}
		if g.gid == gid {
			return g
		}
	}
}

// pcLocked returns the entry of pc, creating it.
func (x *Exec) pcLocked(pc uintptr) *pcInfo {
	n := len(x.pcTab)
	for i := int(pc>>2) % n; ; i = (i + 1) % n {
		pi := x.pcTab[i]
		if pi == nil {
			pi = &pcInfo{pc: pc}
			x.pcTab[i] = pi
			return pi
		}
		if pi.pc == pc {
			return pi
		}
	}
}

func hasPC(l []uintptr, pc uintptr) bool {
	for _, q := range l {
		if q == pc {
			return true
		}
	}
	return false
}

//go:norace
func (x *Exec) note(k vhook.Kind, obj any) {
	racectl.Off()
	defer racectl.On()
	gid := curGID()
	x.mu.Lock()
	if x.active {
		g := x.gorLocked(gid)
		if k == vhook.KUnlock {
			g.lastUnlock = obj
		} else {
			g.lastUnlock = nil
		}
	}
	x.mu.Unlock()
}

//go:norace
func (x *Exec) point(k vhook.Kind, obj any) {
	if !x.kinds[k] {
		return
	}
	racectl.Off()
	defer racectl.On()
	gid := curGID()
	if gid == x.rootGID {
		return
	}
	// caller in kafka-go: skip Callers, point, vhook.Point, and the shim method if
	// the point was reached through one (vsync/vatomic); direct points (go
	// statements, harness code) have no shim frame.
	var pcs2 [2]uintptr
	runtime.Callers(3, pcs2[:])
	x.mu.Lock()
	if !x.active {
		x.mu.Unlock()
		return
	}
	pc := pcs2[0]
	pi := x.pcLocked(pc)
	if !pi.resolved {
		fr, _ := runtime.CallersFrames(pcs2[:1]).Next()
		pi.resolved = true
		pi.shim = strings.Contains(fr.File, "/shim/v") || strings.Contains(fr.Function, "zzverif/v")
		pi.file, pi.line, pi.fn = filepath.Base(fr.File), fr.Line, fr.Function
	}
	if pi.shim {
		pc = pcs2[1]
		pi = x.pcLocked(pc)
		if !pi.resolved {
			fr, _ := runtime.CallersFrames([]uintptr{pc}).Next()
			pi.resolved = true
			pi.file, pi.line, pi.fn = filepath.Base(fr.File), fr.Line, fr.Function
		}
	}
	if !pi.derived {
		pi.derived = true
		if i := strings.LastIndex(pi.fn, "/"); i >= 0 {
			pi.fn = pi.fn[i+1:]
		}
		pi.waitResp = strings.Contains(pi.fn, "waitResponse")
		pi.inFiles = x.files == nil || x.files[pi.file]
		for _, f := range x.Cfg.WakeFiles {
			if f == pi.file {
				pi.wakeDec = true
			}
		}
	}
	g := x.gorLocked(gid)
	// A spin iteration: the goroutine re-locks the mutex it has just released, at
	// a site known to spin (Conn.waitResponse), or for the 20th time in a row at
	// the same site. Spinners wait until something else made progress.
	yield := false
	if k == vhook.KLock && g.lastUnlock != nil && g.lastUnlock == obj {
		if g.spinPC == pc {
			g.spinN++
		} else {
			g.spinPC, g.spinN = pc, 1
		}
		yield = g.spinN >= 20 || pi.waitResp
	} else {
		g.spinPC, g.spinN = 0, 0
	}
	// While a goroutine is inside the body of its spin loop (the sites it passed between its
	// last two yields), the points it passes are not progress for other spinners: two
	// spinners would otherwise wake each other forever and starve everything else.
	if yield {
		g.bodySites, g.iterSites = g.iterSites, make([]uintptr, 0, 8)
		g.spinning = true
	} else {
		if !hasPC(g.iterSites, pc) {
			g.iterSites = append(g.iterSites, pc)
		}
		if g.spinning && !hasPC(g.bodySites, pc) {
			g.spinning = false
		}
	}
	g.lastUnlock = nil
	auto := !x.Cfg.Fine || k == vhook.KEnv || (k == vhook.KWake && !pi.wakeDec) || (!pi.inFiles && k != vhook.KUser)
	p := &parked{g: g, kind: k, obj: obj, pc: pc, yield: yield, prog: x.progress, auto: auto, ch: make(chan struct{})}
	x.addParkedLocked(p)
	x.mu.Unlock()
	x.Notify()
	<-p.ch
}

// addParkedLocked and unparkLocked move elements by hand: append and copy are instrumented by the runtime.
//
//go:norace
func (x *Exec) addParkedLocked(p *parked) {
	n := len(x.parked)
	if n == cap(x.parked) {
		grown := make([]*parked, n, 2*n+8)
		for i := 0; i < n; i++ {
			grown[i] = x.parked[i]
		}
		x.parked = grown
	}
	x.parked = x.parked[:n+1]
	x.parked[n] = p
}

type choice struct {
	label string
	p     *parked
	act   *Action
	tick  bool
}

//go:norace
func (x *Exec) allDone() bool {
	x.mu.Lock()
	defer x.mu.Unlock()
	return x.finished == x.threads
}

// Run drives the execution until all client threads have returned, the horizon
// is reached or nothing can happen any more.
func (x *Exec) Run() Status {
	st := x.run()
	x.joinMu.Lock()
	x.joinMu.Unlock()
	return st
}

// The controller itself is visible to the race detector: it acquires from every goroutine (synctest.Wait), but
// nothing it releases is ever acquired by a goroutine of the program under test, because those take part in the
// scheduler's, the network's and the brokers' synchronisation with the detector switched off (racectl.Off).
func (x *Exec) run() Status {
	for {
		synctest.Wait()
		if x.allDone() {
			x.mu.Lock()
			np := len(x.parked)
			x.mu.Unlock()
			if np == 0 {
				x.Status = StDone
				return x.Status
			}
		}
		if len(x.Steps) >= x.Cfg.MaxSteps {
			x.Status = StSteps
			return x.Status
		}
		if x.autoGrant() {
			continue
		}
		cs := x.enabled()
		if len(cs) == 0 {
			if x.Now() >= x.Cfg.Horizon {
				x.Status = StHang
			} else {
				x.Status = StDeadlock
			}
			if os.Getenv("VERIF_DEBUG_STACKS") != "" {
				buf := make([]byte, 1<<20)
				n := runtime.Stack(buf, true)
				os.Stderr.Write(buf[:n])
			}
			return x.Status
		}
		d := len(x.Steps)
		pick := 0
		if d < len(x.prefix) {
			pick = x.prefix[d]
		}
		if pick >= len(cs) {
			x.Status = StDiverged
			x.Note = fmt.Sprintf("step %d: prefix wants choice %d of %d", d, pick, len(cs))
			return x.Status
		}
		if x.stateSigs != nil {
			h := fnv.New64a()
			for _, c := range cs {
				h.Write([]byte(c.label))
				h.Write([]byte{0})
			}
			x.stateSigs[h.Sum64()] = struct{}{}
		}
		c := cs[pick]
		x.Steps = append(x.Steps, Step{Pick: pick, N: len(cs), Label: c.label, At: x.Now().Milliseconds()})
		switch {
		case c.p != nil:
			x.mu.Lock()
			x.unparkLocked(c.p)
			x.mu.Unlock()
			x.lastRun = c.p.g
			x.idle = 0
			close(c.p.ch)
		case c.act != nil:
			x.mu.Lock()
			x.progress++
			x.mu.Unlock()
			x.lastRun = nil
			x.idle = 0
			c.act.Do()
		case c.tick:
			x.mu.Lock()
			x.progress++
			x.mu.Unlock()
			x.lastRun = nil
			x.tick()
		}
	}
}

// autoGrant releases, without a decision, the first (by goroutine id) enabled
// goroutine that is parked at a point outside the scenario's fine-grained files.
// Everything is thereby serialised deterministically: whatever order the Go
// runtime wakes goroutines in, they proceed one at a time in canonical order.
//
//go:norace
func (x *Exec) autoGrant() bool {
	x.mu.Lock()
	var best *parked
	for _, p := range x.parked {
		if !p.auto || !x.canRun(p) {
			continue
		}
		if best == nil || p.g.gid < best.g.gid {
			best = p
		}
	}
	if best == nil {
		x.mu.Unlock()
		return false
	}
	x.unparkLocked(best)
	x.mu.Unlock()
	x.autoSteps++
	close(best.ch)
	return true
}

// canRun: the lock wanted is free, and a spinner (Unlock(m) immediately
// followed by Lock(m)) waits until something else made progress.
//
//go:norace
func (x *Exec) canRun(p *parked) bool {
	if p.yield && p.prog == x.progress {
		return false
	}
	// asking a shim mutex about its state takes its internal lock: not something the program under test may
	// synchronise through
	racectl.Off()
	defer racectl.On()
	switch p.kind {
	case vhook.KLock:
		if l, is := p.obj.(vhook.Lockable); is {
			return l.CanLock()
		}
	case vhook.KRLock:
		if l, is := p.obj.(vhook.Lockable); is {
			return l.CanRLock()
		}
	}
	return true
}

//go:norace
func (x *Exec) unparkLocked(p *parked) {
	for i, q := range x.parked {
		if q == p {
			n := len(x.parked)
			for j := i; j < n-1; j++ {
				x.parked[j] = x.parked[j+1]
			}
			x.parked[n-1] = nil
			x.parked = x.parked[:n-1]
			break
		}
	}
	if !p.g.spinning {
		x.progress++
	}
}

// Tick lets virtual time run until the next observable event, at most one quantum: the same step as the
// explorer's own "tick" choice, for environments that script the passage of time as an action of their own
// (an Action whose Do calls Tick), e.g. to make waiting the default choice while other actions stay available
// as deviations. Only to be called from an Action's Do.
//
//go:norace
func (x *Exec) Tick() { x.tick() }

//go:norace
func (x *Exec) tick() {
	select {
	case <-x.wake:
	default:
	}
	q := x.Cfg.Quantum
	if x.idle > 0 {
		q = x.idle * 2
	}
	if rem := x.Cfg.Horizon - x.Now(); q > rem {
		q = rem
	}
	if q <= 0 {
		q = time.Millisecond
	}
	t := time.NewTimer(q)
	select {
	case <-x.wake:
		t.Stop()
		x.idle = 0
	case <-t.C:
		x.idle = q
	}
}

//go:norace
func (x *Exec) site(pc uintptr) string {
	x.mu.Lock()
	defer x.mu.Unlock()
	return x.siteLocked(pc)
}

func (x *Exec) siteLocked(pc uintptr) string {
	pi := x.pcLocked(pc)
	return fmt.Sprintf("%s:%d(%s)", pi.file, pi.line, pi.fn)
}

func (x *Exec) gname(g *gor) string {
	if g.name != "" {
		return g.name
	}
	return "g" + strconv.Itoa(g.ord)
}

//go:norace
func (x *Exec) enabled() []choice {
	var cs []choice
	x.mu.Lock()
	var ps []*parked
	for _, p := range x.parked {
		if !p.auto && x.canRun(p) {
			ps = append(ps, p)
		}
	}
	x.mu.Unlock()
	sort.SliceStable(ps, func(i, j int) bool {
		li, lj := ps[i].g == x.lastRun, ps[j].g == x.lastRun
		if li != lj {
			return li
		}
		return ps[i].g.gid < ps[j].g.gid
	})
	for _, p := range ps {
		cs = append(cs, choice{label: x.gname(p.g) + ":" + p.kind.String() + "@" + x.site(p.pc), p: p})
	}
	if x.env != nil {
		acts := x.env()
		for i := range acts {
			cs = append(cs, choice{label: acts[i].Label, act: &acts[i]})
		}
	}
	if x.Now() < x.Cfg.Horizon && !(x.Cfg.NoTick && len(cs) > 0) {
		cs = append(cs, choice{label: "tick", tick: true})
	}
	if x.envAlt != nil && x.Now() < x.Cfg.Horizon {
		acts := x.envAlt()
		for i := range acts {
			cs = append(cs, choice{label: acts[i].Label, act: &acts[i]})
		}
	}
	return cs
}

// ParkedSites lists where goroutines are parked or (for named threads) that
// they have not finished; used by hang oracles.
//
//go:norace
func (x *Exec) ParkedSites() []string {
	x.mu.Lock()
	defer x.mu.Unlock()
	var r []string
	for _, p := range x.parked {
		r = append(r, x.gname(p.g)+":"+p.kind.String()+"@"+x.siteLocked(p.pc))
	}
	sort.Strings(r)
	return r
}
