package qx

import (
	"encoding/json"
	"fmt"
	"os"
	"runtime"
	"runtime/debug"
	"sort"
	"strconv"
	"strings"
	"testing"
	"testing/synctest"
	"time"

	"verif/engine/racectl"
)

// Outcome is what a scenario body reports for one execution.
type Outcome struct {
	Key       string `json:"key"`                 // canonical summary of what was observed (distinct outcomes are counted)
	Violation string `json:"violation,omitempty"` // oracle message, "" if the property held on this execution
	Sig       string `json:"sig,omitempty"`       // normalised signature of the violation (known-findings matching)
	Other     string `json:"other,omitempty"`     // execution ended by a condition belonging to another property
	Obs       any    `json:"obs,omitempty"`       // observations written to the replay file
}

// Scenario is one closed system: Body builds the real objects against the fake
// environment inside the bubble, starts its client threads with x.Go, calls
// x.Run() and evaluates its oracle.
type Scenario struct {
	Name string
	Cfg  Config
	Body func(x *Exec) *Outcome
	// OnLeak, if set, is called when goroutines outlived the body and the grace
	// period; it may turn the execution into a violation.
	OnLeak func(o *Outcome)
}

type ExecResult struct {
	Prefix  []int    `json:"prefix"`
	Steps   []Step   `json:"steps"`
	Status  Status   `json:"status"`
	Note    string   `json:"note,omitempty"`
	Outcome *Outcome `json:"outcome"`
	Panic   string   `json:"panic,omitempty"`
	Leak    bool     `json:"leak,omitempty"` // goroutines remained after the body and the grace period
	Blocked []string `json:"blocked,omitempty"`
}

func (r *ExecResult) Choices() []int {
	c := make([]int, len(r.Steps))
	for i, s := range r.Steps {
		c[i] = s.Pick
	}
	return c
}

type Violation struct {
	Scenario string      `json:"scenario"`
	Case     string      `json:"case,omitempty"`
	Bound    int         `json:"deviations"`
	Result   *ExecResult `json:"result"`
	Replays  int         `json:"replays_identical"`
}

type Stats struct {
	Scenario       string         `json:"scenario"`
	Executions     int            `json:"executions"`
	Steps          int64          `json:"steps"`
	MaxDepth       int            `json:"max_depth"`
	States         int            `json:"distinct_decision_signatures"`
	SigList        []uint64       `json:"sig_list"`
	Extra          map[string]any `json:"extra,omitempty"`
	Outcomes       map[string]int `json:"outcomes"`
	ByStatus       map[string]int `json:"by_status"`
	ByLevel        []int          `json:"executions_by_deviations"`
	BoundRequested int            `json:"bound_requested"`
	BoundCompleted int            `json:"bound_completed"`
	Exhaustive     bool           `json:"exhaustive"`
	Replayed       int            `json:"replayed_for_determinism"`
	NonDet         int            `json:"nondeterministic_replays"`
	Diverged       int            `json:"diverged"`
	Leaks          int            `json:"leaks"`
	Others         map[string]int `json:"ended_by_other_property"`
	Samples        []*ExecResult  `json:"samples"`
	Violations     []*Violation   `json:"violations"`
	WallS          float64        `json:"wall_s"`
}

type Explorer struct {
	T           *testing.T
	Scn         *Scenario
	Bound       int
	Shard       int
	NShards     int
	SplitLevel  int
	Deadline    time.Time
	ReplayEvery int // re-run every k-th execution and compare (0 = never)
	MaxViol     int
	Progress    *os.File

	st   Stats
	sigs map[uint64]struct{}

	raceSeen, raceIgnored int
}

type item struct {
	prefix []int
}

// RunOne executes one schedule given by its choice prefix.
func (e *Explorer) RunOne(prefix []int) *ExecResult {
	return e.execute(prefix, nil)
}

func (e *Explorer) execute(prefix []int, sigs map[uint64]struct{}) (res *ExecResult) {
	res = &ExecResult{Prefix: prefix}
	if e.Progress != nil {
		b, _ := json.Marshal(prefix)
		b = append(b, []byte(strings.Repeat(" ", 8)+"\n")...)
		e.Progress.WriteAt(b, 0)
	}
	var x *Exec
	func() {
		defer func() {
			if r := recover(); r != nil {
				msg := fmt.Sprint(r)
				if strings.Contains(msg, "blocked goroutines remain") {
					res.Leak = true
				} else {
					res.Panic = msg + "\n" + string(debug.Stack())
				}
			}
		}()
		bubble(e.T, func(t *testing.T) {
			x = newExec(e.Scn.Cfg, prefix, sigs)
			x.begin()
			defer x.end()
			func() {
				defer func() {
					if r := recover(); r != nil {
						res.Panic = fmt.Sprint(r) + "\n" + string(debug.Stack())
					}
				}()
				res.Outcome = e.Scn.Body(x)
			}()
			x.end()
			if x.Cfg.Grace > 0 && x.Status == StDone {
				time.Sleep(x.Cfg.Grace)
			}
		})
	}()
	if racectl.Enabled {
		// data races the detector reported during this execution (including the teardown of the bubble)
		for _, r := range racectl.Collect() {
			if !r.Relevant {
				e.raceIgnored++
				if os.Getenv("VERIF_DEBUG_RACES") != "" {
					fmt.Fprintf(os.Stderr, "ignored race report (%s): %s\n%s\n", r.Why, r.Sig, r.Text)
				}
				continue
			}
			e.raceSeen++
			if res.Outcome == nil {
				res.Outcome = &Outcome{Key: "race"}
			}
			if res.Outcome.Violation == "" {
				res.Outcome.Violation = "data race between " + strings.TrimPrefix(r.Sig, "race:") + "\n" + r.Text
				res.Outcome.Sig = r.Sig
			}
		}
	}
	if res.Leak && os.Getenv("VERIF_DEBUG_STACKS") != "" {
		buf := make([]byte, 1<<20)
		n := runtime.Stack(buf, true)
		os.Stderr.Write(buf[:n])
	}
	if res.Leak && e.Scn.OnLeak != nil && res.Outcome != nil {
		e.Scn.OnLeak(res.Outcome)
	}
	if x != nil {
		res.Steps = x.Steps
		res.Status = x.Status
		res.Note = x.Note
		res.Blocked = x.Blocked
	}
	return res
}

// bubble runs f in a synctest bubble. Under the race detector the testing package fails (and aborts) a test
// during which a race was reported; the bubble then gets a sub-test of its own to fail, so that the
// exploration goes on and reports the race as a violation of the schedule that produced it.
func bubble(t *testing.T, f func(*testing.T)) {
	if !racectl.Enabled {
		synctest.Test(t, f)
		return
	}
	t.Run("x", func(t2 *testing.T) { synctest.Test(t2, f) })
}

func (e *Explorer) mine(level, idx int) (run bool, count bool) {
	if e.NShards <= 1 {
		return true, true
	}
	if level < e.SplitLevel {
		return true, e.Shard == 0
	}
	if level == e.SplitLevel {
		m := idx%e.NShards == e.Shard
		return m, m
	}
	return true, true
}

func (e *Explorer) record(res *ExecResult, level int, count bool) {
	if !count {
		return
	}
	st := &e.st
	st.Executions++
	st.Steps += int64(len(res.Steps))
	if len(res.Steps) > st.MaxDepth {
		st.MaxDepth = len(res.Steps)
	}
	for len(st.ByLevel) <= level {
		st.ByLevel = append(st.ByLevel, 0)
	}
	st.ByLevel[level]++
	st.ByStatus[string(res.Status)]++
	if res.Leak {
		st.Leaks++
	}
	if res.Status == StDiverged {
		st.Diverged++
	}
	if res.Outcome != nil {
		k := res.Outcome.Key
		if len(k) > 200 {
			k = k[:200]
		}
		st.Outcomes[k]++
		if res.Outcome.Other != "" {
			st.Others[res.Outcome.Other]++
		}
	}
	if len(st.Samples) < 4 && (st.Executions == 1 || st.Executions == 7 || st.Executions == 101 || st.Executions == 1009) {
		st.Samples = append(st.Samples, res)
	}
}

func (e *Explorer) isViolation(res *ExecResult) bool {
	if res.Panic != "" {
		return true
	}
	return res.Outcome != nil && res.Outcome.Violation != ""
}

func sameRun(a, b *ExecResult) bool {
	if a.Status != b.Status || len(a.Steps) != len(b.Steps) {
		return false
	}
	for i := range a.Steps {
		if a.Steps[i].Label != b.Steps[i].Label || a.Steps[i].N != b.Steps[i].N {
			return false
		}
	}
	ka, kb := "", ""
	if a.Outcome != nil {
		ka = a.Outcome.Key + "|" + a.Outcome.Sig
	}
	if b.Outcome != nil {
		kb = b.Outcome.Key + "|" + b.Outcome.Sig
	}
	return ka == kb
}

func (e *Explorer) handleViolation(res *ExecResult, level int) {
	// replay the full choice list; only reproducible violations are reported
	full := res.Choices()
	same := 0
	for i := 0; i < 5; i++ {
		r2 := e.execute(full, nil)
		if e.isViolation(r2) && sameRun(res, r2) {
			same++
		}
	}
	if same < 5 {
		e.st.NonDet++
		if same == 0 {
			return
		}
	}
	if res.Panic != "" && res.Outcome == nil {
		res.Outcome = &Outcome{Key: "panic", Violation: "panic: " + firstLine(res.Panic), Sig: "panic:" + panicSite(res.Panic)}
	}
	// keep one violation per signature (plus a count), fewest deviations first
	for _, v := range e.st.Violations {
		if v.Result.Outcome.Sig == res.Outcome.Sig {
			return
		}
	}
	e.st.Violations = append(e.st.Violations, &Violation{Scenario: e.Scn.Name, Bound: level, Result: res, Replays: same})
}

func firstLine(s string) string {
	if i := strings.IndexByte(s, '\n'); i >= 0 {
		return s[:i]
	}
	return s
}

// PanicSite extracts the first kafka-go frame of a stack trace.
func PanicSite(stack string) string { return panicSite(stack) }

func panicSite(stack string) string {
	for _, l := range strings.Split(stack, "\n") {
		l = strings.TrimSpace(l)
		if strings.HasPrefix(l, "/repo/") {
			if i := strings.IndexByte(l, ' '); i > 0 {
				l = l[:i]
			}
			return l
		}
	}
	return "?"
}

// Explore enumerates every execution with at most Bound deviations from the
// default choice (choice 0 at every decision point), fewest deviations first.
func (e *Explorer) Explore() *Stats {
	t0 := time.Now()
	e.st = Stats{Scenario: e.Scn.Name, Outcomes: map[string]int{}, ByStatus: map[string]int{}, Others: map[string]int{}, BoundRequested: e.Bound, BoundCompleted: -1, Exhaustive: true}
	e.sigs = map[uint64]struct{}{}
	if e.MaxViol == 0 {
		e.MaxViol = 8
	}
	cur := []item{{prefix: nil}}
	timeout := false
	base := runtime.NumGoroutine()
	_ = base
	for level := 0; level <= e.Bound && len(cur) > 0 && !timeout; level++ {
		var next []item
		last := level == e.Bound
		for idx, it := range cur {
			run, count := e.mine(level, idx)
			if !run {
				continue
			}
			if !e.Deadline.IsZero() && time.Now().After(e.Deadline) {
				timeout = true
				break
			}
			res := e.execute(it.prefix, e.sigs)
			e.record(res, level, count)
			if count && e.ReplayEvery > 0 && e.st.Executions%e.ReplayEvery == 0 {
				r2 := e.execute(res.Choices(), nil)
				e.st.Replayed++
				if !sameRun(res, r2) {
					e.st.NonDet++
					if os.Getenv("VERIF_DEBUG") != "" {
						fmt.Fprintf(os.Stderr, "NONDET choices=%v\n", res.Choices())
						for _, rr := range []*ExecResult{res, r2} {
							fmt.Fprintf(os.Stderr, "  %s:", rr.Status)
							for _, s := range rr.Steps {
								fmt.Fprintf(os.Stderr, " [%d/%d %s]", s.Pick, s.N, s.Label)
							}
							if rr.Outcome != nil {
								fmt.Fprintf(os.Stderr, " => %s", rr.Outcome.Key)
							}
							fmt.Fprintln(os.Stderr)
						}
					}
				}
			}
			if count && e.isViolation(res) && len(e.st.Violations) < e.MaxViol {
				e.handleViolation(res, level)
			}
			if res.Status == StSteps && os.Getenv("VERIF_DEBUG") != "" {
				fmt.Fprintf(os.Stderr, "MAXSTEPS prefix=%v\n", it.prefix)
				for i, s := range res.Steps {
					if i < 60 || i > len(res.Steps)-30 {
						fmt.Fprintf(os.Stderr, " [%d/%d %s@%d]", s.Pick, s.N, s.Label, s.At)
					}
				}
				fmt.Fprintln(os.Stderr)
				os.Exit(3)
			}
			if res.Status == StDiverged && os.Getenv("VERIF_DEBUG") != "" {
				fmt.Fprintf(os.Stderr, "DIVERGED prefix=%v note=%s\n", it.prefix, res.Note)
				for k := 0; k < 3; k++ {
					r2 := e.execute(it.prefix, nil)
					fmt.Fprintf(os.Stderr, "  rerun status=%s", r2.Status)
					for _, s := range r2.Steps {
						fmt.Fprintf(os.Stderr, " [%d/%d %s]", s.Pick, s.N, s.Label)
					}
					fmt.Fprintln(os.Stderr)
				}
			}
			if last || res.Status == StDiverged {
				continue
			}
			ch := res.Choices()
			for i := len(it.prefix); i < len(res.Steps); i++ {
				for alt := 1; alt < res.Steps[i].N; alt++ {
					p := make([]int, i+1)
					copy(p, ch[:i])
					p[i] = alt
					next = append(next, item{prefix: p})
				}
			}
		}
		if !timeout {
			e.st.BoundCompleted = level
		}
		cur = next
	}
	if timeout {
		e.st.Exhaustive = false
	}
	e.st.States = len(e.sigs)
	if len(e.sigs) <= 300000 {
		e.st.SigList = make([]uint64, 0, len(e.sigs))
		for k := range e.sigs {
			e.st.SigList = append(e.st.SigList, k)
		}
	}
	e.st.WallS = time.Since(t0).Seconds()
	if racectl.Enabled {
		if e.st.Extra == nil {
			e.st.Extra = map[string]any{}
		}
		e.st.Extra["race_detector"] = 1
		e.st.Extra["race_reports_library"] = e.raceSeen
		e.st.Extra["race_reports_harness_ignored"] = e.raceIgnored
	}
	return &e.st
}

// MergeStats combines shard results.
func MergeStats(parts []*Stats) *Stats {
	if len(parts) == 0 {
		return nil
	}
	m := &Stats{Scenario: parts[0].Scenario, Outcomes: map[string]int{}, ByStatus: map[string]int{}, Others: map[string]int{}, Exhaustive: true, BoundRequested: parts[0].BoundRequested, BoundCompleted: parts[0].BoundCompleted}
	for _, p := range parts {
		m.Executions += p.Executions
		m.Steps += p.Steps
		if p.MaxDepth > m.MaxDepth {
			m.MaxDepth = p.MaxDepth
		}
		m.States += p.States // upper bound: shards may share signatures
		for k, v := range p.Outcomes {
			m.Outcomes[k] += v
		}
		for k, v := range p.ByStatus {
			m.ByStatus[k] += v
		}
		for k, v := range p.Others {
			m.Others[k] += v
		}
		for i, v := range p.ByLevel {
			for len(m.ByLevel) <= i {
				m.ByLevel = append(m.ByLevel, 0)
			}
			m.ByLevel[i] += v
		}
		if p.BoundCompleted < m.BoundCompleted {
			m.BoundCompleted = p.BoundCompleted
		}
		m.Exhaustive = m.Exhaustive && p.Exhaustive
		m.Replayed += p.Replayed
		m.NonDet += p.NonDet
		m.Diverged += p.Diverged
		m.Leaks += p.Leaks
		if len(m.Samples) < 4 {
			m.Samples = append(m.Samples, p.Samples...)
		}
		m.Violations = append(m.Violations, p.Violations...)
		if p.WallS > m.WallS {
			m.WallS = p.WallS
		}
	}
	sort.SliceStable(m.Violations, func(i, j int) bool { return m.Violations[i].Bound < m.Violations[j].Bound })
	return m
}

// EnvInt reads an integer environment variable.
func EnvInt(name string, def int) int {
	if v := os.Getenv(name); v != "" {
		if n, err := strconv.Atoi(v); err == nil {
			return n
		}
	}
	return def
}
