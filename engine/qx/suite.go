package qx

import (
	"encoding/json"
	"fmt"
	"os"
	"testing"
	"time"
	"verif/engine/racectl"
)

// SuiteItem is one scenario with its deviation bound.
type SuiteItem struct {
	Scn   *Scenario
	Bound int
	Split int  // deviation level at which sub-trees are distributed over shards
	Whole bool // the scenario is explored by one shard alone (many small scenarios)
	// MinShare, when set, is a lower bound on the item's share of the time budget. For scenarios that take a
	// fraction of a second and come in hundreds: their even share of the budget is a few seconds, which a stall
	// of a loaded machine can eat up; with a floor they are still explored completely (0 = the even share only).
	MinShare time.Duration
}

type ShardOut struct {
	Shard   int      `json:"shard"`
	NShards int      `json:"nshards"`
	Stats   []*Stats `json:"stats"`
	WallS   float64  `json:"wall_s"`
}

type ReplayFile struct {
	Property string      `json:"property"`
	Scenario string      `json:"scenario"`
	Choices  []int       `json:"choices"`
	Case     any         `json:"case,omitempty"`
	Sig      string      `json:"sig"`
	Message  string      `json:"message"`
	Result   *ExecResult `json:"result"`
}

// RunSuite is the body of every qx-based harness test. Environment:
// VERIF_SHARD / VERIF_NSHARDS, VERIF_OUT (shard result file), VERIF_BUDGET_S,
// VERIF_REPLAY (replay file: run that one schedule 5 times instead).
func RunSuite(t *testing.T, items []SuiteItem) {
	if rp := os.Getenv("VERIF_REPLAY"); rp != "" {
		replay(t, items, rp)
		return
	}
	t0 := time.Now()
	out := &ShardOut{Shard: EnvInt("VERIF_SHARD", 0), NShards: EnvInt("VERIF_NSHARDS", 1)}
	out.Stats = ExploreAll(t, items, time.Duration(EnvInt("VERIF_BUDGET_S", 600))*time.Second)
	out.WallS = time.Since(t0).Seconds()
	if p := os.Getenv("VERIF_OUT"); p != "" {
		b, _ := json.Marshal(out)
		if err := os.WriteFile(p, b, 0o644); err != nil {
			t.Fatal(err)
		}
		if racectl.Enabled && t.Failed() {
			// the sub-tests of executions with a race have failed; the result file carries them as violations
			os.Exit(0)
		}
	} else {
		LogStats(t, out.Stats)
	}
}

// LogStats prints a human-readable summary (used when no output file is requested).
func LogStats(t *testing.T, stats []*Stats) {
	for _, st := range stats {
		t.Logf("%s: bound %d/%d execs=%d steps=%d depth=%d sigs=%d outcomes=%d status=%v levels=%v nondet=%d leaks=%d others=%v viol=%d wall=%.1fs exhaustive=%v",
			st.Scenario, st.BoundCompleted, st.BoundRequested, st.Executions, st.Steps, st.MaxDepth, st.States, len(st.Outcomes), st.ByStatus, st.ByLevel, st.NonDet, st.Leaks, st.Others, len(st.Violations), st.WallS, st.Exhaustive)
		for _, v := range st.Violations {
			t.Logf("  VIOLATION dev=%d sig=%s: %s  choices=%v", v.Bound, v.Result.Outcome.Sig, v.Result.Outcome.Violation, v.Result.Choices())
		}
	}
}

// ExploreAll explores every item within the budget (shared evenly) and returns the statistics.
func ExploreAll(t *testing.T, items []SuiteItem, budget time.Duration) []*Stats {
	shard, n := EnvInt("VERIF_SHARD", 0), EnvInt("VERIF_NSHARDS", 1)
	end := time.Now().Add(budget)
	var stats []*Stats
	var prog *os.File
	if p := os.Getenv("VERIF_PROGRESS"); p != "" {
		prog, _ = os.Create(p)
	}
	only := os.Getenv("VERIF_ONLY")
	for i, it := range items {
		if only != "" && it.Scn.Name != only {
			continue
		}
		sh, nsh := shard, n
		if it.Whole {
			// small scenarios are dealt out to the shards whole
			if n > 1 && i%n != shard {
				continue
			}
			sh, nsh = 0, 1
		}
		remain := time.Until(end)
		mine := 0
		for j := i; j < len(items); j++ {
			if !items[j].Whole || n <= 1 || j%n == shard {
				mine++
			}
		}
		share := remain / time.Duration(mine)
		if share < time.Second {
			share = time.Second
		}
		if share < it.MinShare {
			share = it.MinShare
		}
		split := it.Split
		if split == 0 {
			split = 1
		}
		if prog != nil {
			prog.Truncate(0)
			prog.WriteAt([]byte(fmt.Sprintf("%80s\n%s\n", "", it.Scn.Name)), 0)
		}
		e := &Explorer{T: t, Scn: it.Scn, Bound: it.Bound, Shard: sh, NShards: nsh, SplitLevel: split,
			Deadline: time.Now().Add(share), ReplayEvery: 97, Progress: prog}
		stats = append(stats, e.Explore())
	}
	return stats
}

// Replay runs the replay file against the items if it names one of their scenarios.
func Replay(t *testing.T, items []SuiteItem, path string) { replay(t, items, path) }

func replay(t *testing.T, items []SuiteItem, path string) {
	b, err := os.ReadFile(path)
	if err != nil {
		t.Fatal(err)
	}
	var rf ReplayFile
	if err := json.Unmarshal(b, &rf); err != nil {
		t.Fatal(err)
	}
	for _, it := range items {
		if it.Scn.Name != rf.Scenario {
			continue
		}
		e := &Explorer{T: t, Scn: it.Scn}
		same := 0
		var last *ExecResult
		for i := 0; i < 5; i++ {
			r := e.RunOne(rf.Choices)
			last = r
			sig := ""
			if r.Outcome != nil {
				sig = r.Outcome.Sig
			}
			if r.Panic != "" && sig == "" {
				sig = "panic:" + panicSite(r.Panic)
			}
			if sig == rf.Sig && sig != "" {
				same++
			}
		}
		for _, s := range last.Steps {
			fmt.Printf("  step %-3d @%6dms  choice %d/%d  %s\n", 0, s.At, s.Pick, s.N, s.Label)
		}
		if last.Outcome != nil {
			ob, _ := json.MarshalIndent(last.Outcome, "", " ")
			fmt.Printf("outcome: %s\n", ob)
		}
		fmt.Printf("REPLAY scenario=%s reproduced=%d/5 sig=%q\n", rf.Scenario, same, rf.Sig)
		if same > 0 {
			t.Fail()
		}
		return
	}
	t.Fatalf("scenario %q not found", rf.Scenario)
}
