//go:build !race

package racectl

const Enabled = false

func Off() {}
func On()  {}
