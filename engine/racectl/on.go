//go:build race

package racectl

import "runtime"

// Enabled reports whether the binary was built with the race detector.
const Enabled = true

// Off makes the race detector ignore the synchronisation operations of the calling goroutine until On.
// The scheduler, the fake network and the fake brokers run between Off and On, so that the detector's
// happens-before relation consists of the synchronisation of the library under test alone.
func Off() { runtime.RaceDisable() }

func On() { runtime.RaceEnable() }
