// Package racectl lets the explorer run under the Go race detector without hiding races: the hand-offs of a
// cooperative scheduler are synchronisation, which would order every pair of accesses; with Off/On around them
// the detector sees only the program's own locks, atomics and channels, and decides for the explored schedule
// whether two conflicting accesses are unordered. Reports are read back from the detector's log file.
package racectl

import (
	"fmt"
	"os"
	"sort"
	"strings"
)

// Report is one data race reported by the detector.
type Report struct {
	Sig      string // race:<site>|<site> with the innermost library frames of the two accesses, sorted
	Text     string // the two access stacks
	Relevant bool   // both accesses are made by library code (not by the harness, the shims or the scheduler)
	Why      string
}

var (
	logPath string
	logOff  int64
)

func appendMode() bool { return false }

func path() string {
	if logPath == "" {
		if p := os.Getenv("VERIF_RACE_LOG"); p != "" {
			logPath = fmt.Sprintf("%s.%d", p, os.Getpid())
		}
	}
	return logPath
}

// Collect returns the reports written since the previous call.
func Collect() []Report {
	p := path()
	if p == "" {
		return nil
	}
	f, err := os.Open(p)
	if err != nil {
		return nil
	}
	defer f.Close()
	st, err := f.Stat()
	if err != nil {
		return nil
	}
	if st.Size() < logOff {
		logOff = 0 // the log was truncated and is appended to from its new end
	}
	if st.Size() <= logOff {
		return nil
	}
	buf := make([]byte, st.Size()-logOff)
	n, _ := f.ReadAt(buf, logOff)
	buf = buf[:n]
	// only complete reports (terminated by the closing line of '=')
	text := string(buf)
	const bar = "==================\n"
	last := strings.LastIndex(text, bar)
	if last < 0 {
		return nil
	}
	logOff += int64(last + len(bar))
	text = text[:last+len(bar)]
	if logOff == st.Size() && logOff > 1<<20 {
		// everything read: give the disk space back (the detector keeps writing at its own offset, which
		// leaves a hole, or at the new end; both are handled above)
		if os.Truncate(p, 0) == nil && !appendMode() {
			// keep logOff: the next report lands at the old offset
		}
	}
	var out []Report
	for _, blk := range strings.Split(text, "WARNING: DATA RACE\n")[1:] {
		out = append(out, parse(blk))
	}
	return out
}

// classify returns the innermost frame of an access stack that is not Go runtime / standard library code,
// and whether it belongs to the library under test.
func classify(lines []string) (site string, repo, known bool) {
	for i := 0; i+1 < len(lines); i += 2 {
		fn := strings.TrimSpace(lines[i])
		loc := strings.TrimSpace(lines[i+1])
		if j := strings.IndexByte(loc, ' '); j > 0 {
			loc = loc[:j]
		}
		switch {
		case strings.Contains(loc, "/zzverif/") || strings.Contains(fn, "/zzverif/"):
			return loc, false, true // the instrumented sync shims (their state is read by the scheduler)
		case strings.HasPrefix(loc, "/repo/"):
			return strings.TrimPrefix(loc, "/repo/") + "(" + shortFn(fn) + ")", true, true
		case strings.Contains(loc, "/verif/") || strings.Contains(fn, "zzverif/") || strings.HasPrefix(fn, "verif/"):
			return loc, false, true
		}
	}
	return "", false, false
}

func shortFn(fn string) string {
	if i := strings.LastIndex(fn, "/"); i >= 0 {
		fn = fn[i+1:]
	}
	return strings.TrimSuffix(fn, "()")
}

func parse(blk string) Report {
	// a block is: "<Access> at 0x.. by goroutine N:\n  fn()\n      file:line +0x..\n ... \n\nPrevious <access> at ...:\n ...\n\nGoroutine N (...) created at:..."
	secs := strings.Split(blk, "\n\n")
	var acc [][]string
	var heads []string
	for _, s := range secs {
		ls := strings.Split(strings.Trim(s, "\n"), "\n")
		if len(ls) == 0 {
			continue
		}
		h := ls[0]
		if (strings.HasPrefix(h, "Read at") || strings.HasPrefix(h, "Write at") || strings.HasPrefix(h, "Previous read at") || strings.HasPrefix(h, "Previous write at") ||
			strings.HasPrefix(h, "Atomic") || strings.HasPrefix(h, "Previous atomic")) && len(acc) < 2 {
			acc = append(acc, ls[1:])
			heads = append(heads, h)
		}
	}
	r := Report{}
	if len(acc) < 2 {
		r.Why = "report without two access stacks"
		r.Text = firstLines(blk, 12)
		return r
	}
	var sites []string
	r.Relevant = true
	for i, a := range acc {
		site, repo, known := classify(a)
		switch {
		case !known:
			r.Relevant = false
			r.Why = "an access stack could not be attributed (" + heads[i] + ")"
		case !repo:
			r.Relevant = false
			r.Why = "access made by harness code: " + site
		}
		sites = append(sites, site)
	}
	sort.Strings(sites)
	r.Sig = "race:" + strings.Join(sites, "|")
	r.Text = heads[0] + "\n" + strings.Join(head(acc[0], 8), "\n") + "\n" + heads[1] + "\n" + strings.Join(head(acc[1], 8), "\n")
	return r
}

func head(l []string, n int) []string {
	if len(l) > n {
		return l[:n]
	}
	return l
}

func firstLines(s string, n int) string {
	ls := strings.Split(s, "\n")
	return strings.Join(head(ls, n), "\n")
}
