package refschema

import (
	"fmt"
	"math"
	"reflect"

	"verif/engine/refwire"
)

// LenField is a length or count field written by the reference encoder (C20 mutates them).
type LenField struct {
	Off   int    // offset of the field in the frame (including the 4-byte size prefix)
	Size  int    // bytes occupied
	Kind  string // frame-size, string16, bytes32, array32, cstring, cbytes, carray, tag-count, tag-size
	Value int64  // logical value (length or count; -1 null)
	Path  string
}

type Enc struct {
	S    *Schema
	W    refwire.W
	Lens []LenField
	// Unknown, when >= 0, injects an unknown tagged field with this id into every tag buffer
	Unknown int
	// Custom, when set, encodes fields whose type has its own wire format (record sets).
	Custom func(e *Enc, v reflect.Value, elem, path string) error
	path   string
}

// Note records a length field written by a Custom encoder.
func (e *Enc) Note(kind string, off, size int, val int64, path string) {
	e.Lens = append(e.Lens, LenField{Off: off, Size: size, Kind: kind, Value: val, Path: path})
}

func (e *Enc) note(kind string, off, size int, val int64) {
	e.Lens = append(e.Lens, LenField{Off: off, Size: size, Kind: kind, Value: val, Path: e.path})
}

func pick(alts []Alt, ver int16) (Alt, bool) {
	for _, a := range alts {
		if a.Min <= ver && ver <= a.Max {
			return a, true
		}
	}
	return Alt{}, false
}

func (e *Enc) uvar(kind string, v uint64, logical int64) {
	off := len(e.W.B)
	e.W.UVar(v)
	e.note(kind, off, len(e.W.B)-off, logical)
}

// Struct encodes v (a struct value of schema type tname) at the given version.
func (e *Enc) Struct(v reflect.Value, tname string, ver int16, flex bool) error {
	fields, ok := e.S.Types[tname]
	if !ok {
		return fmt.Errorf("type %s not in schema", tname)
	}
	type tagged struct {
		id  int
		f   Field
		alt Alt
	}
	var tags []tagged
	save := e.path
	for _, f := range fields {
		alt, ok := pick(f.Alts, ver)
		if !ok || f.Kind == "marker" {
			continue
		}
		if alt.Tag >= 0 {
			tags = append(tags, tagged{alt.Tag, f, alt})
			continue
		}
		e.path = save + "." + f.Name
		if err := e.value(v.FieldByName(f.Name), f.Kind, f.Elem, alt, ver, flex); err != nil {
			return err
		}
	}
	e.path = save
	if flex {
		n := len(tags)
		if e.Unknown >= 0 {
			n++
		}
		e.uvar("tag-count", uint64(n), int64(n))
		for _, t := range tags {
			e.W.UVar(uint64(t.id))
			sub := &Enc{S: e.S, Unknown: e.Unknown, Custom: e.Custom, path: save + "." + t.f.Name}
			if err := sub.value(v.FieldByName(t.f.Name), t.f.Kind, t.f.Elem, t.alt, ver, flex); err != nil {
				return err
			}
			e.uvar("tag-size", uint64(len(sub.W.B)), int64(len(sub.W.B)))
			base := len(e.W.B)
			for _, l := range sub.Lens {
				l.Off += base
				e.Lens = append(e.Lens, l)
			}
			e.W.Raw(sub.W.B)
		}
		if e.Unknown >= 0 {
			e.W.UVar(uint64(e.Unknown))
			e.W.UVar(3)
			e.W.Raw([]byte{0xde, 0xad, 0x01})
		}
	}
	return nil
}

func (e *Enc) value(v reflect.Value, kind, elem string, alt Alt, ver int16, flex bool) error {
	switch kind {
	case "bool":
		if v.Bool() {
			e.W.I8(1)
		} else {
			e.W.I8(0)
		}
	case "int8":
		e.W.I8(int8(v.Int()))
	case "int16":
		e.W.I16(int16(v.Int()))
	case "int32":
		e.W.I32(int32(v.Int()))
	case "int64":
		e.W.I64(v.Int())
	case "float64":
		e.W.I64(int64(math.Float64bits(v.Float())))
	case "string":
		s := v.String()
		null := alt.Nullable && s == ""
		off := len(e.W.B)
		switch {
		case flex && null:
			e.uvar("cstring", 0, -1)
		case flex:
			e.uvar("cstring", uint64(len(s))+1, int64(len(s)))
			e.W.Raw([]byte(s))
		case null:
			e.W.I16(-1)
			e.note("string16", off, 2, -1)
		default:
			e.W.I16(int16(len(s)))
			e.note("string16", off, 2, int64(len(s)))
			e.W.Raw([]byte(s))
		}
	case "bytes":
		b := v.Bytes()
		null := alt.Nullable && v.IsNil()
		off := len(e.W.B)
		switch {
		case flex && null:
			e.uvar("cbytes", 0, -1)
		case flex:
			e.uvar("cbytes", uint64(len(b))+1, int64(len(b)))
			e.W.Raw(b)
		case null:
			e.W.I32(-1)
			e.note("bytes32", off, 4, -1)
		default:
			e.W.I32(int32(len(b)))
			e.note("bytes32", off, 4, int64(len(b)))
			e.W.Raw(b)
		}
	case "array":
		n := v.Len()
		null := alt.Nullable && v.IsNil()
		off := len(e.W.B)
		switch {
		case flex && null:
			e.uvar("carray", 0, -1)
			return nil
		case flex:
			e.uvar("carray", uint64(n)+1, int64(n))
		case null:
			e.W.I32(-1)
			e.note("array32", off, 4, -1)
			return nil
		default:
			e.W.I32(int32(n))
			e.note("array32", off, 4, int64(n))
		}
		save := e.path
		for i := 0; i < n; i++ {
			e.path = fmt.Sprintf("%s[%d]", save, i)
			ek := elem
			if _, isStruct := e.S.Types[elem]; isStruct {
				if err := e.Struct(v.Index(i), elem, ver, flex); err != nil {
					return err
				}
				continue
			}
			// Accepted deviation: kafka-go applies the array's nullable flag to its string elements too, so an
			// EMPTY string element of a nullable array travels as null. Only empty names (which Kafka rejects
			// anyway) are affected; the reference follows the library here (recorded in DESIGN.md).
			if err := e.value(v.Index(i), ek, "", Alt{Tag: -2, Nullable: alt.Nullable}, ver, flex); err != nil {
				return err
			}
		}
		e.path = save
	case "struct":
		return e.Struct(v, elem, ver, flex)
	case "custom":
		if e.Custom == nil {
			return fmt.Errorf("kind %q (%s) has no reference encoding", kind, elem)
		}
		return e.Custom(e, v, elem, e.path)
	default:
		return fmt.Errorf("kind %q (%s) has no reference encoding", kind, elem)
	}
	return nil
}

// Request returns the complete frame of a request.
func (s *Schema) Request(key, ver int16, corr int32, client string, msg reflect.Value, unknown int) ([]byte, []LenField, error) {
	a := s.API(key)
	if a == nil {
		return nil, nil, fmt.Errorf("api %d not in schema", key)
	}
	flex := a.ReqFlex >= 0 && ver >= a.ReqFlex
	e := &Enc{S: s, Unknown: unknown}
	e.W.I32(0) // size, patched below
	e.W.I16(key)
	e.W.I16(ver)
	e.W.I32(corr)
	// the client id is a nullable (non compact) string in every request header version
	off := len(e.W.B)
	if client == "" {
		e.W.I16(-1)
		e.note("string16", off, 2, -1)
	} else {
		e.W.I16(int16(len(client)))
		e.note("string16", off, 2, int64(len(client)))
		e.W.Raw([]byte(client))
	}
	if flex {
		e.W.UVar(0) // header tag buffer (request header v2)
	}
	if err := e.Struct(msg, a.Req, ver, flex); err != nil {
		return nil, nil, err
	}
	return finishFrame(e)
}

// Response returns the complete frame of a response.
func (s *Schema) Response(key, ver int16, corr int32, msg reflect.Value, unknown int) ([]byte, []LenField, error) {
	return s.ResponseWith(key, ver, corr, msg, unknown, nil)
}

// ResponseWith is Response with an encoder for custom (record set) fields.
func (s *Schema) ResponseWith(key, ver int16, corr int32, msg reflect.Value, unknown int, custom func(e *Enc, v reflect.Value, elem, path string) error) ([]byte, []LenField, error) {
	a := s.API(key)
	if a == nil {
		return nil, nil, fmt.Errorf("api %d not in schema", key)
	}
	flex := a.ResFlex >= 0 && ver >= a.ResFlex
	e := &Enc{S: s, Unknown: unknown, Custom: custom}
	e.W.I32(0)
	e.W.I32(corr)
	if flex && key != 18 { // ApiVersions responses always use header v0
		e.uvar("tag-count", 0, 0)
	}
	if err := e.Struct(msg, a.Res, ver, flex); err != nil {
		return nil, nil, err
	}
	return finishFrame(e)
}

func finishFrame(e *Enc) ([]byte, []LenField, error) {
	n := len(e.W.B) - 4
	e.W.B[0], e.W.B[1], e.W.B[2], e.W.B[3] = byte(n>>24), byte(n>>16), byte(n>>8), byte(n)
	lens := append([]LenField{{Off: 0, Size: 4, Kind: "frame-size", Value: int64(n)}}, e.Lens...)
	return e.W.B, lens, nil
}

// HasCustom reports whether encoding tname at ver touches a field without reference encoding.
func (s *Schema) HasCustom(tname string, ver int16) bool {
	for _, f := range s.Types[tname] {
		if _, ok := pick(f.Alts, ver); !ok {
			continue
		}
		if f.Kind == "custom" || (f.Kind == "array" && len(s.Types[f.Elem]) == 0 && isCustomName(s, f.Elem)) {
			return true
		}
		if f.Kind == "struct" || f.Kind == "array" {
			if _, ok := s.Types[f.Elem]; ok && s.HasCustom(f.Elem, ver) {
				return true
			}
		}
	}
	return false
}

func isCustomName(s *Schema, n string) bool {
	switch n {
	case "bool", "int8", "int16", "int32", "int64", "float64", "string", "bytes":
		return false
	}
	_, ok := s.Types[n]
	return !ok
}
