package refschema

import (
	"fmt"
	"reflect"
	"strings"
)

// Populate fills a zero value of struct type t with small distinct values:
// every int gets a different value, strings "s<n>", byte slices {n,n+1}, slices one
// element, bools true.
func Populate(t reflect.Type) reflect.Value { return PopulateN(t, 1) }

// PopulateN is Populate with elems elements in every slice.
func PopulateN(t reflect.Type, elems int) reflect.Value {
	v := reflect.New(t).Elem()
	n := 0
	nelems = elems
	fill(v, &n)
	nelems = 1
	return v
}

var nelems = 1

func fill(v reflect.Value, n *int) {
	switch v.Kind() {
	case reflect.Bool:
		v.SetBool(true)
	case reflect.Int8:
		*n++
		v.SetInt(int64(*n%100 + 1))
	case reflect.Int16, reflect.Int32, reflect.Int64:
		*n++
		v.SetInt(int64(*n + 1))
	case reflect.Float64:
		*n++
		v.SetFloat(float64(*n) + 0.5)
	case reflect.String:
		*n++
		v.SetString(fmt.Sprintf("s%d", *n))
	case reflect.Slice:
		if v.Type().Elem().Kind() == reflect.Uint8 {
			*n++
			v.SetBytes([]byte{byte(*n), byte(*n + 1)})
			return
		}
		if v.Type().Elem().Kind() == reflect.Interface {
			return
		}
		s := reflect.MakeSlice(v.Type(), nelems, nelems)
		for i := 0; i < nelems; i++ {
			fill(s.Index(i), n)
		}
		v.Set(s)
	case reflect.Struct:
		if _, custom := reflect.PointerTo(v.Type()).MethodByName("WriteTo"); custom {
			return
		}
		for i := 0; i < v.NumField(); i++ {
			f := v.Type().Field(i)
			if f.PkgPath != "" {
				continue
			}
			fill(v.Field(i), n)
		}
	}
}

// Leaf is a settable position inside a populated value.
type Leaf struct {
	Path string
	V    reflect.Value
}

// Leaves lists every primitive, string, []byte and slice position reachable from v (first element of slices).
func Leaves(v reflect.Value, path string, out *[]Leaf) {
	switch v.Kind() {
	case reflect.Bool, reflect.Int8, reflect.Int16, reflect.Int32, reflect.Int64, reflect.Float64, reflect.String:
		*out = append(*out, Leaf{path, v})
	case reflect.Slice:
		if v.Type().Elem().Kind() == reflect.Interface {
			return
		}
		*out = append(*out, Leaf{path, v})
		if v.Type().Elem().Kind() != reflect.Uint8 && v.Len() > 0 {
			Leaves(v.Index(0), path+"[0]", out)
		}
	case reflect.Struct:
		if _, custom := reflect.PointerTo(v.Type()).MethodByName("WriteTo"); custom {
			return
		}
		for i := 0; i < v.NumField(); i++ {
			f := v.Type().Field(i)
			if f.PkgPath != "" {
				continue
			}
			Leaves(v.Field(i), path+"."+f.Name, out)
		}
	}
}

// Alternatives returns the deviation alphabet of a leaf (values different from the baseline).
func Alternatives(l Leaf) []reflect.Value {
	t := l.V.Type()
	mk := func(x any) reflect.Value { return reflect.ValueOf(x).Convert(t) }
	switch l.V.Kind() {
	case reflect.Bool:
		return []reflect.Value{mk(false)}
	case reflect.Int8:
		return []reflect.Value{mk(int8(0)), mk(int8(-1)), mk(int8(-128)), mk(int8(127))}
	case reflect.Int16:
		return []reflect.Value{mk(int16(0)), mk(int16(-1)), mk(int16(-32768)), mk(int16(32767))}
	case reflect.Int32:
		return []reflect.Value{mk(int32(0)), mk(int32(-1)), mk(int32(-2147483648)), mk(int32(2147483647))}
	case reflect.Int64:
		return []reflect.Value{mk(int64(0)), mk(int64(-1)), mk(int64(-9223372036854775808)), mk(int64(9223372036854775807))}
	case reflect.Float64:
		return []reflect.Value{mk(float64(0)), mk(float64(-1.5))}
	case reflect.String:
		return []reflect.Value{mk(""), mk("a"), mk(strings.Repeat("x", 300))}
	case reflect.Slice:
		if t.Elem().Kind() == reflect.Uint8 {
			return []reflect.Value{reflect.Zero(t), reflect.MakeSlice(t, 0, 0), mk([]byte{7}), mk([]byte(strings.Repeat("y", 300)))}
		}
		two := reflect.MakeSlice(t, 2, 2)
		n := 1000
		fill(two.Index(0), &n)
		fill(two.Index(1), &n)
		return []reflect.Value{reflect.Zero(t), reflect.MakeSlice(t, 0, 0), two}
	}
	return nil
}
