// Package refschema: every frame is the canonical Kafka encoding. The reference codec
// here interprets a pinned schema (golden/schema.json: per message type the
// ordered fields with their version ranges, nullability and tag ids) with its own
// implementation of the Kafka primitive encodings and framing rules; it never
// reads kafka-go's struct tags at check time.
package refschema

import (
	"encoding/json"
	"fmt"
	"os"
	"reflect"
	"sort"
	"strconv"
	"strings"
)

type Alt struct {
	Min      int16 `json:"min"`
	Max      int16 `json:"max"`
	Nullable bool  `json:"nullable,omitempty"`
	Compact  bool  `json:"compact,omitempty"`
	Tag      int   `json:"tag"` // -2 none, -1 flexible marker, >=0 tagged field id
}

type Field struct {
	Name string `json:"name"`
	Kind string `json:"kind"` // bool,int8,int16,int32,int64,float64,string,bytes,array,struct,custom,marker
	Elem string `json:"elem,omitempty"`
	Alts []Alt  `json:"alts"`
}

type API struct {
	Key      int16   `json:"key"`
	Req      string  `json:"req"`
	Res      string  `json:"res"`
	Versions []int16 `json:"versions"`
	ReqFlex  int16   `json:"req_flexible_from"` // -1: never
	ResFlex  int16   `json:"res_flexible_from"`
}

type Schema struct {
	Note  string             `json:"note"`
	APIs  []API              `json:"apis"`
	Types map[string][]Field `json:"types"`
}

func TypeName(t reflect.Type) string {
	p := t.PkgPath()
	p = strings.TrimPrefix(p, "github.com/segmentio/kafka-go/")
	return p + "." + t.Name()
}

func kindOf(t reflect.Type) (kind, elem string) {
	if t.Kind() == reflect.Struct && t.NumField() == 0 {
		return "marker", ""
	}
	if _, ok := reflect.PointerTo(t).MethodByName("WriteTo"); ok {
		return "custom", TypeName(t)
	}
	switch t.Kind() {
	case reflect.Bool:
		return "bool", ""
	case reflect.Int8, reflect.Int16, reflect.Int32, reflect.Int64, reflect.Float64:
		return t.Kind().String(), ""
	case reflect.String:
		return "string", ""
	case reflect.Struct:
		return "struct", TypeName(t)
	case reflect.Slice:
		if t.Elem().Kind() == reflect.Uint8 {
			return "bytes", ""
		}
		k, e := kindOf(t.Elem())
		if k == "struct" || k == "custom" {
			return "array", e
		}
		return "array", k
	}
	return "unsupported:" + t.String(), ""
}

func parseAlts(tag string) []Alt {
	var out []Alt
	if tag == "" {
		tag = "|"
	}
	for _, s := range strings.Split(tag, "|") {
		if s == "" {
			continue
		}
		a := Alt{Min: -1, Max: -1, Tag: -2}
		for _, o := range strings.Split(s, ",") {
			switch {
			case strings.HasPrefix(o, "min=v"):
				n, _ := strconv.Atoi(o[5:])
				a.Min = int16(n)
			case strings.HasPrefix(o, "max=v"):
				n, _ := strconv.Atoi(o[5:])
				a.Max = int16(n)
			case o == "tag":
				a.Tag = -1
			case strings.HasPrefix(o, "tag="):
				a.Tag, _ = strconv.Atoi(o[4:])
			case o == "compact":
				a.Compact = true
			case o == "nullable":
				a.Nullable = true
			}
		}
		out = append(out, a)
	}
	return out
}

// dumpType records t and the struct types it references (used only by the golden generator).
func DumpType(s *Schema, t reflect.Type) {
	name := TypeName(t)
	if _, ok := s.Types[name]; ok {
		return
	}
	s.Types[name] = nil
	var fields []Field
	for i := 0; i < t.NumField(); i++ {
		f := t.Field(i)
		if f.PkgPath != "" && f.Name != "_" {
			continue
		}
		tag, ok := f.Tag.Lookup("kafka")
		if !ok {
			tag = "|"
		}
		if tag == "-" {
			continue
		}
		k, e := kindOf(f.Type)
		fields = append(fields, Field{Name: f.Name, Kind: k, Elem: e, Alts: parseAlts(tag)})
		ft := f.Type
		for ft.Kind() == reflect.Slice {
			ft = ft.Elem()
		}
		if ft.Kind() == reflect.Struct && ft.NumField() > 0 && k != "custom" && !(k == "array" && strings.HasPrefix(e, "custom")) {
			if _, isCustom := reflect.PointerTo(ft).MethodByName("WriteTo"); !isCustom {
				DumpType(s, ft)
			}
		}
	}
	s.Types[name] = fields
}

func Load(path string) (*Schema, error) {
	b, err := os.ReadFile(path)
	if err != nil {
		return nil, err
	}
	s := &Schema{}
	return s, json.Unmarshal(b, s)
}

func (s *Schema) Save(path string) error {
	sort.Slice(s.APIs, func(i, j int) bool { return s.APIs[i].Key < s.APIs[j].Key })
	b, _ := json.MarshalIndent(s, "", " ")
	return os.WriteFile(path, b, 0o644)
}

func (s *Schema) API(key int16) *API {
	for i := range s.APIs {
		if s.APIs[i].Key == key {
			return &s.APIs[i]
		}
	}
	return nil
}

func (a Alt) String() string { return fmt.Sprintf("v%d-v%d", a.Min, a.Max) }
