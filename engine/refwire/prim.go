// Package refwire holds reference encoders/decoders of the Kafka wire format
// written independently of kafka-go (from the protocol specification): primitive
// types, message sets v0/v1, record batches v2, and the handful of hand-written
// request/response bodies the fake brokers need byte-exact control over.
package refwire

import (
	"encoding/binary"
	"errors"
	"fmt"
)

type W struct{ B []byte }

func (w *W) I8(v int8)    { w.B = append(w.B, byte(v)) }
func (w *W) I16(v int16)  { w.B = binary.BigEndian.AppendUint16(w.B, uint16(v)) }
func (w *W) I32(v int32)  { w.B = binary.BigEndian.AppendUint32(w.B, uint32(v)) }
func (w *W) I64(v int64)  { w.B = binary.BigEndian.AppendUint64(w.B, uint64(v)) }
func (w *W) U32(v uint32) { w.B = binary.BigEndian.AppendUint32(w.B, v) }
func (w *W) Raw(b []byte) { w.B = append(w.B, b...) }
func (w *W) Str(s string) { w.I16(int16(len(s))); w.B = append(w.B, s...) }
func (w *W) NStr(s *string) {
	if s == nil {
		w.I16(-1)
		return
	}
	w.Str(*s)
}
func (w *W) Bytes(b []byte) {
	if b == nil {
		w.I32(-1)
		return
	}
	w.I32(int32(len(b)))
	w.B = append(w.B, b...)
}
func (w *W) UVar(v uint64) {
	for v >= 0x80 {
		w.B = append(w.B, byte(v)|0x80)
		v >>= 7
	}
	w.B = append(w.B, byte(v))
}
func (w *W) Var(v int64)   { w.UVar(uint64((v << 1) ^ (v >> 63))) }
func (w *W) CStr(s string) { w.UVar(uint64(len(s)) + 1); w.B = append(w.B, s...) }
func (w *W) CNStr(s *string) {
	if s == nil {
		w.UVar(0)
		return
	}
	w.CStr(*s)
}
func (w *W) CBytes(b []byte) {
	if b == nil {
		w.UVar(0)
		return
	}
	w.UVar(uint64(len(b)) + 1)
	w.B = append(w.B, b...)
}
func (w *W) VarBytes(b []byte) {
	if b == nil {
		w.Var(-1)
		return
	}
	w.Var(int64(len(b)))
	w.B = append(w.B, b...)
}

var ErrShort = errors.New("refwire: short buffer")

type R struct {
	B   []byte
	Off int
	Err error
}

func (r *R) need(n int) bool {
	if r.Err != nil {
		return false
	}
	if n < 0 || r.Off+n > len(r.B) {
		r.Err = fmt.Errorf("%w at offset %d (need %d of %d)", ErrShort, r.Off, n, len(r.B))
		return false
	}
	return true
}
func (r *R) Remain() int { return len(r.B) - r.Off }
func (r *R) I8() int8 {
	if !r.need(1) {
		return 0
	}
	v := int8(r.B[r.Off])
	r.Off++
	return v
}
func (r *R) I16() int16 {
	if !r.need(2) {
		return 0
	}
	v := int16(binary.BigEndian.Uint16(r.B[r.Off:]))
	r.Off += 2
	return v
}
func (r *R) I32() int32 {
	if !r.need(4) {
		return 0
	}
	v := int32(binary.BigEndian.Uint32(r.B[r.Off:]))
	r.Off += 4
	return v
}
func (r *R) I64() int64 {
	if !r.need(8) {
		return 0
	}
	v := int64(binary.BigEndian.Uint64(r.B[r.Off:]))
	r.Off += 8
	return v
}
func (r *R) N(n int) []byte {
	if !r.need(n) {
		return nil
	}
	v := r.B[r.Off : r.Off+n]
	r.Off += n
	return v
}
func (r *R) Str() string {
	n := r.I16()
	if n < 0 {
		if r.Err == nil {
			r.Err = fmt.Errorf("refwire: null where string required at %d", r.Off)
		}
		return ""
	}
	return string(r.N(int(n)))
}
func (r *R) NStr() *string {
	n := r.I16()
	if n < 0 {
		return nil
	}
	s := string(r.N(int(n)))
	return &s
}
func (r *R) Bytes() []byte {
	n := r.I32()
	if n < 0 {
		return nil
	}
	b := r.N(int(n))
	if b == nil {
		return []byte{}
	}
	return b
}
func (r *R) UVar() uint64 {
	var v uint64
	for s := uint(0); ; s += 7 {
		if !r.need(1) {
			return 0
		}
		c := r.B[r.Off]
		r.Off++
		if s >= 64 {
			r.Err = errors.New("refwire: varint too long")
			return 0
		}
		v |= uint64(c&0x7f) << s
		if c < 0x80 {
			return v
		}
	}
}
func (r *R) Var() int64 {
	u := r.UVar()
	return int64(u>>1) ^ -int64(u&1)
}
func (r *R) VarBytes() []byte {
	n := r.Var()
	if n < 0 {
		return nil
	}
	b := r.N(int(n))
	if b == nil {
		return []byte{}
	}
	return b
}
func (r *R) CStr() string {
	n := r.UVar()
	if n == 0 {
		if r.Err == nil {
			r.Err = errors.New("refwire: null compact string")
		}
		return ""
	}
	return string(r.N(int(n - 1)))
}

// Frame prefixes body with its 4-byte size.
func Frame(body []byte) []byte {
	var w W
	w.I32(int32(len(body)))
	w.Raw(body)
	return w.B
}

// crc32 (IEEE) bitwise and crc32c (Castagnoli) bitwise, independent of hash/crc32 tables.
func crcBitwise(poly uint32, b []byte) uint32 {
	crc := ^uint32(0)
	for _, c := range b {
		crc ^= uint32(c)
		for i := 0; i < 8; i++ {
			if crc&1 != 0 {
				crc = (crc >> 1) ^ poly
			} else {
				crc >>= 1
			}
		}
	}
	return ^crc
}

var tabIEEE, tabC [256]uint32

func init() {
	for i := 0; i < 256; i++ {
		a, c := uint32(i), uint32(i)
		for k := 0; k < 8; k++ {
			if a&1 != 0 {
				a = (a >> 1) ^ 0xEDB88320
			} else {
				a >>= 1
			}
			if c&1 != 0 {
				c = (c >> 1) ^ 0x82F63B78
			} else {
				c >>= 1
			}
		}
		tabIEEE[i], tabC[i] = a, c
	}
}

func crcTab(tab *[256]uint32, b []byte) uint32 {
	crc := ^uint32(0)
	for _, c := range b {
		crc = tab[byte(crc)^c] ^ (crc >> 8)
	}
	return ^crc
}

func CRC32(b []byte) uint32  { return crcTab(&tabIEEE, b) }
func CRC32C(b []byte) uint32 { return crcTab(&tabC, b) }
