package refwire

import (
	"bytes"
	"compress/gzip"
	"encoding/binary"
	"fmt"
	"io"

	"github.com/klauspost/compress/snappy"
	"github.com/klauspost/compress/zstd"
	"github.com/pierrec/lz4/v4"
)

type Hdr struct {
	Key   string
	Value []byte
}

type Rec struct {
	Offset  int64
	TS      int64 // milliseconds
	Key     []byte
	Value   []byte
	Headers []Hdr
}

const (
	None = iota
	Gzip
	Snappy
	Lz4
	Zstd
)

// Batch is one physical unit of a partition log: a v2 record batch, or for
// formats 0/1 either a run of plain messages or one compressed wrapper message.
type Batch struct {
	Format         int8 // 0, 1, 2
	Codec          int8
	Base           int64 // v2: base offset (retained even if the first records were compacted away)
	Last           int64 // last offset covered by the batch (v2: base+lastOffsetDelta)
	Recs           []Rec
	Control        bool
	Txn            bool
	BadCRC         bool // encode with a wrong checksum
	Producer       int64
	LeaderEpoch    int32
	SnappyUnframed bool // raw snappy block instead of xerial framing
	MaxTSMismatch  bool // decoder: header maxTimestamp differs from the largest record timestamp
	// Raw, when set, is what Encode returns (the stored bytes of the batch, computed once by a scenario that serves
	// the same log many times: compressing on every fetch is the dominant cost otherwise). Never set by the engine.
	Raw []byte
}

func (b *Batch) FirstOffset() int64 {
	if b.Format == 2 {
		return b.Base
	}
	if len(b.Recs) > 0 {
		return b.Recs[0].Offset
	}
	return b.Base
}

// Compress implements the five codecs with the format libraries used directly.
func Compress(codec int8, data []byte, snappyUnframed bool) []byte {
	var buf bytes.Buffer
	switch codec {
	case None:
		return data
	case Gzip:
		zw := gzip.NewWriter(&buf)
		zw.Write(data)
		zw.Close()
	case Snappy:
		if snappyUnframed {
			return snappy.Encode(nil, data)
		}
		// xerial framing: magic, version, compat, then (len,block)*
		buf.Write([]byte{0x82, 'S', 'N', 'A', 'P', 'P', 'Y', 0, 0, 0, 0, 1, 0, 0, 0, 1})
		for len(data) > 0 {
			n := len(data)
			if n > 32*1024 {
				n = 32 * 1024
			}
			blk := snappy.Encode(nil, data[:n])
			var l [4]byte
			binary.BigEndian.PutUint32(l[:], uint32(len(blk)))
			buf.Write(l[:])
			buf.Write(blk)
			data = data[n:]
		}
	case Lz4:
		zw := lz4.NewWriter(&buf)
		zw.Write(data)
		zw.Close()
	case Zstd:
		zw, _ := zstd.NewWriter(&buf)
		zw.Write(data)
		zw.Close()
	default:
		panic("codec")
	}
	return buf.Bytes()
}

func Decompress(codec int8, data []byte) ([]byte, error) {
	switch codec {
	case None:
		return data, nil
	case Gzip:
		zr, err := gzip.NewReader(bytes.NewReader(data))
		if err != nil {
			return nil, err
		}
		return io.ReadAll(zr)
	case Snappy:
		if len(data) >= 16 && bytes.Equal(data[:8], []byte{0x82, 'S', 'N', 'A', 'P', 'P', 'Y', 0}) {
			var out []byte
			data = data[16:]
			for len(data) > 0 {
				if len(data) < 4 {
					return nil, fmt.Errorf("xerial: truncated block length")
				}
				n := int(binary.BigEndian.Uint32(data))
				data = data[4:]
				if n > len(data) {
					return nil, fmt.Errorf("xerial: truncated block")
				}
				blk, err := snappy.Decode(nil, data[:n])
				if err != nil {
					return nil, err
				}
				out = append(out, blk...)
				data = data[n:]
			}
			return out, nil
		}
		return snappy.Decode(nil, data)
	case Lz4:
		return io.ReadAll(lz4.NewReader(bytes.NewReader(data)))
	case Zstd:
		zr, err := zstd.NewReader(bytes.NewReader(data))
		if err != nil {
			return nil, err
		}
		defer zr.Close()
		return io.ReadAll(zr)
	}
	return nil, fmt.Errorf("unknown codec %d", codec)
}

func encMsgV01(w *W, magic int8, attrs int8, offset, ts int64, key, value []byte, badCRC bool) {
	var m W
	m.I8(magic)
	m.I8(attrs)
	if magic == 1 {
		m.I64(ts)
	}
	m.Bytes(key)
	m.Bytes(value)
	crc := CRC32(m.B)
	if badCRC {
		crc ^= 0x5a5a5a5a
	}
	w.I64(offset)
	w.I32(int32(4 + len(m.B)))
	w.U32(crc)
	w.Raw(m.B)
}

// Encode returns the bytes of the batch as stored in a log / sent in a fetch response.
func (b *Batch) Encode() []byte {
	if b.Raw != nil {
		return b.Raw
	}
	var w W
	switch b.Format {
	case 0, 1:
		if b.Codec == None {
			for _, r := range b.Recs {
				encMsgV01(&w, b.Format, 0, r.Offset, r.TS, r.Key, r.Value, b.BadCRC)
			}
			return w.B
		}
		var inner W
		var maxTS int64
		for _, r := range b.Recs {
			off := r.Offset
			if b.Format == 1 {
				// relative inner offsets: 0..n-1 as written by a producer; when the log cleaner removed messages from
				// inside the set the survivors keep their distances (offset - offset of the first retained message) and
				// the wrapper carries the absolute offset of the last one. Same as the index for consecutive records.
				off = r.Offset - b.Recs[0].Offset
			}
			encMsgV01(&inner, b.Format, 0, off, r.TS, r.Key, r.Value, false)
			if r.TS > maxTS {
				maxTS = r.TS
			}
		}
		encMsgV01(&w, b.Format, b.Codec, b.Last, maxTS, nil, Compress(b.Codec, inner.B, b.SnappyUnframed), b.BadCRC)
		return w.B
	case 2:
		var recs W
		var firstTS, maxTS int64
		if len(b.Recs) > 0 {
			firstTS = b.Recs[0].TS
		}
		for _, r := range b.Recs {
			if r.TS > maxTS {
				maxTS = r.TS
			}
			var rw W
			rw.I8(0)
			rw.Var(r.TS - firstTS)
			rw.Var(r.Offset - b.Base)
			rw.VarBytes(r.Key)
			rw.VarBytes(r.Value)
			rw.Var(int64(len(r.Headers)))
			for _, h := range r.Headers {
				rw.Var(int64(len(h.Key)))
				rw.Raw([]byte(h.Key))
				rw.VarBytes(h.Value)
			}
			recs.Var(int64(len(rw.B)))
			recs.Raw(rw.B)
		}
		attrs := int16(b.Codec)
		if b.Txn {
			attrs |= 1 << 4
		}
		if b.Control {
			attrs |= 1 << 5
		}
		var body W // attributes .. end (CRC range)
		body.I16(attrs)
		body.I32(int32(b.Last - b.Base))
		body.I64(firstTS)
		body.I64(maxTS)
		pid := b.Producer
		if pid == 0 {
			pid = -1
		}
		body.I64(pid)
		body.I16(-1)
		body.I32(-1)
		body.I32(int32(len(b.Recs)))
		body.Raw(Compress(b.Codec, recs.B, b.SnappyUnframed))
		crc := CRC32C(body.B)
		if b.BadCRC {
			crc ^= 0x5a5a5a5a
		}
		w.I64(b.Base)
		w.I32(int32(4 + 1 + 4 + len(body.B)))
		w.I32(b.LeaderEpoch)
		w.I8(2)
		w.U32(crc)
		w.Raw(body.B)
		return w.B
	}
	panic("format")
}

// DecodeRecordSet is a strict validating decoder of a complete record set (as
// carried by a produce request): every length must be consistent, checksums
// valid, counts and deltas coherent. It returns the physical batches.
func DecodeRecordSet(data []byte) ([]Batch, error) {
	var out []Batch
	r := &R{B: data}
	for r.Remain() > 0 {
		if r.Remain() < 17 {
			return out, fmt.Errorf("record set: %d trailing bytes", r.Remain())
		}
		magic := int8(data[r.Off+16])
		switch magic {
		case 0, 1:
			off := r.I64()
			size := int(r.I32())
			body := r.N(size)
			if r.Err != nil {
				return out, r.Err
			}
			m, err := decMsgV01(body)
			if err != nil {
				return out, fmt.Errorf("message at offset %d: %w", off, err)
			}
			if m.magic != magic {
				return out, fmt.Errorf("magic mismatch")
			}
			codec := m.attrs & 7
			if codec == None {
				if n := len(out); n > 0 && out[n-1].Format == magic && out[n-1].Codec == None {
					out[n-1].Recs = append(out[n-1].Recs, Rec{Offset: off, TS: m.ts, Key: m.key, Value: m.value})
					out[n-1].Last = off
				} else {
					out = append(out, Batch{Format: magic, Base: off, Last: off, Recs: []Rec{{Offset: off, TS: m.ts, Key: m.key, Value: m.value}}})
				}
				continue
			}
			if m.key != nil {
				return out, fmt.Errorf("wrapper message with a key")
			}
			raw, err := Decompress(codec, m.value)
			if err != nil {
				return out, fmt.Errorf("wrapper at %d: decompress: %w", off, err)
			}
			b := Batch{Format: magic, Codec: codec, Last: off}
			ir := &R{B: raw}
			for ir.Remain() > 0 {
				ioff := ir.I64()
				isz := int(ir.I32())
				ibody := ir.N(isz)
				if ir.Err != nil {
					return out, fmt.Errorf("inner message: %w", ir.Err)
				}
				im, err := decMsgV01(ibody)
				if err != nil {
					return out, fmt.Errorf("inner message: %w", err)
				}
				if im.attrs&7 != 0 {
					return out, fmt.Errorf("nested compression")
				}
				b.Recs = append(b.Recs, Rec{Offset: ioff, TS: im.ts, Key: im.key, Value: im.value})
			}
			if magic == 1 { // relative offsets 0..n-1 -> absolute
				n := int64(len(b.Recs))
				for i := range b.Recs {
					if b.Recs[i].Offset != int64(i) {
						return out, fmt.Errorf("v1 wrapper: inner offset %d at position %d is not relative", b.Recs[i].Offset, i)
					}
					b.Recs[i].Offset = off - (n - 1) + int64(i)
				}
			}
			if len(b.Recs) > 0 {
				b.Base = b.Recs[0].Offset
			}
			out = append(out, b)
		case 2:
			base := r.I64()
			blen := int(r.I32())
			body := r.N(blen)
			if r.Err != nil {
				return out, r.Err
			}
			br := &R{B: body}
			epoch := br.I32()
			if m := br.I8(); m != 2 {
				return out, fmt.Errorf("batch magic %d", m)
			}
			crc := uint32(br.I32())
			if br.Err != nil {
				return out, br.Err
			}
			if got := CRC32C(body[br.Off:]); got != crc {
				return out, fmt.Errorf("batch at %d: crc32c mismatch (stored %08x, computed %08x)", base, crc, got)
			}
			attrs := br.I16()
			lod := br.I32()
			firstTS := br.I64()
			maxTS := br.I64()
			pid := br.I64()
			br.I16()
			br.I32()
			count := int(br.I32())
			if br.Err != nil {
				return out, br.Err
			}
			b := Batch{Format: 2, Codec: int8(attrs & 7), Base: base, Last: base + int64(lod), Txn: attrs&(1<<4) != 0, Control: attrs&(1<<5) != 0, Producer: pid, LeaderEpoch: epoch}
			payload, err := Decompress(b.Codec, body[br.Off:])
			if err != nil {
				return out, fmt.Errorf("batch at %d: decompress: %w", base, err)
			}
			pr := &R{B: payload}
			var seenMax int64
			for i := 0; i < count; i++ {
				l := pr.Var()
				rb := pr.N(int(l))
				if pr.Err != nil {
					return out, fmt.Errorf("batch at %d record %d: %w", base, i, pr.Err)
				}
				rr := &R{B: rb}
				if a := rr.I8(); a != 0 {
					return out, fmt.Errorf("record attributes %d", a)
				}
				tsd := rr.Var()
				od := rr.Var()
				key := rr.VarBytes()
				val := rr.VarBytes()
				nh := rr.Var()
				var hs []Hdr
				for h := int64(0); h < nh && rr.Err == nil; h++ {
					kl := rr.Var()
					k := rr.N(int(kl))
					v := rr.VarBytes()
					hs = append(hs, Hdr{string(k), v})
				}
				if rr.Err != nil {
					return out, fmt.Errorf("batch at %d record %d: %w", base, i, rr.Err)
				}
				if rr.Remain() != 0 {
					return out, fmt.Errorf("batch at %d record %d: %d bytes left inside the record", base, i, rr.Remain())
				}
				if od < 0 || od > int64(lod) {
					return out, fmt.Errorf("batch at %d record %d: offset delta %d outside [0,%d]", base, i, od, lod)
				}
				ts := firstTS + tsd
				if ts > seenMax {
					seenMax = ts
				}
				b.Recs = append(b.Recs, Rec{Offset: base + od, TS: ts, Key: key, Value: val, Headers: hs})
			}
			if pr.Remain() != 0 {
				return out, fmt.Errorf("batch at %d: %d bytes after the last of %d records", base, pr.Remain(), count)
			}
			// maxTimestamp is rewritten by brokers on append, so a mismatch is noted, not rejected
			b.MaxTSMismatch = count > 0 && maxTS != seenMax && maxTS != -1
			out = append(out, b)
		default:
			return out, fmt.Errorf("unknown magic %d", magic)
		}
	}
	return out, nil
}

type msgV01 struct {
	magic, attrs int8
	ts           int64
	key, value   []byte
}

func decMsgV01(body []byte) (msgV01, error) {
	var m msgV01
	r := &R{B: body}
	crc := uint32(r.I32())
	if r.Err != nil {
		return m, r.Err
	}
	if got := CRC32(body[4:]); got != crc {
		return m, fmt.Errorf("crc32 mismatch (stored %08x, computed %08x)", crc, got)
	}
	m.magic = r.I8()
	m.attrs = r.I8()
	if m.magic == 1 {
		m.ts = r.I64()
	} else if m.magic != 0 {
		return m, fmt.Errorf("magic %d", m.magic)
	}
	m.key = r.Bytes()
	m.value = r.Bytes()
	if r.Err != nil {
		return m, r.Err
	}
	if r.Remain() != 0 {
		return m, fmt.Errorf("%d bytes left inside the message", r.Remain())
	}
	return m, nil
}
