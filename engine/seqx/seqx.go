// Package seqx enumerates sequential cases exhaustively (alphabet products,
// optionally with bounded-deviation choice sequences inside a case) and reports
// in the same shard format as qx.
package seqx

import (
	"encoding/json"
	"fmt"
	"os"
	"runtime/debug"
	"testing"
	"time"

	"verif/engine/qx"
)

type Viol struct {
	Sig, Msg string
}

// Suite collects one or more named enumerations ("scenarios").
type Suite struct {
	T          *testing.T
	Shard      int
	NShards    int
	Deadline   time.Time
	Replay     *qx.ReplayFile
	out        qx.ShardOut
	cur        *qx.Stats
	idx        int
	replayed   int
	reproduced int
}

func New(t *testing.T) *Suite {
	s := &Suite{T: t, Shard: qx.EnvInt("VERIF_SHARD", 0), NShards: qx.EnvInt("VERIF_NSHARDS", 1)}
	s.Deadline = time.Now().Add(time.Duration(qx.EnvInt("VERIF_BUDGET_S", 600)) * time.Second)
	if rp := os.Getenv("VERIF_REPLAY"); rp != "" {
		b, err := os.ReadFile(rp)
		if err != nil {
			t.Fatal(err)
		}
		s.Replay = &qx.ReplayFile{}
		if err := json.Unmarshal(b, s.Replay); err != nil {
			t.Fatal(err)
		}
	}
	s.out.Shard, s.out.NShards = s.Shard, s.NShards
	return s
}

// Begin starts a named enumeration.
func (s *Suite) Begin(name string) {
	s.cur = &qx.Stats{Scenario: name, Outcomes: map[string]int{}, ByStatus: map[string]int{}, Others: map[string]int{}, Exhaustive: true, Extra: map[string]any{}}
	s.out.Stats = append(s.out.Stats, s.cur)
	s.idx = 0
}

// TimeUp reports whether the budget is used up (the enumeration should stop
// and the scenario is marked non-exhaustive).
func (s *Suite) TimeUp() bool {
	if time.Now().After(s.Deadline) {
		s.cur.Exhaustive = false
		return true
	}
	return false
}

// Case runs one case if it belongs to this shard. id must be unique and stable
// within the scenario; f returns the outcome key (for distinct counting) and a
// violation (or nil). Panics inside f are caught and reported as violations.
func (s *Suite) Case(id string, desc any, f func() (key string, v *Viol)) {
	i := s.idx
	s.idx++
	if s.Replay != nil {
		if s.Replay.Scenario != s.cur.Scenario || fmt.Sprint(s.Replay.Case) != id {
			return
		}
		s.replayed++
		for k := 0; k < 5; k++ {
			_, v := s.run(f)
			if v != nil && v.Sig == s.Replay.Sig {
				s.reproduced++
			}
			if k == 0 {
				fmt.Printf("REPLAY case %s: %+v\n", id, v)
			}
		}
		return
	}
	if s.NShards > 1 && i%s.NShards != s.Shard {
		return
	}
	key, v := s.run(f)
	st := s.cur
	st.Executions++
	st.Steps++
	st.Outcomes[key]++
	if len(st.Samples) < 3 && (st.Executions == 1 || st.Executions == 50 || st.Executions == 5000) {
		st.Samples = append(st.Samples, &qx.ExecResult{Note: id, Outcome: &qx.Outcome{Key: key, Obs: desc}})
	}
	if v != nil {
		for _, old := range st.Violations {
			if old.Result.Outcome.Sig == v.Sig {
				st.ByStatus["violating_cases"]++
				return
			}
		}
		st.ByStatus["violating_cases"]++
		st.Violations = append(st.Violations, &qx.Violation{Scenario: st.Scenario, Case: id,
			Result: &qx.ExecResult{Note: id, Outcome: &qx.Outcome{Key: key, Violation: v.Msg, Sig: v.Sig, Obs: desc}}})
	}
}

func (s *Suite) run(f func() (string, *Viol)) (key string, v *Viol) {
	defer func() {
		if r := recover(); r != nil {
			st := string(debug.Stack())
			key = "panic"
			v = &Viol{Sig: "panic:" + qx.PanicSite(st), Msg: fmt.Sprintf("panic: %v", r)}
		}
	}()
	return f()
}

// Add adds to a numeric extra counter of the current scenario.
func (s *Suite) Add(name string, n int) {
	c, _ := s.cur.Extra[name].(int)
	s.cur.Extra[name] = c + n
}

// AddStats appends statistics produced by another engine (qx) to this shard's output.
func (s *Suite) AddStats(st ...*qx.Stats) { s.out.Stats = append(s.out.Stats, st...) }

// Remaining is the budget left.
func (s *Suite) Remaining() time.Duration { return time.Until(s.Deadline) }

// Finish writes the shard output (or the replay verdict).
func (s *Suite) Finish() {
	if s.Replay != nil {
		fmt.Printf("REPLAY scenario=%s case=%v ran=%d reproduced=%d/5\n", s.Replay.Scenario, s.Replay.Case, s.replayed, s.reproduced)
		if s.reproduced > 0 {
			s.T.Fail()
		}
		if s.replayed == 0 {
			s.T.Fatalf("case not found")
		}
		return
	}
	for _, st := range s.out.Stats {
		if st.States == 0 {
			st.States = len(st.Outcomes)
		}
	}
	if p := os.Getenv("VERIF_OUT"); p != "" {
		b, _ := json.Marshal(s.out)
		if err := os.WriteFile(p, b, 0o644); err != nil {
			s.T.Fatal(err)
		}
		return
	}
	for _, st := range s.out.Stats {
		s.T.Logf("%s: cases=%d distinct=%d exhaustive=%v extra=%v violations=%d(%d cases)", st.Scenario, st.Executions, len(st.Outcomes), st.Exhaustive, st.Extra, len(st.Violations), st.ByStatus["violating_cases"])
		for _, v := range st.Violations {
			s.T.Logf("  VIOLATION case=%s sig=%s: %s", v.Case, v.Result.Outcome.Sig, v.Result.Outcome.Violation)
		}
	}
}

// Chooser drives bounded-deviation enumeration of choice sequences inside one
// case (e.g. map iteration orders).
type Chooser struct {
	prefix []int
	Trace  [][2]int // pick, n
}

func (c *Chooser) Choose(n int) int {
	if n <= 1 {
		return 0
	}
	p := 0
	if len(c.Trace) < len(c.prefix) {
		p = c.prefix[len(c.Trace)]
		if p >= n {
			p = 0
		}
	}
	c.Trace = append(c.Trace, [2]int{p, n})
	return p
}

// AllChoices calls run for every choice sequence with at most bound non-zero
// choices; run must be deterministic given the chooser. It returns the number of runs.
func AllChoices(bound int, run func(c *Chooser)) int {
	type item struct{ prefix []int }
	cur := []item{{}}
	n := 0
	for level := 0; level <= bound && len(cur) > 0; level++ {
		var next []item
		for _, it := range cur {
			c := &Chooser{prefix: it.prefix}
			run(c)
			n++
			if level == bound {
				continue
			}
			for i := len(it.prefix); i < len(c.Trace); i++ {
				for alt := 1; alt < c.Trace[i][1]; alt++ {
					p := make([]int, i+1)
					for k := 0; k < i; k++ {
						p[k] = c.Trace[k][0]
					}
					p[i] = alt
					next = append(next, item{p})
				}
			}
		}
		cur = next
	}
	return n
}

// Perms returns all permutations of 0..n-1 in lexicographic order (n <= 5),
// identity first.
func Perms(n int) [][]int {
	var out [][]int
	a := make([]int, n)
	for i := range a {
		a[i] = i
	}
	var rec func(k int)
	rec = func(k int) {
		if k == n {
			out = append(out, append([]int(nil), a...))
			return
		}
		for i := k; i < n; i++ {
			a[k], a[i] = a[i], a[k]
			rec(k + 1)
			a[k], a[i] = a[i], a[k]
		}
	}
	rec(0)
	return out
}
