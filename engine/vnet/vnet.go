// Package vnet is an in-memory network for the fake Kafka cluster: buffered
// duplex connections whose blocking is durable for testing/synctest (sync.Cond),
// deadlines on the (virtual) clock, a byte journal per direction, and faults
// (deliver only k more bytes then EOF, reset).
package vnet

import (
	"errors"
	"io"
	"net"
	"os"
	"sync"
	"syscall"
	"time"

	"github.com/segmentio/kafka-go/zzverif/vhook"

	"verif/engine/racectl"
)

type Addr struct{ S string }

func (a Addr) Network() string { return "tcp" }
func (a Addr) String() string  { return a.S }

// half is one direction of a connection: bytes written by one end, read by the other.
type half struct {
	mu        sync.Mutex
	cond      sync.Cond
	buf       []byte
	wclosed   bool // writer closed: EOF once drained
	rclosed   bool // reader closed
	reset     bool
	limit     int // bytes that may still be delivered to the reader; <0 unlimited
	deadline  time.Time
	timer     *time.Timer
	total     int // bytes ever written
	read      int // bytes ever delivered
	journal   []byte
	keep      bool
	gated     bool // bytes become readable only when released
	released  int  // bytes released beyond those already delivered
	window    int  // > 0: a writer blocks while this many bytes are waiting to be read (a full socket buffer)
	wdeadline time.Time
	wtimer    *time.Timer
}

func newHalf() *half {
	h := &half{limit: -1}
	h.cond.L = &h.mu
	return h
}

type Conn struct {
	in, out       *half
	local, remote Addr
	ID            int
	once          sync.Once
	OnClose       func()
	PointOnWrite  bool
	closed        bool
	// Quiet: under the race detector, the synchronisation inside this end's operations is not shown to
	// the detector (a real socket does not order the goroutines of a process either).
	Quiet bool
}

//go:norace
func (c *Conn) quiet() func() {
	if c.Quiet {
		racectl.Off()
		return racectl.On
	}
	return func() {}
}

// Pipe returns the two ends of a new connection.
func Pipe(id int, clientAddr, serverAddr string, journal bool) (client, server *Conn) {
	a, b := newHalf(), newHalf()
	a.keep, b.keep = journal, journal
	client = &Conn{in: a, out: b, local: Addr{clientAddr}, remote: Addr{serverAddr}, ID: id, Quiet: racectl.Enabled}
	server = &Conn{in: b, out: a, local: Addr{serverAddr}, remote: Addr{clientAddr}, ID: id}
	return
}

type timeoutErr struct{}

func (timeoutErr) Error() string   { return "i/o timeout" }
func (timeoutErr) Timeout() bool   { return true }
func (timeoutErr) Temporary() bool { return true }
func (timeoutErr) Is(t error) bool { return t == os.ErrDeadlineExceeded }

var ErrTimeout net.Error = timeoutErr{}

//go:norace
func (c *Conn) Read(p []byte) (int, error) {
	defer c.quiet()()
	h := c.in
	h.mu.Lock()
	defer h.mu.Unlock()
	for {
		if h.rclosed {
			return 0, net.ErrClosed
		}
		if h.reset {
			return 0, &net.OpError{Op: "read", Net: "tcp", Err: syscall.ECONNRESET}
		}
		if len(p) == 0 {
			return 0, nil
		}
		if len(h.buf) > 0 && h.limit != 0 && (!h.gated || h.released > 0) {
			if h.gated && len(p) > h.released {
				p = p[:h.released]
			}
			n := copy(p, h.buf)
			if h.gated {
				h.released -= n
			}
			if h.limit > 0 && n > h.limit {
				n = h.limit
			}
			h.buf = h.buf[n:]
			if h.limit > 0 {
				h.limit -= n
			}
			h.read += n
			if h.window > 0 {
				h.cond.Broadcast() // room for a blocked writer
			}
			return n, nil
		}
		if h.wclosed || h.limit == 0 {
			return 0, io.EOF
		}
		if !h.deadline.IsZero() && !time.Now().Before(h.deadline) {
			return 0, &net.OpError{Op: "read", Net: "tcp", Err: ErrTimeout}
		}
		h.cond.Wait()
	}
}

//go:norace
func (c *Conn) Write(p []byte) (int, error) {
	if c.PointOnWrite {
		// a writer can be descheduled in the middle of a network write
		vhook.Point(vhook.KUser, c)
	}
	defer c.quiet()()
	h := c.out
	h.mu.Lock()
	defer h.mu.Unlock()
	if c.closed {
		return 0, net.ErrClosed
	}
	if h.rclosed || h.reset {
		return 0, &net.OpError{Op: "write", Net: "tcp", Err: syscall.EPIPE}
	}
	if h.wclosed {
		return 0, io.ErrClosedPipe
	}
	if h.window <= 0 {
		h.buf = append(h.buf, p...)
		h.total += len(p)
		if h.keep {
			h.journal = append(h.journal, p...)
		}
		h.cond.Broadcast()
		return len(p), nil
	}
	// bounded buffer: bytes go out as the reader makes room; the write deadline applies
	n := 0
	for n < len(p) {
		if c.closed || h.wclosed {
			return n, net.ErrClosed
		}
		if h.rclosed || h.reset {
			return n, &net.OpError{Op: "write", Net: "tcp", Err: syscall.EPIPE}
		}
		if room := h.window - len(h.buf); room > 0 {
			k := len(p) - n
			if k > room {
				k = room
			}
			h.buf = append(h.buf, p[n:n+k]...)
			h.total += k
			if h.keep {
				h.journal = append(h.journal, p[n:n+k]...)
			}
			n += k
			h.cond.Broadcast()
			continue
		}
		if !h.wdeadline.IsZero() && !time.Now().Before(h.wdeadline) {
			return n, &net.OpError{Op: "write", Net: "tcp", Err: ErrTimeout}
		}
		h.cond.Wait()
	}
	return n, nil
}

// SetWriteWindow bounds the bytes this end may have in flight (0 = unbounded, the default).
func (c *Conn) SetWriteWindow(n int) {
	c.out.mu.Lock()
	c.out.window = n
	c.out.cond.Broadcast()
	c.out.mu.Unlock()
}

//go:norace
func (c *Conn) Close() error {
	defer c.quiet()()
	c.once.Do(func() {
		c.in.mu.Lock()
		c.in.rclosed = true
		if c.in.timer != nil {
			c.in.timer.Stop()
		}
		c.in.cond.Broadcast()
		c.in.mu.Unlock()
		c.out.mu.Lock()
		c.out.wclosed = true
		if c.out.wtimer != nil {
			c.out.wtimer.Stop()
		}
		c.closed = true
		c.out.cond.Broadcast()
		c.out.mu.Unlock()
		if c.OnClose != nil {
			c.OnClose()
		}
	})
	return nil
}

// Closed reports whether this end was closed.
//
//go:norace
func (c *Conn) Closed() bool {
	defer c.quiet()()
	c.in.mu.Lock()
	defer c.in.mu.Unlock()
	return c.in.rclosed
}

// Reset makes the peer's reads and writes fail with ECONNRESET / EPIPE.
func (c *Conn) Reset() {
	c.out.mu.Lock()
	c.out.reset = true
	c.out.cond.Broadcast()
	c.out.mu.Unlock()
	c.Close()
}

// LimitPeerReads lets the peer read only n more bytes of what this end wrote
// (and will write); after that it sees EOF.
func (c *Conn) LimitPeerReads(n int) {
	c.out.mu.Lock()
	c.out.limit = n
	c.out.cond.Broadcast()
	c.out.mu.Unlock()
}

// LimitPeerReadsAfter atomically lets the peer read what is already buffered plus
// extra more bytes of what this end writes from now on; after that it sees EOF.
func (c *Conn) LimitPeerReadsAfter(extra int) {
	c.out.mu.Lock()
	c.out.limit = len(c.out.buf) + extra
	c.out.cond.Broadcast()
	c.out.mu.Unlock()
}

// Gate makes what this end writes readable by the peer only when released.
func (c *Conn) Gate() {
	c.out.mu.Lock()
	c.out.gated = true
	c.out.mu.Unlock()
}

// Release lets the peer read n more bytes (n < 0: everything buffered now).
func (c *Conn) Release(n int) {
	c.out.mu.Lock()
	if n < 0 || n > len(c.out.buf)-c.out.released {
		n = len(c.out.buf) - c.out.released
	}
	c.out.released += n
	c.out.cond.Broadcast()
	c.out.mu.Unlock()
}

// WritePieces writes p like Write, but the peer can read it only piece by piece: the bytes before cuts[0] at
// once, the bytes up to each following cut one gap (virtual time) after the previous piece, the rest one gap
// after the last cut. Nothing is lost or reordered; a reader that wants more than a piece sees a short read and
// has to call Read again. cuts are increasing offsets inside p; out-of-range cuts are ignored. On an end that is
// already gated (Gate, or an earlier WritePieces still in progress) or has a write window it is a plain Write.
func (c *Conn) WritePieces(p []byte, cuts []int, gap time.Duration) (int, error) {
	h := c.out
	var ks []int
	for _, k := range cuts {
		if k > 0 && k < len(p) && (len(ks) == 0 || k > ks[len(ks)-1]) {
			ks = append(ks, k)
		}
	}
	h.mu.Lock()
	if len(ks) == 0 || h.gated || h.window > 0 || c.closed || h.wclosed || h.rclosed || h.reset {
		h.mu.Unlock()
		return c.Write(p)
	}
	// what is buffered already stays readable, then the first piece
	h.gated = true
	h.released = len(h.buf) + ks[0]
	h.buf = append(h.buf, p...)
	h.total += len(p)
	if h.keep {
		h.journal = append(h.journal, p...)
	}
	h.cond.Broadcast()
	h.mu.Unlock()
	for i := range ks {
		i := i
		time.AfterFunc(time.Duration(i+1)*gap, func() {
			h.mu.Lock()
			if i+1 < len(ks) {
				h.released += ks[i+1] - ks[i]
			} else {
				// last piece: everything written meanwhile becomes readable too
				h.gated = false
				h.released = 0
			}
			h.cond.Broadcast()
			h.mu.Unlock()
		})
	}
	return len(p), nil
}

// Withheld is the number of bytes written but not yet released to the peer.
func (c *Conn) Withheld() int {
	c.out.mu.Lock()
	defer c.out.mu.Unlock()
	if !c.out.gated {
		return 0
	}
	return len(c.out.buf) - c.out.released
}

// Unread is the number of bytes this end wrote that the peer has not consumed.
func (c *Conn) Unread() int {
	c.out.mu.Lock()
	defer c.out.mu.Unlock()
	return len(c.out.buf)
}

// Written / Delivered count the bytes this end wrote and the peer consumed.
func (c *Conn) Written() int {
	c.out.mu.Lock()
	defer c.out.mu.Unlock()
	return c.out.total
}

func (c *Conn) Delivered() int {
	c.out.mu.Lock()
	defer c.out.mu.Unlock()
	return c.out.read
}

// Journal returns everything this end wrote.
func (c *Conn) Journal() []byte {
	c.out.mu.Lock()
	defer c.out.mu.Unlock()
	return append([]byte(nil), c.out.journal...)
}

func (c *Conn) LocalAddr() net.Addr  { return c.local }
func (c *Conn) RemoteAddr() net.Addr { return c.remote }

func (c *Conn) SetDeadline(t time.Time) error {
	c.SetReadDeadline(t)
	c.SetWriteDeadline(t)
	return nil
}

//go:norace
func (c *Conn) SetReadDeadline(t time.Time) error {
	defer c.quiet()()
	h := c.in
	h.mu.Lock()
	defer h.mu.Unlock()
	h.deadline = t
	if h.timer != nil {
		h.timer.Stop()
		h.timer = nil
	}
	if !t.IsZero() && !h.rclosed {
		d := time.Until(t)
		if d <= 0 {
			h.cond.Broadcast()
		} else {
			h.timer = time.AfterFunc(d, func() {
				h.mu.Lock()
				h.cond.Broadcast()
				h.mu.Unlock()
			})
		}
	}
	return nil
}

//go:norace
func (c *Conn) SetWriteDeadline(t time.Time) error {
	defer c.quiet()()
	h := c.out
	h.mu.Lock()
	defer h.mu.Unlock()
	h.wdeadline = t
	if h.wtimer != nil {
		h.wtimer.Stop()
		h.wtimer = nil
	}
	if !t.IsZero() && h.window > 0 {
		d := time.Until(t)
		if d <= 0 {
			h.cond.Broadcast()
		} else {
			h.wtimer = time.AfterFunc(d, func() {
				h.mu.Lock()
				h.cond.Broadcast()
				h.mu.Unlock()
			})
		}
	}
	return nil
}

var _ net.Conn = (*Conn)(nil)

var ErrRefused = &net.OpError{Op: "dial", Net: "tcp", Err: syscall.ECONNREFUSED}

func IsTimeout(err error) bool {
	var ne net.Error
	return errors.As(err, &ne) && ne.Timeout()
}
