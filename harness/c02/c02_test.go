package c02

import (
	"context"
	"errors"
	"fmt"
	"io"
	"os"
	"strings"
	"testing"
	"time"

	kafka "github.com/segmentio/kafka-go"
	"github.com/segmentio/kafka-go/protocol"

	"verif/engine/bub"
	"verif/engine/fk"
	"verif/engine/qx"
	"verif/engine/refwire"
	"verif/engine/seqx"
	"verif/harness/hx"
)

func fmtRec(o int64, k, v []byte, ts int64, hs string) string {
	return fmt.Sprintf("%d:%s=%s@%d%s,", o, k, v, ts, hs)
}

// expected delivery from offset `from`: stored data records, nil and empty not distinguished
func expected(c *fk.Cluster, from int64, headers bool) []string {
	var out []string
	v0 := len(c.Part("t", 0).Log) > 0 && c.Part("t", 0).Log[0].Format == 0
	for _, r := range c.Part("t", 0).Records(from) {
		if v0 {
			r.TS = time.Time{}.UnixMilli() // format 0 carries no timestamp
		}
		hs := ""
		if headers {
			for _, h := range r.Headers {
				hs += fmt.Sprintf("[%s=%s]", h.Key, h.Value)
			}
		}
		out = append(out, fmtRec(r.Offset, r.Key, r.Value, r.TS, hs))
	}
	return out
}

func fmtMsg(m kafka.Message) string {
	hs := ""
	for _, h := range m.Headers {
		hs += fmt.Sprintf("[%s=%s]", h.Key, h.Value)
	}
	return fmtRec(m.Offset, m.Key, m.Value, m.Time.UnixMilli(), hs)
}

func mkCluster(l layout, fetchMax int16) *fk.Cluster {
	c := fk.New(1)
	c.Auto = true
	c.AddTopic("t", 1, nil)
	l.install(c)
	vs := hx.Versions(map[protocol.ApiKey]fk.VRange{protocol.Fetch: {0, fetchMax}})
	c.Versions = map[int]map[protocol.ApiKey]fk.VRange{1: vs}
	return c
}

func newReader(c *fk.Cluster, maxBytes int, queue int) *kafka.Reader {
	return kafka.NewReader(kafka.ReaderConfig{Brokers: []string{"b1:9092"}, Topic: "t", Partition: 0, Dialer: &kafka.Dialer{DialFunc: c.Dial, Timeout: 3 * time.Second},
		MinBytes: 1, MaxBytes: maxBytes, MaxWait: 200 * time.Millisecond, QueueCapacity: queue, ReadBackoffMin: 50 * time.Millisecond, ReadBackoffMax: 200 * time.Millisecond,
		MaxAttempts: 3})
}

// compare checks got against want: same sequence (a prefix mismatch names the first difference)
func compare(kind string, got, want []string) *seqx.Viol {
	for i := 0; i < len(got) || i < len(want); i++ {
		switch {
		case i >= len(want):
			return &seqx.Viol{Sig: kind + ":extra-or-duplicate", Msg: fmt.Sprintf("delivery #%d is %s but the partition holds nothing more from the start position (delivered %v, stored %v)", i, got[i], got, want)}
		case i >= len(got):
			return &seqx.Viol{Sig: kind + ":missing", Msg: fmt.Sprintf("record %s was never delivered (delivered %v, stored %v)", want[i], got, want)}
		case got[i] != want[i]:
			sig := ":wrong-record"
			if strings.SplitN(got[i], ":", 2)[0] != strings.SplitN(want[i], ":", 2)[0] {
				sig = ":wrong-offset"
			}
			return &seqx.Viol{Sig: kind + sig, Msg: fmt.Sprintf("delivery #%d is %s, the next stored record is %s (delivered %v, stored %v)", i, got[i], want[i], got, want)}
		}
	}
	return nil
}

func TestCheck(t *testing.T) {
	s := seqx.New(t)
	thorough := os.Getenv("VERIF_TIER") == "thorough"
	items := readerItems(thorough)
	if s.Replay != nil {
		for _, it := range items {
			if it.Scn.Name == s.Replay.Scenario {
				qx.Replay(t, items, os.Getenv("VERIF_REPLAY"))
				return
			}
		}
	}
	ls := layouts(thorough)
	starts := []int64{kafka.FirstOffset, 0, 1, 2, 3, 4, 5, 6, kafka.LastOffset}

	for _, path := range []string{"reader", "conn"} {
		s.Begin(path + "-layouts-x-start-x-limits")
		for _, l := range ls {
			enc := 0
			for _, b := range l.batches {
				enc += len(b.Encode())
			}
			first := len(l.batches[0].Encode())
			limits := []int{1, first + 20, enc + 100}
			for _, fv := range []int16{2, 5, 10} {
				if strings.HasPrefix(l.name, "v2-") && fv == 2 {
					continue
				}
				if !thorough && fv == 5 {
					continue
				}
				for _, start := range starts {
					for li, lim := range limits {
						if s.TimeUp() {
							break
						}
						l, fv, start, lim := l, fv, start, lim
						id := fmt.Sprintf("%s fetch-v%d start=%d maxbytes#%d", l.name, fv, start, li)
						s.Case(id, id, func() (string, *seqx.Viol) {
							var v *seqx.Viol
							key := ""
							br := bub.Run(t, 0, func() {
								c := mkCluster(l, fv)
								if li == 1 {
									c.SetFetchShape(fk.FetchShape{TruncateTail: 25})
								}
								end := c.Part("t", 0).End
								from := start
								switch start {
								case kafka.FirstOffset:
									from = 0
								case kafka.LastOffset:
									from = end
								}
								if from > end {
									key = "start-beyond-end"
									return
								}
								want := expected(c, from, path == "reader" || true)
								var got []string
								if path == "reader" {
									r := newReader(c, lim, 2)
									if err := r.SetOffset(start); err != nil {
										v = &seqx.Viol{Sig: "reader:setoffset", Msg: err.Error()}
										return
									}
									for i := 0; i <= len(want); i++ {
										ctx, cancel := context.WithTimeout(context.Background(), 4*time.Second)
										m, err := r.ReadMessage(ctx)
										cancel()
										if err != nil {
											if !errors.Is(err, context.DeadlineExceeded) {
												got = append(got, "error:"+hx.ErrString(err))
											}
											break
										}
										got = append(got, fmtMsg(m))
									}
									r.Close()
								} else {
									conn, _ := hx.Conn(c, "t", 0)
									defer conn.Close()
									whence := kafka.SeekAbsolute
									off := start
									switch start {
									case kafka.FirstOffset:
										whence, off = kafka.SeekStart, 0
									case kafka.LastOffset:
										whence, off = kafka.SeekEnd, 0
									}
									if _, err := conn.Seek(off, whence); err != nil {
										v = &seqx.Viol{Sig: "conn:seek", Msg: err.Error()}
										return
									}
									for round := 0; round < 12 && len(got) <= len(want); round++ {
										if o, _ := conn.Offset(); o >= end {
											break // at the end of the log a fetch only times out
										}
										b := conn.ReadBatch(1, lim)
										n := 0
										for {
											m, err := b.ReadMessage()
											if err != nil {
												if !errors.Is(err, io.EOF) {
													got = append(got, "error:"+hx.ErrString(err))
												}
												break
											}
											got = append(got, fmtMsg(m))
											n++
										}
										if err := b.Close(); err != nil {
											got = append(got, "close-error:"+hx.ErrString(err))
											break
										}
										if o, _ := conn.Offset(); o >= end && n == 0 {
											break
										}
									}
								}
								key = fmt.Sprintf("%s:%d delivered", path, len(got))
								v = compare(path, got, want)
							})
							if br.Panic != "" {
								return "panic", &seqx.Viol{Sig: "panic", Msg: br.Panic}
							}
							return key, v
						})
					}
				}
			}
		}
	}

	// slow consumer: the application pauses longer than MaxWait between reads while the Reader's queue holds
	// fewer messages than one fetch response (the partition reader then sits on a full queue past the deadline of
	// its batch)
	s.Begin("reader-slow-consumer")
	for _, l := range ls {
		for _, start := range []int64{kafka.FirstOffset, 2} {
			for _, pattern := range []string{"after-first", "after-every"} {
				for _, fv := range []int16{2, 10} {
					if strings.HasPrefix(l.name, "v2-") && fv == 2 {
						continue
					}
					l, start, pattern, fv := l, start, pattern, fv
					id := fmt.Sprintf("%s fetch-v%d start=%d pause=%s", l.name, fv, start, pattern)
					s.Case(id, id, func() (string, *seqx.Viol) {
						var v *seqx.Viol
						br := bub.Run(t, 0, func() {
							c := mkCluster(l, fv)
							from := start
							if start == kafka.FirstOffset {
								from = 0
							}
							want := expected(c, from, true)
							var got []string
							r := newReader(c, 1<<20, 1)
							if err := r.SetOffset(start); err != nil {
								v = &seqx.Viol{Sig: "reader:setoffset", Msg: err.Error()}
								return
							}
							for i := 0; i <= len(want); i++ {
								ctx, cancel := context.WithTimeout(context.Background(), 4*time.Second)
								m, err := r.ReadMessage(ctx)
								cancel()
								if err != nil {
									if !errors.Is(err, context.DeadlineExceeded) {
										got = append(got, "error:"+hx.ErrString(err))
									}
									break
								}
								got = append(got, fmtMsg(m))
								if i == 0 || pattern == "after-every" {
									time.Sleep(700 * time.Millisecond)
								}
							}
							r.Close()
							v = compare("reader-slow-consumer", got, want)
						})
						if br.Panic != "" {
							return "panic", &seqx.Viol{Sig: "panic", Msg: br.Panic}
						}
						return l.name, v
					})
				}
			}
		}
	}

	// connection-cut sweep: the connection is lost after every prefix of the first (or second) fetch response;
	// the Reader must continue on a new connection and deliver exactly the stored records, each once
	s.Begin("reader-connection-cut-at-every-byte")
	for _, l := range ls {
		if l.name != "v2-none-full,full,full" && l.name != "v2-gzip-full,full,full" && l.name != "v1-none-full,full,full" && l.name != "v0-none-full,full,full" && l.name != "v1-gzip-wrappers" && l.name != "v2-none-full,hole-tail,full" {
			continue
		}
		for _, nth := range []int{0, 1} {
			// length of the nth fetch response: measured once on a fault-free run
			l, nth := l, nth
			fv := int16(10)
			if l.batches[0].Format < 2 {
				fv = 2
			}
			shape := fk.FetchShape{}
			if nth == 1 {
				shape = fk.FetchShape{MaxBatches: 1} // several fetches: the cut hits the second one
			}
			respLen := 0
			bub.Run(t, 0, func() {
				c := mkCluster(l, fv)
				c.SetFetchShape(shape)
				r := newReader(c, 1<<20, 2)
				r.SetOffset(0)
				for i := 0; i < len(expected(c, 0, true)); i++ {
					ctx, cancel := context.WithTimeout(context.Background(), 4*time.Second)
					_, err := r.ReadMessage(ctx)
					cancel()
					if err != nil {
						break
					}
				}
				r.Close()
				c.Lock()
				n := 0
				for _, e := range c.Journal {
					if e.Key == protocol.Fetch {
						if n == nth {
							respLen = e.RespBytes
						}
						n++
					}
				}
				c.Unlock()
			})
			step := 1
			if !thorough && l.name != "v2-none-full,full,full" {
				step = 3
			}
			for k := 0; k < respLen; k += step {
				k := k
				id := fmt.Sprintf("%s fetch#%d cut at %d/%d", l.name, nth, k, respLen)
				s.Case(id, id, func() (string, *seqx.Viol) {
					var v *seqx.Viol
					br := bub.Run(t, 0, func() {
						c := mkCluster(l, fv)
						c.SetFetchShape(shape)
						seen := 0
						c.Script = func(e *fk.Entry) string {
							if e.Key == protocol.Fetch {
								seen++
								if seen == nth+1 {
									return fmt.Sprintf("cut:%d", k)
								}
							}
							return ""
						}
						want := expected(c, 0, true)
						var got []string
						r := newReader(c, 1<<20, 2)
						r.SetOffset(0)
						for i := 0; i <= len(want); i++ {
							ctx, cancel := context.WithTimeout(context.Background(), 6*time.Second)
							m, err := r.ReadMessage(ctx)
							cancel()
							if err != nil {
								if !errors.Is(err, context.DeadlineExceeded) {
									got = append(got, "error:"+hx.ErrString(err))
								}
								break
							}
							got = append(got, fmtMsg(m))
						}
						r.Close()
						v = compare("reader-connection-cut", got, want)
					})
					if br.Panic != "" {
						return "panic", &seqx.Viol{Sig: "panic", Msg: br.Panic}
					}
					return l.name, v
				})
			}
		}
	}

	// truncation sweep: the response holds one whole batch followed by the first k bytes of the next, for every k
	s.Begin("truncated-tail-at-every-byte")
	for _, l := range ls {
		if l.name != "v2-none-full,full,full" && l.name != "v2-gzip-full,full,full" && l.name != "v1-none-full,full,full" && l.name != "v0-none-full,full,full" && l.name != "v1-gzip-wrappers" && l.name != "v2-none-full,hole-tail,full" {
			continue
		}
		for bi := 1; bi < len(l.batches); bi++ {
			nb := len(l.batches[bi].Encode())
			for k := 1; k < nb; k++ {
				for _, path := range []string{"reader", "conn"} {
					l, k, path, bi := l, k, path, bi
					id := fmt.Sprintf("%s %s batches=%d tail=%d/%d", path, l.name, bi, k, nb)
					s.Case(id, id, func() (string, *seqx.Viol) {
						var v *seqx.Viol
						br := bub.Run(t, 0, func() {
							fv := int16(10)
							if l.batches[0].Format < 2 {
								fv = 2
							}
							c := mkCluster(l, fv)
							c.SetFetchShape(fk.FetchShape{MaxBatches: bi, TruncateTail: k})
							want := expected(c, 0, true)
							var got []string
							if path == "reader" {
								r := newReader(c, 1<<20, 2)
								r.SetOffset(0)
								for i := 0; i <= len(want); i++ {
									ctx, cancel := context.WithTimeout(context.Background(), 4*time.Second)
									m, err := r.ReadMessage(ctx)
									cancel()
									if err != nil {
										if !errors.Is(err, context.DeadlineExceeded) {
											got = append(got, "error:"+hx.ErrString(err))
										}
										break
									}
									got = append(got, fmtMsg(m))
								}
								r.Close()
							} else {
								conn, _ := hx.Conn(c, "t", 0)
								defer conn.Close()
								conn.Seek(0, kafka.SeekStart)
								end := c.Part("t", 0).End
								for round := 0; round < 12 && len(got) <= len(want); round++ {
									if o, _ := conn.Offset(); o >= end {
										break
									}
									b := conn.ReadBatch(1, 1<<20)
									for {
										m, err := b.ReadMessage()
										if err != nil {
											if !errors.Is(err, io.EOF) {
												got = append(got, "error:"+hx.ErrString(err))
											}
											break
										}
										got = append(got, fmtMsg(m))
									}
									if err := b.Close(); err != nil {
										got = append(got, "close-error:"+hx.ErrString(err))
										break
									}
								}
							}
							v = compare(path+"-truncated", got, want)
						})
						if br.Panic != "" {
							return "panic", &seqx.Viol{Sig: "panic", Msg: br.Panic}
						}
						return path, v
					})
				}
			}
		}
	}

	responseInPieces(t, s, thorough)

	if s.Replay == nil {
		s.AddStats(qx.ExploreAll(t, items, s.Remaining())...)
	}
	s.Finish()
}

var _ = refwire.None
