// Package c02: the Reader (and the Conn.ReadBatch loop it is built on) must
// deliver exactly the records stored at or after its position, however the
// broker packages them.
package c02

import (
	"fmt"

	"verif/engine/fk"
	"verif/engine/refwire"
)

// A layout is a physical arrangement of the logical records 0..5 (two per batch).
type layout struct {
	name    string
	batches []*refwire.Batch
}

func rec(o int64) refwire.Rec {
	r := refwire.Rec{Offset: o, TS: 1000 + 7*o, Value: []byte(fmt.Sprintf("v%d", o))}
	switch o % 3 {
	case 0:
		r.Key = []byte(fmt.Sprintf("k%d", o))
	case 1:
		r.Key = []byte{} // empty, not null
	}
	if o == 3 {
		r.Value = []byte{}
	}
	return r
}

// variants of one two-record batch [a, a+1]
var variants = []string{"full", "hole-head", "hole-tail", "empty"}

func mkBatch(a int64, variant string, format, codec int8) *refwire.Batch {
	b := &refwire.Batch{Format: format, Codec: codec, Base: a, Last: a + 1}
	switch variant {
	case "full":
		b.Recs = []refwire.Rec{rec(a), rec(a + 1)}
	case "hole-head":
		b.Recs = []refwire.Rec{rec(a + 1)}
	case "hole-tail":
		b.Recs = []refwire.Rec{rec(a)}
	case "empty":
		// a batch retained empty by the log cleaner is written without compression and without payload
		b.Codec = refwire.None
	case "control":
		// a control batch holds one marker record and occupies one offset; the second offset of
		// the slot is taken by a one-record data batch so that offsets stay dense
		b.Control = true
		b.Last = a
		b.Recs = []refwire.Rec{{Offset: a, TS: 1000, Key: []byte{0, 0, 0, 1}, Value: []byte{0, 0, 0, 0, 0, 0}}}
	}
	if format < 2 && len(b.Recs) > 0 {
		// formats 0/1 have no batch header: the unit ends with its last existing message
		b.Base, b.Last = b.Recs[0].Offset, b.Recs[len(b.Recs)-1].Offset
	}
	if format == 2 {
		for i := range b.Recs {
			if !b.Control && b.Recs[i].Offset%2 == 0 {
				b.Recs[i].Headers = []refwire.Hdr{{Key: "h", Value: []byte("x")}}
			}
		}
	}
	return b
}

func layouts(thorough bool) []layout {
	var out []layout
	codecs2 := []int8{refwire.None, refwire.Gzip}
	if thorough {
		codecs2 = []int8{refwire.None, refwire.Gzip, refwire.Snappy, refwire.Lz4, refwire.Zstd}
	}
	cname := []string{"none", "gzip", "snappy", "lz4", "zstd"}
	// format 2: every combination of batch variants
	for _, codec := range codecs2 {
		for v0 := range variants {
			for v1 := range variants {
				for v2 := range variants {
					if !thorough && codec != refwire.None && (v0+v1+v2)%3 != 0 {
						continue
					}
					l := layout{name: fmt.Sprintf("v2-%s-%s,%s,%s", cname[codec], variants[v0], variants[v1], variants[v2])}
					for i, v := range []int{v0, v1, v2} {
						a := int64(2 * i)
						l.batches = append(l.batches, mkBatch(a, variants[v], 2, codec))
						if variants[v] == "control" {
							l.batches = append(l.batches, &refwire.Batch{Format: 2, Codec: codec, Base: a + 1, Last: a + 1, Recs: []refwire.Rec{rec(a + 1)}})
						}
					}
					out = append(out, l)
				}
			}
		}
	}
	// formats 0 and 1: uncompressed with holes, compressed wrappers full
	for _, f := range []int8{0, 1} {
		hv := []string{"full", "hole-head", "hole-tail"}
		for v0 := range hv {
			for v1 := range hv {
				for v2 := range hv {
					l := layout{name: fmt.Sprintf("v%d-none-%s,%s,%s", f, hv[v0], hv[v1], hv[v2])}
					for i, v := range []int{v0, v1, v2} {
						l.batches = append(l.batches, mkBatch(int64(2*i), hv[v], f, refwire.None))
					}
					out = append(out, l)
				}
			}
		}
		cs := []int8{refwire.Gzip, refwire.Snappy}
		if thorough && f == 1 {
			cs = append(cs, refwire.Lz4)
		}
		for _, codec := range cs {
			l := layout{name: fmt.Sprintf("v%d-%s-wrappers", f, cname[codec])}
			for i := 0; i < 3; i++ {
				l.batches = append(l.batches, mkBatch(int64(2*i), "full", f, codec))
			}
			out = append(out, l)
			// one wrapper holding everything, and a wrapper followed by plain messages
			l2 := layout{name: fmt.Sprintf("v%d-%s-one-wrapper", f, cname[codec])}
			b := &refwire.Batch{Format: f, Codec: codec, Base: 0, Last: 5}
			for o := int64(0); o < 6; o++ {
				b.Recs = append(b.Recs, rec(o))
			}
			l2.batches = []*refwire.Batch{b}
			out = append(out, l2)
		}
	}
	out = append(out, wrapperHoleLayouts(thorough)...)
	return out
}

// wrapperSet is one compressed format-0/1 wrapper message holding the given stored offsets (the log cleaner
// removed the others from inside the set: the inner offsets are not consecutive; format 1 keeps relative inner
// offsets with their gaps and the wrapper carries the absolute offset of the last retained message).
func wrapperSet(f, codec int8, offs ...int64) *refwire.Batch {
	b := &refwire.Batch{Format: f, Codec: codec, Base: offs[0], Last: offs[len(offs)-1]}
	for _, o := range offs {
		b.Recs = append(b.Recs, rec(o))
	}
	return b
}

// formats 0 and 1: compressed wrappers with compaction holes INSIDE the set (after the first message, in the
// middle, before the last one, several), alone, followed / preceded by another compressed set or by plain messages
func wrapperHoleLayouts(thorough bool) []layout {
	var out []layout
	cname := []string{"none", "gzip", "snappy", "lz4", "zstd"}
	for _, f := range []int8{0, 1} {
		cs := []int8{refwire.Gzip}
		if thorough {
			cs = append(cs, refwire.Snappy)
			if f == 1 {
				cs = append(cs, refwire.Lz4)
			}
		}
		for _, codec := range cs {
			add := func(name string, bs ...*refwire.Batch) {
				out = append(out, layout{name: fmt.Sprintf("v%d-%s-wrapper-holes-%s", f, cname[codec], name), batches: bs})
			}
			// one wrapper over 0..5 that kept its first and last message: every non-empty set of removed inner offsets
			// (quick: one hole after the first message / in the middle / before the last one, two holes)
			for mask := 1; mask < 16; mask++ {
				if (!thorough || codec != refwire.Gzip) && mask != 1 && mask != 6 && mask != 8 && mask != 5 {
					continue
				}
				offs := []int64{0}
				for i := 0; i < 4; i++ {
					if mask&(1<<i) == 0 {
						offs = append(offs, int64(i+1))
					}
				}
				offs = append(offs, 5)
				add(fmt.Sprintf("one%v", offs), wrapperSet(f, codec, offs...))
			}
			plain := func(offs ...int64) *refwire.Batch {
				b := wrapperSet(f, refwire.None, offs...)
				return b
			}
			// followed by another compressed set
			add("[0 2 3][4 5]", wrapperSet(f, codec, 0, 2, 3), wrapperSet(f, codec, 4, 5))
			add("0[1 3 4]5", plain(0), wrapperSet(f, codec, 1, 3, 4), plain(5))
			if codec != refwire.Gzip {
				continue // the other codecs (thorough only): the single wrappers and these two
			}
			add("[0 1 3][4 5]", wrapperSet(f, codec, 0, 1, 3), wrapperSet(f, codec, 4, 5))
			add("[0 2][3 5]", wrapperSet(f, codec, 0, 2), wrapperSet(f, codec, 3, 5))
			add("[0 1][2 4 5]", wrapperSet(f, codec, 0, 1), wrapperSet(f, codec, 2, 4, 5))
			// followed / preceded by plain messages
			add("[0 2 3]4,5", wrapperSet(f, codec, 0, 2, 3), plain(4, 5))
			add("[0 3]4,5", wrapperSet(f, codec, 0, 3), plain(4, 5))
			add("0,1[2 3 5]", plain(0, 1), wrapperSet(f, codec, 2, 3, 5))
		}
	}
	return out
}

func (l layout) install(c *fk.Cluster) {
	p := c.Part("t", 0)
	p.Log = nil
	p.Start, p.End = 0, 0
	for _, b := range l.batches {
		cp := *b
		if b.Format < 2 {
			for i := range cp.Recs {
				cp.Recs[i].Headers = nil
			}
		}
		p.Append(&cp)
	}
	if p.End < 6 && len(l.batches) > 0 && l.batches[0].Format == 2 {
		p.End = 6 // a v2 batch keeps its offset range when its tail is compacted away; formats 0/1 end at their last message
	}
}
