package c02

import (
	"context"
	"errors"
	"fmt"
	"strings"
	"testing"
	"time"

	kafka "github.com/segmentio/kafka-go"
	"github.com/segmentio/kafka-go/protocol"

	"verif/engine/bub"
	"verif/engine/fk"
	"verif/engine/refwire"
	"verif/engine/seqx"
	"verif/harness/hx"
)

// Fetch responses that reach the client in several pieces (TCP segments; a broker writing header and payload
// separately): the SAME complete response, nothing lost, the connection stays open, but a read returns only the
// bytes up to the split point and the rest comes a little (virtual time) later. Every split point is tried, so a
// piece boundary falls inside every field of the response, in particular inside every multi-byte varint of the
// v2 records. The stored logs are built so that every varint position of a record holds a 2-byte and (second
// layout) a 3- or 4-byte varint somewhere: record length, timestamp delta (also negative), offset delta (offsets
// removed by compaction, also at the head of a batch), key length, value length, header count, header key and
// value lengths.

func blob(n int, seed byte) []byte {
	b := make([]byte, n)
	for i := range b {
		b[i] = 'a' + (seed+byte(i*7))%26
	}
	return b
}

const baseTS = 1700000000000

// varintLayout2 is about 600 bytes: 2-byte varints everywhere. pad is the size of the first record's value (shifts
// the alignment of everything behind it).
func varintLayout2(codec int8, pad int) layout {
	b0 := &refwire.Batch{Format: 2, Codec: codec, Base: 0, Last: 81, Recs: []refwire.Rec{
		{Offset: 0, TS: baseTS, Key: []byte("k0"), Value: blob(pad, 1), Headers: []refwire.Hdr{{Key: "h", Value: []byte("x")}}},
		{Offset: 1, TS: baseTS + 250, Key: nil, Value: blob(100, 2)},
		{Offset: 80, TS: baseTS + 90000, Key: blob(70, 3), Value: []byte("v80")},
		{Offset: 81, TS: baseTS + 90001, Key: []byte{}, Value: []byte("v81"), Headers: []refwire.Hdr{{Key: "trace", Value: blob(70, 4)}, {Key: string(blob(66, 5)), Value: nil}}},
	}}
	// the head and the tail of the second batch were compacted away; time goes backwards in it
	b1 := &refwire.Batch{Format: 2, Codec: codec, Base: 82, Last: 200, Recs: []refwire.Rec{
		{Offset: 150, TS: baseTS + 100000, Key: []byte("k150"), Value: []byte("v150")},
		{Offset: 151, TS: baseTS + 100064, Value: []byte("v151")},
		{Offset: 152, TS: baseTS + 99900, Key: []byte("k152"), Value: []byte{}},
	}}
	return layout{name: fmt.Sprintf("v2-%s-varints-2-byte-pad%d", codecName[codec], pad), batches: []*refwire.Batch{b0, b1}}
}

// varintLayout3 is about 34 KiB (several refills of the connection's 4 KiB read buffer): 3- and 4-byte varints.
func varintLayout3(codec int8) layout {
	var many []refwire.Hdr
	for i := 0; i < 64; i++ {
		many = append(many, refwire.Hdr{Key: fmt.Sprintf("h%d", i), Value: []byte{byte('A' + i%26)}})
	}
	b0 := &refwire.Batch{Format: 2, Codec: codec, Base: 0, Last: 9001, Recs: []refwire.Rec{
		{Offset: 0, TS: baseTS, Key: []byte("k0"), Value: []byte("v0")},
		{Offset: 1, TS: baseTS + 70, Value: blob(8200, 1)},
		{Offset: 2, TS: baseTS + 8200, Key: blob(8200, 2), Value: []byte("v2")},
		{Offset: 3, TS: baseTS + 8201, Value: []byte("v3"), Headers: many},
		{Offset: 9000, TS: baseTS + 1<<21, Key: []byte("k9000"), Value: []byte("v9000"), Headers: []refwire.Hdr{{Key: "big", Value: blob(8200, 3)}, {Key: string(blob(8200, 4)), Value: []byte("y")}}},
		{Offset: 9001, TS: baseTS - 100, Key: []byte("k9001"), Value: []byte("v9001")},
	}}
	b1 := &refwire.Batch{Format: 2, Codec: codec, Base: 9002, Last: 9003, Recs: []refwire.Rec{
		{Offset: 9002, TS: baseTS + 1<<21 + 1, Key: []byte("k9002"), Value: []byte("v9002")},
		{Offset: 9003, TS: baseTS + 1<<21 + 65, Value: []byte("v9003")},
	}}
	return layout{name: fmt.Sprintf("v2-%s-varints-3-byte", codecName[codec]), batches: []*refwire.Batch{b0, b1}}
}

var codecName = []string{"none", "gzip", "snappy", "lz4", "zstd"}

func abbr(b []byte) string {
	if len(b) <= 16 {
		return string(b)
	}
	s := 0
	for _, c := range b {
		s = s*31 + int(c)
		s &= 0xffffff
	}
	return fmt.Sprintf("<%d bytes #%06x>", len(b), s)
}

func fmtLong(o int64, k, v []byte, ts int64, hs string) string {
	return fmt.Sprintf("%d:%s=%s@%d%s,", o, abbr(k), abbr(v), ts, hs)
}

// the stored encoding is computed once per layout (Batch.Raw), not on every fetch of every case
func (l layout) frozen() layout {
	out := layout{name: l.name}
	for _, b := range l.batches {
		cp := *b
		cp.Raw = b.Encode()
		out.batches = append(out.batches, &cp)
	}
	return out
}

func (l layout) installPlain(c *fk.Cluster) {
	p := c.Part("t", 0)
	p.Log, p.Start, p.End = nil, 0, 0
	for _, b := range l.batches {
		cp := *b
		p.Append(&cp)
	}
}

func piecesCluster(l layout, fv int16) *fk.Cluster {
	c := fk.New(1)
	c.Auto = true
	c.AddTopic("t", 1, nil)
	l.installPlain(c)
	vs := hx.Versions(map[protocol.ApiKey]fk.VRange{protocol.Fetch: {0, fv}})
	c.Versions = map[int]map[protocol.ApiKey]fk.VRange{1: vs}
	return c
}

// readAllPieces runs a Reader from offset 0 over the layout with every fetch response delivered in pieces split at
// cuts (nil: whole); it returns the delivered and the stored records and the length of the first fetch response.
func readAllPieces(l layout, fv int16, cuts []int) (got, want []string, respLen int) {
	c := piecesCluster(l, fv)
	if len(cuts) > 0 {
		spec := "split:"
		for i, k := range cuts {
			if i > 0 {
				spec += ","
			}
			spec += fmt.Sprint(k)
		}
		c.Script = func(e *fk.Entry) string {
			if e.Key == protocol.Fetch {
				return spec
			}
			return ""
		}
	}
	for _, r := range c.Part("t", 0).Records(0) {
		hs := ""
		for _, h := range r.Headers {
			hs += fmt.Sprintf("[%s=%s]", abbr([]byte(h.Key)), abbr(h.Value))
		}
		want = append(want, fmtLong(r.Offset, r.Key, r.Value, r.TS, hs))
	}
	r := newReader(c, 1<<20, 2)
	r.SetOffset(0)
	for i := 0; i <= len(want); i++ {
		ctx, cancel := context.WithTimeout(context.Background(), 4*time.Second)
		m, err := r.ReadMessage(ctx)
		cancel()
		if err != nil {
			if !errors.Is(err, context.DeadlineExceeded) {
				got = append(got, "error:"+hx.ErrString(err))
			}
			break
		}
		hs := ""
		for _, h := range m.Headers {
			hs += fmt.Sprintf("[%s=%s]", abbr([]byte(h.Key)), abbr(h.Value))
		}
		got = append(got, fmtLong(m.Offset, m.Key, m.Value, m.Time.UnixMilli(), hs))
	}
	r.Close()
	c.Lock()
	for _, e := range c.Journal {
		if e.Key == protocol.Fetch && respLen == 0 {
			respLen = e.RespBytes
		}
	}
	c.Unlock()
	return
}

func responseInPieces(t *testing.T, s *seqx.Suite, thorough bool) {
	s.Begin("reader-fetch-response-in-pieces-at-every-split-point")
	type item struct {
		l      layout
		fv     int16
		stride int // split points k with k%stride == 0 (1: all of them)
		alone  bool
	}
	var items []item
	codecs := []int8{refwire.Gzip, refwire.Snappy, refwire.Lz4, refwire.Zstd}
	// uncompressed: every split point of the small layout; the large one with a stride (thorough: every point)
	items = append(items, item{varintLayout2(refwire.None, 2), 10, 1, true})
	if thorough {
		items = append(items, item{varintLayout2(refwire.None, 2), 5, 1, true})
		items = append(items, item{varintLayout3(refwire.None), 10, 1, false})
		items = append(items, item{varintLayout3(refwire.None), 10, 7, true})
	} else {
		items = append(items, item{varintLayout3(refwire.None), 10, 13, true})
	}
	// compressed: the records are parsed out of the decompressed batch through a 16-byte window, so the size of
	// the first value is swept to move every later varint across the window's refill points; the response itself
	// whole, and in pieces (stride)
	pads := 16
	if thorough {
		pads = 48
	}
	for _, codec := range codecs {
		for pad := 0; pad < pads; pad++ {
			st := 0 // whole only
			if pad == 2 || (thorough && pad == 9) {
				st = 1
			}
			items = append(items, item{varintLayout2(codec, pad), 10, st, false})
		}
		st := 53
		if thorough {
			st = 7
		}
		items = append(items, item{varintLayout3(codec), 10, st, false})
	}
	for _, it := range items {
		l, fv := it.l.frozen(), it.fv
		kind := "reader-pieces"
		if l.batches[0].Codec != refwire.None {
			kind = "reader-pieces-compressed"
		}
		// length of the first fetch response, and the fault-free delivery as a case of its own
		respLen := 0
		id := fmt.Sprintf("%s fetch-v%d whole", l.name, fv)
		measure := func() (v *seqx.Viol, panicked string) {
			br := bub.Run(t, 0, func() {
				got, want, n := readAllPieces(l, fv, nil)
				respLen = n
				v = compare(strings.Replace(kind, "pieces", "varint-layout", 1), got, want)
			})
			return v, br.Panic
		}
		s.Case(id, id, func() (string, *seqx.Viol) {
			v, p := measure()
			if p != "" {
				return "panic", &seqx.Viol{Sig: "panic", Msg: p}
			}
			return l.name, v
		})
		if it.stride == 0 {
			continue
		}
		if respLen == 0 {
			measure() // this shard did not run the case above
		}
		for k := 1; k < respLen; k++ {
			if k%it.stride != 0 {
				continue
			}
			var cutsets [][]int
			cutsets = append(cutsets, []int{k})
			if it.alone && k+1 < respLen {
				cutsets = append(cutsets, []int{k, k + 1}) // three pieces: byte k arrives alone
			}
			for _, cuts := range cutsets {
				if s.TimeUp() {
					return
				}
				cuts := cuts
				id := fmt.Sprintf("%s fetch-v%d response of %d bytes split at %v", l.name, fv, respLen, cuts)
				s.Case(id, id, func() (string, *seqx.Viol) {
					var v *seqx.Viol
					br := bub.Run(t, 0, func() {
						got, want, _ := readAllPieces(l, fv, cuts)
						v = compare(kind, got, want)
						if v != nil {
							v.Msg = fmt.Sprintf("fetch responses delivered completely but in pieces (split at byte %s of the frame, %d bytes; layout %s): ", strings.Trim(fmt.Sprint(cuts), "[]"), respLen, l.name) + v.Msg
						}
					})
					if br.Panic != "" {
						return "panic", &seqx.Viol{Sig: "panic", Msg: br.Panic}
					}
					return fmt.Sprintf("%s/%d pieces", l.name, len(cuts)+1), v
				})
			}
		}
	}
}

var _ = kafka.FirstOffset
