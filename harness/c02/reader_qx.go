package c02

import (
	"context"
	"fmt"
	"sort"
	"time"

	kafka "github.com/segmentio/kafka-go"
	"github.com/segmentio/kafka-go/protocol"

	"verif/engine/fk"
	"verif/engine/qx"
)

// Reader under faults: one application thread runs a script of ReadMessage and
// SetOffset calls while the explorer orders broker answers, injects faults
// (error codes, cut/dropped responses, stalls) and moves the partition leader.
type rscript struct {
	name   string
	before int   // reads before SetOffset
	target int64 // SetOffset target (-100: no SetOffset)
	layout string
}

func readerScenario(sc rscript, ls []layout, faults []string) *qx.Scenario {
	var lay layout
	for _, l := range ls {
		if l.name == sc.layout {
			lay = l
		}
	}
	cfg := qx.Config{Horizon: 90 * time.Second, Quantum: 11 * time.Second, Grace: 12 * time.Second, MaxSteps: 500}
	return &qx.Scenario{Name: sc.name, Cfg: cfg, Body: func(x *qx.Exec) *qx.Outcome {
		c := fk.New(2)
		c.AddTopic("t", 1, nil)
		lay.install(c)
		c.OnEvent = x.Notify
		r := kafka.NewReader(kafka.ReaderConfig{Brokers: []string{"b1:9092"}, Topic: "t", Partition: 0, Dialer: &kafka.Dialer{DialFunc: c.Dial, Timeout: 3 * time.Second},
			MinBytes: 1, MaxBytes: 1 << 20, MaxWait: 200 * time.Millisecond, QueueCapacity: 2, ReadBackoffMin: 50 * time.Millisecond, ReadBackoffMax: 200 * time.Millisecond,
			ReadBatchTimeout: 4 * time.Second, MaxAttempts: 3})
		type ev struct {
			kind string
			off  int64
			msg  string
		}
		var evs []ev
		stored := c.Part("t", 0).Records(0)
		lastOff := stored[len(stored)-1].Offset
		x.Go("app", func() {
			ctx := context.Background()
			read := func() bool {
				m, err := r.ReadMessage(ctx)
				if err != nil {
					evs = append(evs, ev{kind: "error", msg: err.Error()})
					return false
				}
				evs = append(evs, ev{kind: "msg", off: m.Offset, msg: fmtMsg(m)})
				return true
			}
			for i := 0; i < sc.before; i++ {
				if !read() {
					return
				}
			}
			if sc.target != -100 {
				if err := r.SetOffset(sc.target); err != nil {
					evs = append(evs, ev{kind: "error", msg: "SetOffset: " + err.Error()})
					return
				}
				evs = append(evs, ev{kind: "setoffset", off: sc.target})
			}
			for n := 0; n < 12; n++ {
				if !read() {
					return
				}
				if evs[len(evs)-1].off == lastOff {
					break
				}
			}
			r.Close()
		})
		moved := false
		x.SetEnv(func() []qx.Action {
			var acts []qx.Action
			ps := c.Pending()
			for _, e := range ps {
				e := e
				acts = append(acts, qx.Action{Label: fmt.Sprintf("ans#%d(b%d,api%d):ok", e.Seq, e.Broker, e.Key), Do: func() { c.Answer(e, "") }})
			}
			for _, e := range ps {
				e := e
				fl := faults
				if e.Key != protocol.Fetch {
					fl = []string{"drop"}
					if e.Key == protocol.Metadata || e.Key == protocol.ListOffsets {
						fl = []string{"drop", "err:5"}
					}
					if e.Key == protocol.ApiVersions {
						continue
					}
				}
				for _, f := range fl {
					f := f
					acts = append(acts, qx.Action{Label: fmt.Sprintf("ans#%d(b%d,api%d):%s", e.Seq, e.Broker, e.Key, f), Do: func() { c.Answer(e, f) }})
				}
			}
			if !moved {
				acts = append(acts, qx.Action{Label: "move-leader-to-b2", Do: func() {
					moved = true
					c.Lock()
					c.Part("t", 0).Leader = 2
					c.Part("t", 0).Replicas = []int{2}
					c.Unlock()
				}})
			}
			return acts
		})
		st := x.Run()
		if st != qx.StDone {
			go r.Close()
		}
		o := &qx.Outcome{}
		key := string(st) + ":"
		// oracle: segments between SetOffsets
		pos := int64(0) // initial position: first offset
		expectNext := func(from int64) (string, bool) {
			for _, rec := range stored {
				if rec.Offset >= from {
					hs := ""
					for _, h := range rec.Headers {
						hs += fmt.Sprintf("[%s=%s]", h.Key, h.Value)
					}
					return fmtRec(rec.Offset, rec.Key, rec.Value, rec.TS, hs), true
				}
			}
			return "", false
		}
		for _, e := range evs {
			switch e.kind {
			case "setoffset":
				pos = e.off
				key += fmt.Sprintf("S%d ", e.off)
			case "error":
				key += "E "
				if o.Violation == "" {
					o.Violation, o.Sig = "the Reader returned an error to the application: "+e.msg, "reader-error"
				}
			case "msg":
				want, ok := expectNext(pos)
				key += fmt.Sprintf("%d ", e.off)
				if o.Violation == "" && (!ok || want != e.msg) {
					o.Sig = "reader-faults:wrong-delivery"
					if ok && want[:2] == e.msg[:2] {
						o.Sig = "reader-faults:wrong-content"
					}
					o.Violation = fmt.Sprintf("delivered %s, but the smallest stored record at or after position %d is %q (events %v)", e.msg, pos, want, summarize(evs))
				}
				pos = e.off + 1
			}
		}
		if st != qx.StDone && o.Violation == "" {
			o.Violation = fmt.Sprintf("records were not all delivered within the virtual horizon (status %s, events %v)", st, summarize(evs))
			o.Sig = "reader-faults:not-delivered"
		}
		c.Lock()
		nf := 0
		for _, e := range c.Journal {
			if e.Key == protocol.Fetch {
				nf++
			}
		}
		key += fmt.Sprintf("| dials=%d fetches=%d", len(c.Dials), nf)
		c.Unlock()
		o.Key = key
		o.Obs = summarize(evs)
		return o
	}}
}

func summarize[T any](evs []T) string { return fmt.Sprintf("%v", evs) }

func readerItems(thorough bool) []qx.SuiteItem {
	ls := layouts(thorough)
	bound := 2
	if thorough {
		bound = 3
	}
	faults := []string{"err:6", "cut:30", "cut:95", "drop", "stall"}
	var scs []rscript
	scs = append(scs, rscript{name: "reader-faults-plain", before: 0, target: -100, layout: "v2-none-full,full,full"})
	scs = append(scs, rscript{name: "reader-faults-holes", before: 0, target: -100, layout: "v2-none-hole-head,empty,hole-tail"})
	for _, p := range []int{0, 2, 3} {
		for _, tgt := range []int64{0, 3, 5} {
			scs = append(scs, rscript{name: fmt.Sprintf("reader-setoffset-after%d-to%d", p, tgt), before: p, target: tgt, layout: "v2-none-full,full,full"})
		}
	}
	if thorough {
		scs = append(scs, rscript{name: "reader-faults-gzip", before: 1, target: 2, layout: "v2-gzip-full,hole-tail,full"})
		scs = append(scs, rscript{name: "reader-faults-v1", before: 1, target: 4, layout: "v1-gzip-wrappers"})
	}
	sort.SliceStable(scs, func(i, j int) bool { return false })
	var items []qx.SuiteItem
	for _, sc := range scs {
		items = append(items, qx.SuiteItem{Scn: readerScenario(sc, ls, faults), Bound: bound})
	}
	return items
}
