// Package c03: consumer-group Readers against the fake coordinator/brokers under
// the explorer. Journals: what each application received from FetchMessage /
// ReadMessage and passed to CommitMessages (with results), and every OffsetCommit
// the coordinator acknowledged, OffsetFetch answers and assignments.
package c03

import (
	"context"
	"fmt"
	"os"
	"sort"
	"strings"
	"sync"
	"testing"
	"time"

	kafka "github.com/segmentio/kafka-go"
	"github.com/segmentio/kafka-go/protocol"
	"github.com/segmentio/kafka-go/protocol/fetch"
	"github.com/segmentio/kafka-go/protocol/offsetcommit"
	"github.com/segmentio/kafka-go/protocol/offsetfetch"
	"github.com/segmentio/kafka-go/zzverif/vhook"

	"verif/engine/fk"
	"verif/engine/qx"
	"verif/engine/refwire"
)

const nrec = 3 // records per partition

type evt struct {
	Seq    int
	At     time.Duration
	Member string
	Kind   string // deliver, commit-call, commit-ret
	Part   int
	Off    int64
	Err    string
	J      int // number of requests the brokers had received when the event was recorded (orders events and requests inside one instant)
}

type scn struct {
	name      string
	second    bool          // a second member may join (and leave) at any point
	interval  time.Duration // 0: synchronous commits
	readMsg   bool          // ReadMessage instead of FetchMessage+CommitMessages
	faults    map[protocol.ApiKey][]string
	evict     bool
	bound     int
	committed map[int]int64 // initial committed offsets
	// closeRace: the application fetches one message and commits it (synchronously) while another goroutine
	// closes the Reader; schedules are explored at the synchronisation and channel points of reader.go
	closeRace bool
	// twoTopics: the group subscribes to topics "t" and "u" (one partition each, keyed 0 and 1 in the oracles) and the
	// application commits the messages of both with one CommitMessages call, so that one OffsetCommit request
	// carries two topics
	twoTopics bool
	// ff: the scenario belongs to the class "fetch fault in the middle of an assignment" (fetchfault_test.go)
	ff *ffCase
}

// startLast: the members are configured with StartOffset: LastOffset
func (sc *scn) startLast() bool { return sc.ff != nil && sc.ff.last }

// pk maps a topic partition to the key the oracles use: partitions 0 and 1 of topic t, or (two topics) t/0 and u/0.
func (sc *scn) pk(topic string, part int) int {
	if sc.twoTopics {
		if topic == "u" {
			return 1
		}
		return 0
	}
	return part
}

func (sc *scn) tp(k int) fk.TP {
	if sc.twoTopics {
		return fk.TP{Topic: []string{"t", "u"}[k], Part: 0}
	}
	return fk.TP{Topic: "t", Part: k}
}

func (sc *scn) scenario() *qx.Scenario {
	cfg := qx.Config{Horizon: 150 * time.Second, Quantum: 7 * time.Second, Grace: 12 * time.Second, MaxSteps: 900}
	if sc.closeRace {
		cfg.Fine = true
		cfg.Files = []string{"reader.go"}
		cfg.WakeFiles = []string{"reader.go"}
	}
	return &qx.Scenario{Name: sc.name, Cfg: cfg, Body: func(x *qx.Exec) *qx.Outcome {
		c := fk.New(1)
		if sc.twoTopics {
			c.AddTopic("t", 1, nil)
			c.AddTopic("u", 1, nil)
		} else {
			c.AddTopic("t", 2, nil)
		}
		for p := 0; p < 2; p++ {
			b := &refwire.Batch{Format: 2, Base: 0, Last: nrec - 1}
			for o := int64(0); o < nrec; o++ {
				b.Recs = append(b.Recs, refwire.Rec{Offset: o, TS: 1000 + o, Value: []byte(fmt.Sprintf("p%d-%d", p, o))})
			}
			c.Part(sc.tp(p).Topic, sc.tp(p).Part).Append(b)
		}
		for p, o := range sc.committed {
			c.SetCommitted("g", sc.tp(p).Topic, sc.tp(p).Part, o)
		}
		c.OnEvent = x.Notify
		var mu sync.Mutex
		seq := 0
		var evs []evt
		rec := func(e evt) {
			c.Lock()
			e.J = len(c.Journal)
			c.Unlock()
			mu.Lock()
			seq++
			e.Seq, e.At = seq, x.Now()
			evs = append(evs, e)
			mu.Unlock()
			x.Notify()
		}
		readers := map[string]*kafka.Reader{}
		// the applications' context ends when the scenario stops them (a CommitMessages queued behind a
		// closed Reader would otherwise wait for ever, which no property forbids)
		appCtx, appCancel := context.WithCancel(context.Background())
		defer appCancel()
		newMember := func(name string) {
			topic1, topics2 := "t", []string(nil)
			if sc.twoTopics {
				topic1, topics2 = "", []string{"t", "u"}
			}
			r := kafka.NewReader(kafka.ReaderConfig{Brokers: []string{"b1:9092"}, GroupID: "g", Topic: topic1, GroupTopics: topics2, Dialer: &kafka.Dialer{DialFunc: c.Dial, Timeout: 3 * time.Second},
				MinBytes: 1, MaxBytes: 1 << 20, MaxWait: 200 * time.Millisecond, QueueCapacity: 2, HeartbeatInterval: time.Second, SessionTimeout: 6 * time.Second, RebalanceTimeout: 6 * time.Second,
				JoinGroupBackoff: time.Second, CommitInterval: sc.interval, StartOffset: kafka.FirstOffset, ReadBackoffMin: 50 * time.Millisecond, ReadBackoffMax: 200 * time.Millisecond,
				MaxAttempts: 3, ReadBatchTimeout: 4 * time.Second, RetentionTime: time.Hour})
			mu.Lock()
			readers[name] = r
			mu.Unlock()
			if sc.closeRace {
				delivered := make(chan struct{})
				x.Go("app-"+name, func() {
					m, err := r.FetchMessage(appCtx)
					if err != nil {
						rec(evt{Member: name, Kind: "end", Err: err.Error()})
						close(delivered)
						return
					}
					rec(evt{Member: name, Kind: "deliver", Part: sc.pk(m.Topic, m.Partition), Off: m.Offset})
					close(delivered)
					vhook.Point(vhook.KUser, nil) // the application can be descheduled between the two calls
					rec(evt{Member: name, Kind: "commit-call", Part: sc.pk(m.Topic, m.Partition), Off: m.Offset})
					cerr := r.CommitMessages(appCtx, m)
					es := ""
					if cerr != nil {
						es = cerr.Error()
					}
					rec(evt{Member: name, Kind: "commit-ret", Part: sc.pk(m.Topic, m.Partition), Off: m.Offset, Err: es})
				})
				x.Go("closer-"+name, func() {
					<-delivered
					r.Close()
					appCancel()
				})
				return
			}
			if sc.twoTopics {
				x.Go("app-"+name, func() {
					ctx := appCtx
					for {
						// two messages, then one CommitMessages call for both
						var ms []kafka.Message
						for len(ms) < 2 {
							m, err := r.FetchMessage(ctx)
							if err != nil {
								rec(evt{Member: name, Kind: "end", Err: err.Error()})
								return
							}
							rec(evt{Member: name, Kind: "deliver", Part: sc.pk(m.Topic, m.Partition), Off: m.Offset})
							ms = append(ms, m)
						}
						for _, m := range ms {
							rec(evt{Member: name, Kind: "commit-call", Part: sc.pk(m.Topic, m.Partition), Off: m.Offset})
						}
						cerr := r.CommitMessages(ctx, ms...)
						es := ""
						if cerr != nil {
							es = cerr.Error()
						}
						for _, m := range ms {
							rec(evt{Member: name, Kind: "commit-ret", Part: sc.pk(m.Topic, m.Partition), Off: m.Offset, Err: es})
						}
					}
				})
				return
			}
			x.Go("app-"+name, func() {
				ctx := appCtx
				for {
					var m kafka.Message
					var err error
					if sc.readMsg {
						m, err = r.ReadMessage(ctx)
					} else {
						m, err = r.FetchMessage(ctx)
					}
					if err != nil {
						rec(evt{Member: name, Kind: "end", Err: err.Error()})
						return
					}
					rec(evt{Member: name, Kind: "deliver", Part: sc.pk(m.Topic, m.Partition), Off: m.Offset})
					if sc.readMsg {
						// ReadMessage committed it (sync) or queued the commit (interval) before returning
						rec(evt{Member: name, Kind: "commit-call", Part: sc.pk(m.Topic, m.Partition), Off: m.Offset})
						rec(evt{Member: name, Kind: "commit-ret", Part: sc.pk(m.Topic, m.Partition), Off: m.Offset})
						continue
					}
					rec(evt{Member: name, Kind: "commit-call", Part: sc.pk(m.Topic, m.Partition), Off: m.Offset})
					cerr := r.CommitMessages(ctx, m)
					es := ""
					if cerr != nil {
						es = cerr.Error()
					}
					rec(evt{Member: name, Kind: "commit-ret", Part: sc.pk(m.Topic, m.Partition), Off: m.Offset, Err: es})
				}
			})
		}
		newMember("A")
		bStarted, bClosed, stopped := false, false, false
		complete := func() bool {
			// every record delivered to someone and the coordinator holds the end offset for both partitions
			c.Lock()
			defer c.Unlock()
			g := c.Groups["g"]
			if g == nil {
				return false
			}
			for p := 0; p < 2; p++ {
				if g.Offsets[sc.tp(p)] < nrec {
					return false
				}
			}
			return true
		}
		x.SetEnv(func() []qx.Action {
			var acts []qx.Action
			ps := c.Pending()
			for _, e := range ps {
				e := e
				acts = append(acts, qx.Action{Label: fmt.Sprintf("ans#%d(c%d,api%d):ok", e.Seq, e.Conn, e.Key), Do: func() { c.Answer(e, "") }})
			}
			if !stopped && complete() {
				acts = append([]qx.Action{{Label: "stop-all", Do: func() {
					stopped = true
					mu.Lock()
					rs := []*kafka.Reader{}
					for _, n := range []string{"A", "B"} {
						if r := readers[n]; r != nil && !(n == "B" && bClosed) {
							rs = append(rs, r)
						}
					}
					mu.Unlock()
					for _, r := range rs {
						r := r
						x.Go("close", func() { r.Close(); appCancel() })
					}
				}}}, acts...)
			}
			if sc.second && !bStarted && !stopped {
				acts = append(acts, qx.Action{Label: "member-B-starts", Do: func() { bStarted = true; newMember("B") }})
			}
			if sc.second && bStarted && !bClosed && !stopped {
				acts = append(acts, qx.Action{Label: "member-B-closes", Do: func() {
					bClosed = true
					mu.Lock()
					r := readers["B"]
					mu.Unlock()
					x.Go("close-B", func() { r.Close() })
				}})
			}
			if sc.evict && !stopped {
				c.Lock()
				var ms []string
				if g := c.Groups["g"]; g != nil && g.State == "Stable" {
					for id := range g.Members {
						ms = append(ms, id)
					}
				}
				c.Unlock()
				sort.Strings(ms)
				for _, id := range ms {
					id := id
					acts = append(acts, qx.Action{Label: "evict-" + id, Do: func() { c.Evict("g", id) }})
				}
			}
			for _, e := range ps {
				e := e
				for _, f := range sc.faults[e.Key] {
					f := f
					acts = append(acts, qx.Action{Label: fmt.Sprintf("ans#%d(c%d,api%d):%s", e.Seq, e.Conn, e.Key, f), Do: func() { c.Answer(e, f) }})
				}
			}
			return acts
		})
		st := x.Run()
		if st != qx.StDone {
			mu.Lock()
			for _, r := range readers {
				go r.Close()
			}
			mu.Unlock()
		}
		return sc.judge(x, c, st, &mu, &evs, stopped)
	}}
}

// judge: quiescent tells that the scenario ended because the group had nothing left to do (everything in the logs
// delivered and committed, the members polling at the log ends), not because its applications gave up.
func (sc *scn) judge(x *qx.Exec, c *fk.Cluster, st qx.Status, mu *sync.Mutex, evsp *[]evt, quiescent bool) *qx.Outcome {
	mu.Lock()
	evs := append([]evt(nil), *evsp...)
	mu.Unlock()
	o := &qx.Outcome{}
	viol := func(sig, msg string) {
		if o.Violation == "" {
			o.Violation, o.Sig = msg, sig
		}
	}
	c.Lock()
	defer c.Unlock()
	g := c.Groups["g"]
	// (a) acknowledged commits never exceed 1 + highest offset an application passed to CommitMessages before
	// the request reached the coordinator. Application events and journal entries share the virtual clock; inside
	// one instant the application's call precedes the request it causes, so "At <=" is the right comparison.
	type ack struct {
		at   time.Duration
		part int
		off  int64
		mem  string
		seq  int
	}
	var acks []ack
	for _, e := range c.Journal {
		r, ok := e.Msg.(*offsetcommit.Request)
		if !ok || !e.Applied {
			continue
		}
		for _, t := range r.Topics {
			for _, p := range t.Partitions {
				if _, rejected := e.PartErr[fk.TP{Topic: t.Name, Part: int(p.PartitionIndex)}]; rejected {
					continue // the coordinator answered this partition entry with an error code and did not record it
				}
				at := e.At
				if sc.readMsg {
					// ReadMessage commits before it hands the message over: the call is judged as a whole,
					// so the acknowledgement time is compared with the time the message was handed out
					at = e.AnsweredAt
				}
				acks = append(acks, ack{at, sc.pk(t.Name, int(p.PartitionIndex)), p.CommittedOffset, r.MemberID, e.Seq})
			}
		}
	}
	for _, a := range acks {
		maxPassed := int64(-1)
		if v, ok := sc.committed[a.part]; ok {
			maxPassed = v - 1
		}
		for _, ev := range evs {
			if ev.Kind == "commit-call" && ev.Part == a.part && ev.At <= a.at && ev.Off > maxPassed {
				maxPassed = ev.Off
			}
		}
		if a.off > maxPassed+1 {
			viol("commit-beyond-delivered", fmt.Sprintf("OffsetCommit #%d acknowledged offset %d for t/%d, but the highest offset an application had passed to CommitMessages by then is %d", a.seq, a.off, a.part, maxPassed))
		}
	}
	// (b) a synchronous CommitMessages that returned nil is recorded by the coordinator
	if sc.interval == 0 {
		for _, ev := range evs {
			if ev.Kind != "commit-ret" || ev.Err != "" {
				continue
			}
			ok := false
			for _, a := range acks {
				// the acknowledged request reached the coordinator before CommitMessages returned (virtual time, and inside
				// one instant the order in which requests arrived and application events happened)
				if a.part == ev.Part && a.off >= ev.Off+1 && a.at <= ev.At && a.seq < ev.J {
					ok = true
				}
			}
			if v, has := sc.committed[ev.Part]; has && v >= ev.Off+1 {
				ok = true
			}
			if !ok {
				viol("commit-acked-but-not-recorded", fmt.Sprintf("CommitMessages(t/%d@%d) by %s returned nil at %v but the coordinator had not acknowledged a commit >= %d for that partition", ev.Part, ev.Off, ev.Member, ev.At, ev.Off+1))
			}
		}
	}
	// (c) per member and partition, deliveries continue gap-free or restart at an offset the coordinator handed
	// to that member in an OffsetFetch response (or the start offset when nothing was committed)
	restart := map[string]map[int]map[int64]bool{} // member conn -> part -> offsets; members are identified by the connections' member ids
	memberOfConn := map[int]string{}
	_ = memberOfConn
	allRestarts := map[int]map[int64]bool{0: {}, 1: {}}
	// one token per (OffsetFetch answer, partition): the offset at which the assignment made with that answer starts.
	// With StartOffset: LastOffset and nothing committed the start is symbolic; the position the member resolved it to
	// is the offset of the first Fetch the broker sees for the partition afterwards (resolved lists those tokens).
	type tok struct {
		seq int
		at  time.Duration
		v   int64
	}
	tokens := map[int][]tok{}
	resolved := map[int][]tok{}
	for _, e := range c.Journal {
		if r, ok := e.Msg.(*offsetfetch.Request); ok && e.Answer == "ok" {
			for _, t := range r.Topics {
				for _, p := range t.PartitionIndexes {
					// the value served: committed offset at answer time, reconstructed from the acks before it
					v := int64(-1)
					k := sc.pk(t.Name, int(p))
					if iv, ok := sc.committed[k]; ok {
						v = iv
					}
					for _, a := range acks {
						if a.part == k && a.seq < e.Seq+1 && answeredBefore(c, a.seq, e) {
							v = a.off
						}
					}
					if v < 0 {
						if !sc.startLast() {
							v = 0 // StartOffset: FirstOffset
						} else if v = firstFetchAfter(sc, c, e, k); v < 0 {
							// StartOffset: LastOffset and the member has not sent a Fetch for the partition since:
							// the position of this assignment was never resolved, nothing can have been delivered in it
							continue
						} else {
							resolved[k] = append(resolved[k], tok{e.Seq, e.AnsweredAt, v})
						}
					}
					allRestarts[k][v] = true
					tokens[k] = append(tokens[k], tok{e.Seq, e.AnsweredAt, v})
				}
			}
		}
	}
	_ = restart
	last := map[string]int64{}
	lastTok := map[string]int{}
	delivered := map[int]map[int64]time.Duration{0: {}, 1: {}}
	for _, ev := range evs {
		if ev.Kind != "deliver" {
			continue
		}
		k := fmt.Sprintf("%s/%d", ev.Member, ev.Part)
		prev, seen := last[k]
		if !(seen && ev.Off == prev+1) && !allRestarts[ev.Part][ev.Off] {
			viol("delivery-gap-or-wrong-start", fmt.Sprintf("member %s received t/%d@%d after @%d (seen=%v); it neither continues the sequence nor starts at an offset the coordinator served or (StartOffset: LastOffset, nothing committed) the member resolved with its first Fetch of the assignment (%v)", ev.Member, ev.Part, ev.Off, prev, seen, keys(allRestarts[ev.Part])))
		}
		// (e) inside one assignment delivery proceeds without gaps and without going back: a delivery that does not
		// continue the member's sequence for the partition is the first one of a NEW assignment, i.e. an OffsetFetch
		// answered after the one the member's previous (re)start is attributed to, and before this delivery, carries
		// exactly this offset. (The earliest such answer is taken: that leaves the most for later restarts.)
		if !(seen && ev.Off == prev+1) {
			used, had := lastTok[k]
			found := false
			for _, t := range tokens[ev.Part] {
				if (!had || t.seq > used) && t.at <= ev.At && t.v == ev.Off {
					lastTok[k], found = t.seq, true
					break
				}
			}
			if !found {
				var since []string
				for _, t := range tokens[ev.Part] {
					if (!had || t.seq > used) && t.at <= ev.At {
						since = append(since, fmt.Sprintf("#%d->%d", t.seq, t.v))
					}
				}
				viol("delivery-restarts-within-assignment", fmt.Sprintf("member %s received t/%d@%d after @%d (seen=%v) although no new assignment starting at %d was made since its last (re)start (OffsetFetch answers since then: %v): inside one assignment delivery must proceed from the start offset without gaps or rewinds", ev.Member, ev.Part, ev.Off, prev, seen, ev.Off, since))
			}
		}
		last[k] = ev.Off
		if _, ok := delivered[ev.Part][ev.Off]; !ok {
			delivered[ev.Part][ev.Off] = ev.At
		}
	}
	// (d) completeness at quiescence, and no acknowledged commit covers an undelivered record
	logEnd := func(k int) int64 {
		if p := c.Part(sc.tp(k).Topic, sc.tp(k).Part); p != nil {
			return p.End
		}
		return 0
	}
	// firstOwed: the lowest offset of partition k the group owes its applications, as far as acknowledgements up to
	// "at" are concerned: the committed offset the group started with, else the start of the log (FirstOffset), else
	// (LastOffset) the position the latest assignment made without a committed offset was resolved to - the records
	// below it were in the log before the member first asked for data and are skipped by configuration.
	firstOwed := func(k int, at time.Duration) int64 {
		if v, ok := sc.committed[k]; ok {
			return v
		}
		if !sc.startLast() {
			return 0
		}
		start := logEnd(k)
		for _, t := range resolved[k] {
			if t.at <= at {
				start = t.v
			}
		}
		return start
	}
	for _, a := range acks {
		start := firstOwed(a.part, a.at)
		for off := start; off < a.off && off < logEnd(a.part); off++ {
			at, ok := delivered[a.part][off]
			if !ok || at > a.at {
				viol("commit-covers-undelivered", fmt.Sprintf("commit of offset %d for t/%d (request #%d at %v) covers record @%d which no application had received by then", a.off, a.part, a.seq, a.at, off))
			}
		}
	}
	// (f) once the group is quiescent every record it owes has been delivered at least once
	if st == qx.StDone && quiescent {
		for p := 0; p < 2; p++ {
			for off := firstOwed(p, 1<<62); off < logEnd(p); off++ {
				if _, ok := delivered[p][off]; !ok {
					viol("record-never-delivered", fmt.Sprintf("the group is quiescent (log end of t/%d is %d, its member polls at the end) but record @%d, which is not below the offset the group started from (%d), was never delivered to an application", p, logEnd(p), off, firstOwed(p, 1<<62)))
					break
				}
			}
		}
	}
	var kb strings.Builder
	fmt.Fprintf(&kb, "%s;", st)
	for p := 0; p < 2; p++ {
		var offs []int
		for off := range delivered[p] {
			offs = append(offs, int(off))
		}
		sort.Ints(offs)
		co := int64(-1)
		if g != nil {
			if v, ok := g.Offsets[sc.tp(p)]; ok {
				co = v
			}
		}
		fmt.Fprintf(&kb, "p%d:%v c=%d ", p, offs, co)
	}
	nd := 0
	for _, ev := range evs {
		if ev.Kind == "deliver" {
			nd++
		}
	}
	gen := 0
	if g != nil {
		gen = g.Gen
	}
	fmt.Fprintf(&kb, "deliveries=%d gens=%d", nd, gen)
	o.Key = kb.String()
	if st != qx.StDone {
		// Progress is not part of C03 (which constrains what is committed and delivered, not when): such
		// executions are counted, their deliveries and commits are still judged above.
		o.Other = "not-quiescent:" + string(st)
	}
	o.Obs = evs
	return o
}

// firstFetchAfter returns the offset of the first Fetch for partition k that reached a broker after the OffsetFetch e
// had been answered (-1: none).
func firstFetchAfter(sc *scn, c *fk.Cluster, e *fk.Entry, k int) int64 {
	for _, f := range c.Journal[e.Seq+1:] {
		req, ok := f.Msg.(*fetch.Request)
		if !ok || f.At < e.AnsweredAt {
			continue
		}
		for _, t := range req.Topics {
			for _, p := range t.Partitions {
				if t.Topic == sc.tp(k).Topic && int(p.Partition) == sc.tp(k).Part {
					return p.FetchOffset
				}
			}
		}
	}
	return -1
}

func answeredBefore(c *fk.Cluster, ackSeq int, e *fk.Entry) bool {
	a := c.Journal[ackSeq]
	return a.AnsweredAt < e.AnsweredAt || (a.AnsweredAt == e.AnsweredAt && a.Seq < e.Seq)
}

func keys(m map[int64]bool) []int64 {
	var r []int64
	for k := range m {
		r = append(r, k)
	}
	sort.Slice(r, func(i, j int) bool { return r[i] < r[j] })
	return r
}

func suite(tier string) []qx.SuiteItem {
	b := 2
	if tier == "thorough" {
		b = 3
	}
	cf := []string{"err:27", "err:22", "err:25", "drop"}
	scs := []*scn{
		{name: "one-member-sync-commit-faults", faults: map[protocol.ApiKey][]string{protocol.OffsetCommit: cf, protocol.Heartbeat: {"err:27"}, protocol.Fetch: {"drop", "err:6"}}, bound: b},
		{name: "one-member-interval-commits", interval: 500 * time.Millisecond, faults: map[protocol.ApiKey][]string{protocol.OffsetCommit: cf, protocol.Heartbeat: {"err:27"}}, bound: b},
		{name: "one-member-readmessage", readMsg: true, committed: map[int]int64{0: 1}, faults: map[protocol.ApiKey][]string{protocol.OffsetCommit: {"err:27", "drop"}, protocol.OffsetFetch: {"err:15", "drop"}}, bound: b},
		{name: "second-member-joins-and-leaves", second: true, faults: map[protocol.ApiKey][]string{protocol.OffsetCommit: {"err:27"}}, bound: b},
		{name: "close-vs-sync-commit", closeRace: true, bound: b},
		{name: "two-topics-one-commit-call", twoTopics: true, faults: map[protocol.ApiKey][]string{protocol.OffsetCommit: {"err:27", "drop"}, protocol.Heartbeat: {"err:27"}}, bound: b},
		{name: "resume-with-uncommitted-first-partition", committed: map[int]int64{1: 2}, faults: map[protocol.ApiKey][]string{protocol.Heartbeat: {"err:27"}, protocol.OffsetFetch: {"drop"}}, bound: b},
		{name: "eviction", evict: true, faults: map[protocol.ApiKey][]string{protocol.Heartbeat: {"err:25"}, protocol.JoinGroup: {"err:25"}}, bound: b},
	}
	// the many small scenarios of the fetch-fault class first: the large ones share what is left of the time budget
	// (quick tier: the few cases explored beyond their script come last, so that they are not cut short on a busy machine)
	var items, tail []qx.SuiteItem
	items = append(items, pcSuite(tier)...)
	for _, it := range ffSuite(tier) {
		if tier != "thorough" && it.Bound > 0 {
			tail = append(tail, it)
		} else {
			items = append(items, it)
		}
	}
	for _, s := range scs {
		items = append(items, qx.SuiteItem{Scn: s.scenario(), Bound: s.bound})
	}
	return append(items, tail...)
}

func TestCheck(t *testing.T) {
	qx.RunSuite(t, suite(os.Getenv("VERIF_TIER")))
}
