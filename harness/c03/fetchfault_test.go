package c03

// Scenario class "fetch fault in the middle of an assignment".
//
// One group member owns every partition of topic t (one or two partitions, records 0..2 stored as the batches [0,1] and
// [2]). The broker answers the k-th Fetch request it receives (k = 1..) with a fault that makes the partition reader
// give its connection up and establish its position again (NotLeaderForPartition, UnknownTopicOrPartition, a dropped
// connection, a response cut short) or that it handles in place (OffsetOutOfRange, RequestTimedOut, an error surfaced
// to the application); records are appended to the partition of that Fetch while it is outstanding, right after the
// fault, and once the partition reader has asked again. The case (start offset, committed offset, fault, k, appends) is
// scripted: its steps are the default choices, so that the deviation bound is spent on the orders and the extra events
// (a second fault, a commit or heartbeat answered with RebalanceInProgress, one more record, time passing) around it.
// The scenario ends when the script is through, the member polls at the end of every log and everything it delivered is
// committed; the oracles are those of the other C03 scenarios (judge).

import (
	"context"
	"errors"
	"fmt"
	"io"
	"strings"
	"sync"
	"time"

	kafka "github.com/segmentio/kafka-go"
	"github.com/segmentio/kafka-go/protocol"
	"github.com/segmentio/kafka-go/protocol/fetch"

	"verif/engine/fk"
	"verif/engine/qx"
	"verif/engine/refwire"
)

type ffCase struct {
	parts   int    // partitions of topic t, all assigned to the one member
	last    bool   // StartOffset: LastOffset (else FirstOffset)
	fault   string // answer given to the k-th Fetch request
	k       int    // 1-based ordinal, in arrival order, of the Fetch request that gets the fault
	before  int    // records appended to the partition of that Fetch while it is outstanding, before the fault answer
	between int    // ... right after the fault answer, before the partition reader has asked for anything again
	late    int    // ... once the next Fetch for that partition has arrived
}

// fetchOf returns partition and offset of a (single-partition) Fetch request.
func fetchOf(e *fk.Entry) (part int, off int64, ok bool) {
	req, is := e.Msg.(*fetch.Request)
	if !is || len(req.Topics) != 1 || len(req.Topics[0].Partitions) != 1 {
		return 0, 0, false
	}
	return int(req.Topics[0].Partitions[0].Partition), req.Topics[0].Partitions[0].FetchOffset, true
}

// ffAppend appends n records as one batch to t/p and releases the long polls that were waiting for data there.
func ffAppend(c *fk.Cluster, p, n int) {
	held := c.HeldEntries()
	c.Lock()
	part := c.Part("t", p)
	b := &refwire.Batch{Format: 2, Base: part.End, Last: part.End + int64(n) - 1}
	for i := 0; i < n; i++ {
		o := part.End + int64(i)
		b.Recs = append(b.Recs, refwire.Rec{Offset: o, TS: 1000 + o, Value: []byte(fmt.Sprintf("p%d-%d", p, o))})
	}
	part.Append(b)
	for _, e := range held {
		if pp, off, ok := fetchOf(e); ok && pp == p && e.Held && e.Answer != "stall" && off < part.End {
			e.Held = false
		}
	}
	c.Unlock()
}

func (sc *scn) ffScenario() *qx.Scenario {
	ff := sc.ff
	cfg := qx.Config{Horizon: 150 * time.Second, Quantum: 7 * time.Second, Grace: 12 * time.Second, MaxSteps: 900}
	return &qx.Scenario{Name: sc.name, Cfg: cfg, Body: func(x *qx.Exec) *qx.Outcome {
		c := fk.New(1)
		c.AddTopic("t", ff.parts, nil)
		for p := 0; p < ff.parts; p++ {
			ffAppend(c, p, 2)
			ffAppend(c, p, 1)
		}
		for p, o := range sc.committed {
			c.SetCommitted("g", "t", p, o)
		}
		c.OnEvent = x.Notify
		var mu sync.Mutex
		seq := 0
		var evs []evt
		rec := func(e evt) {
			c.Lock()
			e.J = len(c.Journal)
			c.Unlock()
			mu.Lock()
			seq++
			e.Seq, e.At = seq, x.Now()
			evs = append(evs, e)
			mu.Unlock()
			x.Notify()
		}
		appCtx, appCancel := context.WithCancel(context.Background())
		defer appCancel()
		start := kafka.FirstOffset
		if ff.last {
			start = kafka.LastOffset
		}
		r := kafka.NewReader(kafka.ReaderConfig{Brokers: []string{"b1:9092"}, GroupID: "g", Topic: "t", Dialer: &kafka.Dialer{DialFunc: c.Dial, Timeout: 3 * time.Second},
			MinBytes: 1, MaxBytes: 1 << 20, MaxWait: 200 * time.Millisecond, QueueCapacity: 2, HeartbeatInterval: time.Second, SessionTimeout: 6 * time.Second, RebalanceTimeout: 6 * time.Second,
			JoinGroupBackoff: time.Second, CommitInterval: sc.interval, StartOffset: start, ReadBackoffMin: 50 * time.Millisecond, ReadBackoffMax: 200 * time.Millisecond,
			MaxAttempts: 3, ReadBatchTimeout: 4 * time.Second, RetentionTime: time.Hour})
		x.Go("app-A", func() {
			nerr := 0
			for {
				var m kafka.Message
				var err error
				if sc.readMsg {
					m, err = r.ReadMessage(appCtx)
				} else {
					m, err = r.FetchMessage(appCtx)
				}
				if err != nil {
					// an error of the fetch side (a Kafka error the partition reader passes on) loses nothing: the
					// application asks again. A ReadMessage whose commit failed has swallowed its message: like the
					// applications of the other scenarios this one stops there.
					if errors.Is(err, io.EOF) || appCtx.Err() != nil || strings.Contains(err.Error(), "committing message") || nerr >= 6 {
						rec(evt{Member: "A", Kind: "end", Err: err.Error()})
						return
					}
					nerr++
					rec(evt{Member: "A", Kind: "error", Err: err.Error()})
					continue
				}
				rec(evt{Member: "A", Kind: "deliver", Part: m.Partition, Off: m.Offset})
				rec(evt{Member: "A", Kind: "commit-call", Part: m.Partition, Off: m.Offset})
				if sc.readMsg {
					rec(evt{Member: "A", Kind: "commit-ret", Part: m.Partition, Off: m.Offset})
					continue
				}
				cerr := r.CommitMessages(appCtx, m)
				es := ""
				if cerr != nil {
					es = cerr.Error()
				}
				rec(evt{Member: "A", Kind: "commit-ret", Part: m.Partition, Off: m.Offset, Err: es})
			}
		})
		var target *fk.Entry
		faultDone, stopped := false, false
		done := [3]bool{ff.before == 0, ff.between == 0, ff.late == 0}
		extra := 0
		// drained: the member polls at the end of every log and everything the brokers have served it is committed
		// (served: the log end at the time of the latest Fetch answer that carried records)
		served := map[int]int64{}
		drained := func() bool {
			c.Lock()
			defer c.Unlock()
			g := c.Groups["g"]
			if g == nil {
				return false
			}
			for p := 0; p < ff.parts; p++ {
				polls := int64(-1)
				for _, e := range c.Journal {
					if pp, off, ok := fetchOf(e); ok && pp == p {
						polls = off
					}
				}
				if polls != c.Part("t", p).End {
					return false
				}
				if s, ok := served[p]; ok && g.Offsets[fk.TP{Topic: "t", Part: p}] < s {
					return false
				}
			}
			return true
		}
		answerOK := func(e *fk.Entry) {
			if p, off, ok := fetchOf(e); ok {
				c.Lock()
				if end := c.Part("t", p).End; off < end && end > served[p] {
					served[p] = end
				}
				c.Unlock()
			}
			c.Answer(e, "")
		}
		x.SetEnv(func() []qx.Action {
			var acts []qx.Action
			ps := c.Pending()
			var heldFetch []*fk.Entry
			for _, e := range c.HeldEntries() {
				if e.Key == protocol.Fetch && e.Answer != "stall" {
					heldFetch = append(heldFetch, e)
				}
			}
			c.Lock()
			if target == nil {
				n := 0
				for _, e := range c.Journal {
					if e.Key == protocol.Fetch {
						if n++; n == ff.k {
							target = e
							break
						}
					}
				}
			}
			tpart, asksAgain := 0, false
			if target != nil {
				tpart, _, _ = fetchOf(target)
				for _, e := range c.Journal[target.Seq+1:] {
					if pp, _, ok := fetchOf(e); ok && pp == tpart {
						asksAgain = true
					}
				}
			}
			c.Unlock()
			answerable := false
			for _, e := range append(append([]*fk.Entry{}, ps...), heldFetch...) {
				if e == target {
					answerable = true
				}
			}
			script := func(i int, what string, n int) {
				acts = append(acts, qx.Action{Label: fmt.Sprintf("script:append-%d-to-p%d-%s", n, tpart, what), Do: func() { done[i] = true; ffAppend(c, tpart, n); x.Notify() }})
			}
			// the script: its next step is the default choice
			switch {
			case !faultDone && answerable && !done[0]:
				script(0, "before-the-fault", ff.before)
			case !faultDone && answerable:
				e := target
				acts = append(acts, qx.Action{Label: fmt.Sprintf("script:ans#%d(c%d,api%d):%s", e.Seq, e.Conn, e.Key, ff.fault), Do: func() { faultDone = true; c.Answer(e, ff.fault) }})
			case faultDone && !done[1]:
				script(1, "after-the-fault", ff.between)
			case faultDone && !done[2] && asksAgain:
				script(2, "after-the-next-fetch", ff.late)
			}
			if !stopped && faultDone && done[0] && done[1] && done[2] && drained() {
				acts = append(acts, qx.Action{Label: "stop-all", Do: func() {
					stopped = true
					x.Go("close", func() { r.Close(); appCancel() })
				}})
			}
			for _, e := range ps {
				e := e
				if e == target && !faultDone {
					continue // answered by the script
				}
				acts = append(acts, qx.Action{Label: fmt.Sprintf("ans#%d(c%d,api%d):ok", e.Seq, e.Conn, e.Key), Do: func() { answerOK(e) }})
			}
			return acts
		})
		// around the script (never the default choice, also offered while the system is idle): one more record at any
		// moment, a second fault of the same kind on any other Fetch, outstanding long polls included, a commit or
		// heartbeat that announces a rebalance
		x.SetEnvAlt(func() []qx.Action {
			var acts []qx.Action
			ps := c.Pending()
			var heldFetch []*fk.Entry
			for _, e := range c.HeldEntries() {
				if e.Key == protocol.Fetch && e.Answer != "stall" {
					heldFetch = append(heldFetch, e)
				}
			}
			if !stopped {
				if extra < 1 {
					for p := 0; p < ff.parts; p++ {
						p := p
						acts = append(acts, qx.Action{Label: fmt.Sprintf("append-1-to-p%d", p), Do: func() { extra++; ffAppend(c, p, 1); x.Notify() }})
					}
				}
				for _, e := range append(append([]*fk.Entry{}, ps...), heldFetch...) {
					e := e
					if e == target && !faultDone {
						continue
					}
					switch e.Key {
					case protocol.Fetch:
						acts = append(acts, qx.Action{Label: fmt.Sprintf("ans#%d(c%d,api%d):%s", e.Seq, e.Conn, e.Key, ff.fault), Do: func() { c.Answer(e, ff.fault) }})
					case protocol.OffsetCommit, protocol.Heartbeat:
						acts = append(acts, qx.Action{Label: fmt.Sprintf("ans#%d(c%d,api%d):err:27", e.Seq, e.Conn, e.Key), Do: func() { c.Answer(e, "err:27") }})
					}
				}
			}
			return acts
		})
		st := x.Run()
		if st != qx.StDone {
			go r.Close()
		}
		return sc.judge(x, c, st, &mu, &evs, stopped)
	}}
}

// ffSuite lists the cases of the class. Every case is a scenario of its own, explored whole by one shard.
func ffSuite(tier string) []qx.SuiteItem {
	thorough := tier == "thorough"
	faults := []string{"err:6", "err:3", "drop"}
	plans := [][3]int{{0, 0, 0}, {1, 0, 1}, {0, 1, 1}, {2, 0, 0}}
	maxK := 2
	if thorough {
		// also: a response cut inside its header, and the fetch errors the partition reader handles without giving the
		// connection up (OffsetOutOfRange, RequestTimedOut) or passes on to the application (LeaderNotAvailable)
		faults = append(faults, "cut:12", "err:1", "err:7", "err:5")
		plans = append(plans, [3]int{0, 2, 0}, [3]int{1, 1, 1}, [3]int{2, 0, 1}, [3]int{0, 2, 1})
		maxK = 3
	}
	var items []qx.SuiteItem
	for _, readMsg := range []bool{true, false} {
		for _, parts := range []int{1, 2} {
			for _, last := range []bool{false, true} {
				for _, committed := range []bool{false, true} {
					for _, f := range faults {
						if readMsg && f == "err:5" {
							continue // surfaces through ReadMessage like a failed commit would
						}
						for k := 1; k <= maxK+parts-1; k++ {
							for pi, pl := range plans {
								sc := &scn{readMsg: readMsg, ff: &ffCase{parts: parts, last: last, fault: f, k: k, before: pl[0], between: pl[1], late: pl[2]}}
								mode, so, co := "fetch+commit", "first", "uncommitted"
								if readMsg {
									mode = "readmessage"
								}
								if last {
									so = "last"
								}
								if committed {
									// the committed offset lies inside the first batch; with two partitions only the second has one
									sc.committed = map[int]int64{parts - 1: 1}
									co = "committed"
								}
								sc.name = fmt.Sprintf("fetch-fault:%s,p%d,%s,%s,%s@fetch%d,+%d+%d+%d", mode, parts, so, co, f, k, pl[0], pl[1], pl[2])
								// every case is run along its script; the orders and extra events around the script are
								// explored (one deviation) for the cases with the break-the-connection faults at the first
								// plans (quick: for the first fault position only)
								b := 0
								if f == "err:6" || f == "err:3" || f == "drop" {
									if thorough && pi < 4 || !thorough && pi == 1 && k == 1 && f != "err:3" && parts == 1 {
										b = 1
									}
								}
								sc.bound = b
								items = append(items, qx.SuiteItem{Scn: sc.ffScenario(), Bound: b, Whole: true})
							}
						}
					}
				}
			}
		}
	}
	return items
}
