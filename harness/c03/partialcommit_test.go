package c03

// Scenario class "the coordinator rejects one partition of a commit".
//
// OffsetCommit errors are per partition: a coordinator can record some partitions of a request and reject others
// (OffsetMetadataTooLarge, a coordinator that is still loading or moving, ...). One member owns both partitions of
// topic t (records 0..2 each); its application collects messages until it holds some of both partitions (or all there
// are) and passes them to ONE synchronous CommitMessages call, so that the OffsetCommit request carries two partitions
// of a topic. The first `times` such requests from the `from`-th on are answered with the error code on the idx-th
// partition entry of the request only (fk "err@p<idx>:<code>": that entry is not recorded, the other one is); an
// application whose CommitMessages failed calls it again with the same messages (at most three calls). The case is
// scripted (its steps are the default choices); the deviation bound is spent on the orders and on extra events around it
// (a heartbeat or a whole commit answered with RebalanceInProgress, the partial rejection of another commit request).
// The oracles are those of the other C03 scenarios (judge), which leave a rejected partition entry out of the
// acknowledged commits.

import (
	"context"
	"fmt"
	"sync"
	"time"

	kafka "github.com/segmentio/kafka-go"
	"github.com/segmentio/kafka-go/protocol"
	"github.com/segmentio/kafka-go/protocol/offsetcommit"

	"verif/engine/fk"
	"verif/engine/qx"
	"verif/engine/refwire"
)

type pcCase struct {
	idx   int   // which partition entry of the request is rejected (0: the first one)
	code  int16 // with which error code
	from  int   // 1-based ordinal of the first two-partition OffsetCommit request that is rejected
	times int   // how many consecutive two-partition requests are (1: the Reader's retry goes through, 3: all its attempts fail)
}

func (pc *pcCase) fault() string { return fmt.Sprintf("err@p%d:%d", pc.idx, pc.code) }

// entriesOf counts the partition entries of an OffsetCommit request (0: not an OffsetCommit).
func entriesOf(e *fk.Entry) int {
	req, ok := e.Msg.(*offsetcommit.Request)
	if !ok {
		return 0
	}
	n := 0
	for _, t := range req.Topics {
		n += len(t.Partitions)
	}
	return n
}

func (sc *scn) pcScenario(pc *pcCase) *qx.Scenario {
	cfg := qx.Config{Horizon: 150 * time.Second, Quantum: 7 * time.Second, Grace: 12 * time.Second, MaxSteps: 900}
	return &qx.Scenario{Name: sc.name, Cfg: cfg, Body: func(x *qx.Exec) *qx.Outcome {
		c := fk.New(1)
		c.AddTopic("t", 2, nil)
		for p := 0; p < 2; p++ {
			b := &refwire.Batch{Format: 2, Base: 0, Last: nrec - 1}
			for o := int64(0); o < nrec; o++ {
				b.Recs = append(b.Recs, refwire.Rec{Offset: o, TS: 1000 + o, Value: []byte(fmt.Sprintf("p%d-%d", p, o))})
			}
			c.Part("t", p).Append(b)
		}
		c.OnEvent = x.Notify
		var mu sync.Mutex
		seq := 0
		var evs []evt
		rec := func(e evt) {
			c.Lock()
			e.J = len(c.Journal)
			c.Unlock()
			mu.Lock()
			seq++
			e.Seq, e.At = seq, x.Now()
			evs = append(evs, e)
			mu.Unlock()
			x.Notify()
		}
		appCtx, appCancel := context.WithCancel(context.Background())
		defer appCancel()
		r := kafka.NewReader(kafka.ReaderConfig{Brokers: []string{"b1:9092"}, GroupID: "g", Topic: "t", Dialer: &kafka.Dialer{DialFunc: c.Dial, Timeout: 3 * time.Second},
			MinBytes: 1, MaxBytes: 1 << 20, MaxWait: 200 * time.Millisecond, QueueCapacity: 2, HeartbeatInterval: time.Second, SessionTimeout: 6 * time.Second, RebalanceTimeout: 6 * time.Second,
			JoinGroupBackoff: time.Second, StartOffset: kafka.FirstOffset, ReadBackoffMin: 50 * time.Millisecond, ReadBackoffMax: 200 * time.Millisecond,
			MaxAttempts: 3, ReadBatchTimeout: 4 * time.Second, RetentionTime: time.Hour})
		x.Go("app-A", func() {
			seen := map[[2]int64]bool{}
			for {
				// messages until some of both partitions are held (or every record has been received), then one
				// CommitMessages call for all of them
				var ms []kafka.Message
				has := [2]bool{}
				for !(has[0] && has[1]) && !(len(ms) > 0 && len(seen) == 2*nrec) {
					m, err := r.FetchMessage(appCtx)
					if err != nil {
						rec(evt{Member: "A", Kind: "end", Err: err.Error()})
						return
					}
					rec(evt{Member: "A", Kind: "deliver", Part: m.Partition, Off: m.Offset})
					seen[[2]int64{int64(m.Partition), m.Offset}] = true
					has[m.Partition&1] = true
					ms = append(ms, m)
				}
				for call := 1; ; call++ {
					for _, m := range ms {
						rec(evt{Member: "A", Kind: "commit-call", Part: m.Partition, Off: m.Offset})
					}
					cerr := r.CommitMessages(appCtx, ms...)
					es := ""
					if cerr != nil {
						es = cerr.Error()
					}
					for _, m := range ms {
						rec(evt{Member: "A", Kind: "commit-ret", Part: m.Partition, Off: m.Offset, Err: es})
					}
					if cerr == nil {
						break
					}
					if call == 3 || appCtx.Err() != nil {
						rec(evt{Member: "A", Kind: "end", Err: es})
						return
					}
				}
			}
		})
		stopped := false
		complete := func() bool {
			c.Lock()
			defer c.Unlock()
			g := c.Groups["g"]
			if g == nil {
				return false
			}
			for p := 0; p < 2; p++ {
				if g.Offsets[fk.TP{Topic: "t", Part: p}] < nrec {
					return false
				}
			}
			return true
		}
		// scripted tells whether the script answers e: e is the j-th two-partition OffsetCommit request, from <= j < from+times
		scripted := func(e *fk.Entry) bool {
			if entriesOf(e) < 2 {
				return false
			}
			c.Lock()
			defer c.Unlock()
			j := 0
			for _, o := range c.Journal {
				if entriesOf(o) >= 2 {
					j++
				}
				if o == e {
					break
				}
			}
			return j >= pc.from && j < pc.from+pc.times
		}
		extra := 0
		x.SetEnv(func() []qx.Action {
			var acts []qx.Action
			if !stopped && complete() {
				acts = append(acts, qx.Action{Label: "stop-all", Do: func() {
					stopped = true
					x.Go("close", func() { r.Close(); appCancel() })
				}})
			}
			for _, e := range c.Pending() {
				e := e
				if scripted(e) {
					acts = append(acts, qx.Action{Label: fmt.Sprintf("script:ans#%d(c%d,api%d):%s", e.Seq, e.Conn, e.Key, pc.fault()), Do: func() { c.Answer(e, pc.fault()) }})
					continue
				}
				acts = append(acts, qx.Action{Label: fmt.Sprintf("ans#%d(c%d,api%d):ok", e.Seq, e.Conn, e.Key), Do: func() { c.Answer(e, "") }})
			}
			return acts
		})
		// around the script (never the default choice): one more event out of {the partial rejection of any other
		// commit request with two partitions, a whole commit or a heartbeat answered with RebalanceInProgress}
		x.SetEnvAlt(func() []qx.Action {
			var acts []qx.Action
			if stopped || extra >= 1 {
				return nil
			}
			for _, e := range c.Pending() {
				e := e
				switch {
				case e.Key == protocol.OffsetCommit && !scripted(e):
					if entriesOf(e) >= 2 {
						acts = append(acts, qx.Action{Label: fmt.Sprintf("ans#%d(c%d,api%d):%s", e.Seq, e.Conn, e.Key, pc.fault()), Do: func() { extra++; c.Answer(e, pc.fault()) }})
					}
					acts = append(acts, qx.Action{Label: fmt.Sprintf("ans#%d(c%d,api%d):err:27", e.Seq, e.Conn, e.Key), Do: func() { extra++; c.Answer(e, "err:27") }})
				case e.Key == protocol.Heartbeat:
					acts = append(acts, qx.Action{Label: fmt.Sprintf("ans#%d(c%d,api%d):err:27", e.Seq, e.Conn, e.Key), Do: func() { extra++; c.Answer(e, "err:27") }})
				}
			}
			return acts
		})
		st := x.Run()
		if st != qx.StDone {
			go r.Close()
		}
		return sc.judge(x, c, st, &mu, &evs, stopped)
	}}
}

// pcSuite lists the cases of the class. Every case is a scenario of its own, explored whole by one shard.
func pcSuite(tier string) []qx.SuiteItem {
	thorough := tier == "thorough"
	var items []qx.SuiteItem
	for _, idx := range []int{0, 1} {
		for _, code := range []int16{12, 14, 27} {
			for _, from := range []int{1, 2} {
				for _, times := range []int{1, 2, 3} {
					pc := &pcCase{idx: idx, code: code, from: from, times: times}
					sc := &scn{name: fmt.Sprintf("partial-commit:%s,from-request-%d,x%d", pc.fault(), from, times)}
					// quick: along the script; thorough: one deviation (orders, extra events) around it
					b := 0
					if thorough {
						b = 1
					}
					sc.bound = b
					items = append(items, qx.SuiteItem{Scn: sc.pcScenario(pc), Bound: b, Whole: true})
				}
			}
		}
	}
	return items
}
