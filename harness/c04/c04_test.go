// Package c04: every frame is the canonical Kafka encoding; decoding inverts it.
package c04

import (
	"bytes"
	"fmt"
	"os"
	"path/filepath"
	"reflect"
	"runtime"
	"sort"
	"testing"
	"time"

	_ "github.com/segmentio/kafka-go" // registers every API sub-package the library uses
	"github.com/segmentio/kafka-go/protocol"
	"github.com/segmentio/kafka-go/protocol/produce"

	"verif/engine/refschema"
	"verif/engine/seqx"
)

func goldenPath() string {
	_, f, _, _ := runtime.Caller(0)
	return filepath.Join(filepath.Dir(f), "..", "..", "golden", "schema.json")
}

// TestDumpGolden regenerates golden/schema.json from the struct tags of the tree it is built from.
// It is run by hand once (VERIF_C04_DUMP=1) and the result is reviewed and committed.
func TestDumpGolden(t *testing.T) {
	if os.Getenv("VERIF_C04_DUMP") == "" {
		t.Skip("set VERIF_C04_DUMP=1 to regenerate the golden schema")
	}
	s := &refschema.Schema{Types: map[string][]refschema.Field{}, Note: "pinned wire schema: per message type the ordered fields with version ranges, nullability and tag ids"}
	byKey := map[int16]*refschema.API{}
	for _, vt := range protocol.VerifTypes() {
		a := byKey[int16(vt.Key)]
		if a == nil {
			a = &refschema.API{Key: int16(vt.Key), Req: refschema.TypeName(vt.Req), ReqFlex: -1, ResFlex: -1}
			if vt.Res != nil {
				a.Res = refschema.TypeName(vt.Res)
			}
			byKey[int16(vt.Key)] = a
			refschema.DumpType(s, vt.Req)
			if vt.Res != nil {
				refschema.DumpType(s, vt.Res)
			}
		}
		a.Versions = append(a.Versions, vt.Version)
		if vt.ReqFlexible && (a.ReqFlex < 0 || vt.Version < a.ReqFlex) {
			a.ReqFlex = vt.Version
		}
		if vt.ResFlexible && (a.ResFlex < 0 || vt.Version < a.ResFlex) {
			a.ResFlex = vt.Version
		}
	}
	for _, a := range byKey {
		s.APIs = append(s.APIs, *a)
	}
	if err := s.Save(goldenPath()); err != nil {
		t.Fatal(err)
	}
	t.Logf("wrote %d apis, %d types", len(s.APIs), len(s.Types))
}

func encodeReq(ver int16, corr int32, client string, m protocol.Message) ([]byte, error) {
	var buf bytes.Buffer
	err := protocol.WriteRequest(&buf, ver, corr, client, m)
	return buf.Bytes(), err
}

func encodeRes(ver int16, corr int32, m protocol.Message) ([]byte, error) {
	var buf bytes.Buffer
	err := protocol.WriteResponse(&buf, ver, corr, m)
	return buf.Bytes(), err
}

var sentinel = []byte{0, 0, 0, 10, 0, 18, 0, 0, 0, 0, 0, 99, 0xff, 0xff} // ApiVersions v0 request, correlation 99, null client id

func firstDiff(a, b []byte) int {
	for i := 0; i < len(a) && i < len(b); i++ {
		if a[i] != b[i] {
			return i
		}
	}
	if len(a) != len(b) {
		return min(len(a), len(b))
	}
	return -1
}

func TestCheck(t *testing.T) {
	s := seqx.New(t)
	sch, err := refschema.Load(goldenPath())
	if err != nil {
		t.Fatal(err)
	}
	thorough := os.Getenv("VERIF_TIER") == "thorough"
	_ = thorough
	vts := protocol.VerifTypes()
	sort.Slice(vts, func(i, j int) bool {
		if vts[i].Key != vts[j].Key {
			return vts[i].Key < vts[j].Key
		}
		return vts[i].Version < vts[j].Version
	})

	for _, side := range []string{"request", "response"} {
		s.Begin(side + "-frames-vs-reference")
		for _, vt := range vts {
			typ := vt.Req
			if side == "response" {
				typ = vt.Res
			}
			if typ == nil {
				continue
			}
			api := sch.API(int16(vt.Key))
			pinned := api != nil && containsVer(api.Versions, vt.Version) && ((side == "request" && api.Req == refschema.TypeName(typ)) || (side == "response" && api.Res == refschema.TypeName(typ)))
			custom := pinned && sch.HasCustom(refschema.TypeName(typ), vt.Version)
			base := refschema.Populate(typ)
			var leaves []refschema.Leaf
			refschema.Leaves(base, "", &leaves)
			// deviation 0 = baseline, then every leaf through its alphabet
			type dev struct {
				path string
				set  func(v reflect.Value)
			}
			devs := []dev{{"baseline", func(reflect.Value) {}}}
			for li, l := range leaves {
				for ai := range refschema.Alternatives(l) {
					li, ai := li, ai
					devs = append(devs, dev{fmt.Sprintf("%s#%d", l.Path, ai), func(v reflect.Value) {
						var ls []refschema.Leaf
						refschema.Leaves(v, "", &ls)
						ls[li].V.Set(refschema.Alternatives(ls[li])[ai])
					}})
				}
			}
			for _, d := range devs {
				if s.TimeUp() {
					break
				}
				vt, d, typ := vt, d, typ
				id := fmt.Sprintf("%s api%d v%d %s", side, vt.Key, vt.Version, d.path)
				s.Case(id, id, func() (string, *seqx.Viol) {
					val := refschema.Populate(typ)
					d.set(val)
					msg := val.Addr().Interface().(protocol.Message)
					var got []byte
					var err error
					if side == "request" {
						got, err = encodeReq(vt.Version, 77, "cid", msg)
					} else {
						got, err = encodeRes(vt.Version, 77, msg)
					}
					key := fmt.Sprintf("api%d:%s", vt.Key, side[:3])
					if err != nil {
						return key + ":encode-error", nil // e.g. produce without records; not a framing matter
					}
					// 1. framing
					if len(got) < 8 || int(int32(uint32(got[0])<<24|uint32(got[1])<<16|uint32(got[2])<<8|uint32(got[3]))) != len(got)-4 {
						return key, &seqx.Viol{Sig: "size-prefix:" + key, Msg: fmt.Sprintf("%s: size prefix does not equal the %d bytes that follow", id, len(got)-4)}
					}
					// 2. reference encoding
					if pinned && !custom {
						var ref []byte
						var rerr error
						if side == "request" {
							ref, _, rerr = sch.Request(int16(vt.Key), vt.Version, 77, "cid", val, -1)
						} else {
							ref, _, rerr = sch.Response(int16(vt.Key), vt.Version, 77, val, -1)
						}
						if rerr != nil {
							return key, &seqx.Viol{Sig: "reference-error", Msg: rerr.Error()}
						}
						if !bytes.Equal(got, ref) {
							i := firstDiff(got, ref)
							return key, &seqx.Viol{Sig: fmt.Sprintf("encoding-differs:api%d:%s", vt.Key, side), Msg: fmt.Sprintf("%s: %d bytes written, canonical encoding has %d, first difference at byte %d (got % x..., want % x...)", id, len(got), len(ref), i, tail(got, i), tail(ref, i))}
						}
					} else if !pinned {
						key += ":unpinned"
					}
					// 3. inversion: decode, re-encode, exactly one frame consumed
					stream := append(append([]byte{}, got...), sentinel...)
					rd := bytes.NewReader(stream)
					var back protocol.Message
					if side == "request" {
						ver, corr, client, m, derr := protocol.ReadRequest(rd)
						if derr != nil || ver != vt.Version || corr != 77 || client != "cid" {
							return key, &seqx.Viol{Sig: "decode-failed:" + key, Msg: fmt.Sprintf("%s: ReadRequest of the library's own bytes: ver=%d corr=%d client=%q err=%v", id, ver, corr, client, derr)}
						}
						back = m
					} else {
						corr, m, derr := protocol.ReadResponse(rd, vt.Key, vt.Version)
						if derr != nil || corr != 77 {
							return key, &seqx.Viol{Sig: "decode-failed:" + key, Msg: fmt.Sprintf("%s: ReadResponse of the library's own bytes: corr=%d err=%v", id, corr, derr)}
						}
						back = m
					}
					if rd.Len() != len(sentinel) {
						return key, &seqx.Viol{Sig: "frame-consumption:" + key, Msg: fmt.Sprintf("%s: decoding left %d bytes unread, the next frame has %d", id, rd.Len(), len(sentinel))}
					}
					if !custom && !hasCustomGo(typ) {
						var again []byte
						if side == "request" {
							again, err = encodeReq(vt.Version, 77, "cid", back)
						} else {
							again, err = encodeRes(vt.Version, 77, back)
						}
						if err != nil || !bytes.Equal(again, got) {
							return key, &seqx.Viol{Sig: "not-inverse:" + key, Msg: fmt.Sprintf("%s: decode(encode(v)) re-encodes differently (err=%v, first difference at %d)", id, err, firstDiff(again, got))}
						}
					}
					// 4. unknown tagged fields are skipped (flexible versions, reference-encoded)
					flex := (side == "request" && vt.ReqFlexible) || (side == "response" && vt.ResFlexible)
					if pinned && !custom && flex && d.path == "baseline" {
						var ref []byte
						if side == "request" {
							ref, _, _ = sch.Request(int16(vt.Key), vt.Version, 77, "cid", val, 999)
						} else {
							ref, _, _ = sch.Response(int16(vt.Key), vt.Version, 77, val, 999)
						}
						rd := bytes.NewReader(append(append([]byte{}, ref...), sentinel...))
						var m2 protocol.Message
						var derr error
						if side == "request" {
							_, _, _, m2, derr = protocol.ReadRequest(rd)
						} else {
							_, m2, derr = protocol.ReadResponse(rd, vt.Key, vt.Version)
						}
						if derr != nil || rd.Len() != len(sentinel) {
							return key, &seqx.Viol{Sig: "unknown-tag-not-skipped:" + key, Msg: fmt.Sprintf("%s with an unknown tagged field: err=%v, %d bytes left", id, derr, rd.Len())}
						}
						var again []byte
						if side == "request" {
							again, _ = encodeReq(vt.Version, 77, "cid", m2)
						} else {
							again, _ = encodeRes(vt.Version, 77, m2)
						}
						if !bytes.Equal(again, got) {
							return key, &seqx.Viol{Sig: "unknown-tag-changes-value:" + key, Msg: id + ": values decoded next to an unknown tagged field differ"}
						}
					}
					return key, nil
				})
			}
		}
	}
	legacy(t, s, thorough)
	largeFrames(s, thorough)
	fieldSizes(s, sch, vts, thorough)
	s.Finish()
}

func tail(b []byte, i int) []byte {
	if i < 0 || i >= len(b) {
		return nil
	}
	j := i + 8
	if j > len(b) {
		j = len(b)
	}
	return b[i:j]
}

func containsVer(l []int16, v int16) bool {
	for _, x := range l {
		if x == v {
			return true
		}
	}
	return false
}

func hasCustomGo(t reflect.Type) bool {
	if t.Kind() == reflect.Slice {
		return t.Elem().Kind() != reflect.Uint8 && hasCustomGo(t.Elem())
	}
	if t.Kind() != reflect.Struct {
		return false
	}
	if _, ok := reflect.PointerTo(t).MethodByName("WriteTo"); ok {
		return true
	}
	for i := 0; i < t.NumField(); i++ {
		if hasCustomGo(t.Field(i).Type) {
			return true
		}
	}
	return false
}

// largeFrames: produce requests larger than one 64 KiB page of the encoder's buffer, with the first record's value
// sized so that the second partition's batch header (v7) or the second message's header (v2) lands on every byte
// position around the page boundary. The frame must carry a truthful size prefix and decode back to the records.
func largeFrames(s *seqx.Suite, thorough bool) {
	s.Begin("large-produce-frames-around-the-page-boundary")
	step := 1
	if !thorough {
		step = 2
	}
	mk := func(vals ...[]byte) protocol.RecordSet {
		var rs []protocol.Record
		for i, v := range vals {
			rs = append(rs, protocol.Record{Offset: int64(i), Time: time.UnixMilli(1700000000000 + int64(i)), Key: protocol.NewBytes([]byte{byte('a' + i)}), Value: protocol.NewBytes(v)})
		}
		return protocol.RecordSet{Version: 0, Records: protocol.NewRecordReader(rs...)}
	}
	for _, ver := range []int16{2, 7} {
		for sz := 65536 - 200; sz <= 65536+20; sz += step {
			ver, sz := ver, sz
			id := fmt.Sprintf("produce v%d first value %d bytes", ver, sz)
			s.Case(id, id, func() (string, *seqx.Viol) {
				big := bytes.Repeat([]byte{7}, sz)
				format := int8(2)
				if ver < 3 {
					format = 1
				}
				p0, p1 := mk(big, []byte("tail")), mk([]byte("x"), []byte("yy"))
				p0.Version, p1.Version = format, format
				req := &produce.Request{Acks: -1, Timeout: 1000, Topics: []produce.RequestTopic{{Topic: "t", Partitions: []produce.RequestPartition{{Partition: 0, RecordSet: p0}, {Partition: 1, RecordSet: p1}}}}}
				frame, err := encodeReq(ver, 5, "cid", req)
				if err != nil {
					return "encode-error", &seqx.Viol{Sig: "large-frame:encode", Msg: err.Error()}
				}
				if int(int32(uint32(frame[0])<<24|uint32(frame[1])<<16|uint32(frame[2])<<8|uint32(frame[3]))) != len(frame)-4 {
					return "size", &seqx.Viol{Sig: "large-frame:size-prefix", Msg: id + ": size prefix does not equal the bytes that follow"}
				}
				_, _, _, back, derr := protocol.ReadRequest(bytes.NewReader(frame))
				if derr != nil {
					return "decode-error", &seqx.Viol{Sig: "large-frame:not-decodable", Msg: fmt.Sprintf("%s: the library's own frame (%d bytes) does not decode: %v", id, len(frame), derr)}
				}
				want := [][][]byte{{big, []byte("tail")}, {[]byte("x"), []byte("yy")}}
				pr := back.(*produce.Request)
				if len(pr.Topics) != 1 || len(pr.Topics[0].Partitions) != 2 {
					return "shape", &seqx.Viol{Sig: "large-frame:shape", Msg: id + ": topics/partitions lost"}
				}
				for pi, part := range pr.Topics[0].Partitions {
					for ri := 0; ; ri++ {
						rec, err := part.RecordSet.Records.ReadRecord()
						if err != nil {
							if ri != len(want[pi]) {
								return "records", &seqx.Viol{Sig: "large-frame:records-lost", Msg: fmt.Sprintf("%s: partition %d decodes to %d records, %d were written (%v)", id, pi, ri, len(want[pi]), err)}
							}
							break
						}
						if ri >= len(want[pi]) {
							return "records", &seqx.Viol{Sig: "large-frame:records-extra", Msg: fmt.Sprintf("%s: partition %d decodes to more records than were written", id, pi)}
						}
						val, _ := protocol.ReadAll(rec.Value)
						if !bytes.Equal(val, want[pi][ri]) || rec.Time.UnixMilli() != 1700000000000+int64(ri) {
							return "records", &seqx.Viol{Sig: "large-frame:record-differs", Msg: fmt.Sprintf("%s: partition %d record %d decodes to %d value bytes at %d ms (written: %d bytes at %d ms)", id, pi, ri, len(val), rec.Time.UnixMilli(), len(want[pi][ri]), 1700000000000+int64(ri))}
						}
					}
				}
				return fmt.Sprintf("v%d", ver), nil
			})
		}
	}
}
