package c04

import (
	"bytes"
	"fmt"
	"testing"

	kafka "github.com/segmentio/kafka-go"
	"github.com/segmentio/kafka-go/protocol"

	"verif/engine/bub"
	"verif/engine/fk"
	"verif/engine/seqx"
	"verif/harness/connops"
	"verif/harness/hx"
)

// legacy Conn codec: every request frame the hand-written codec emits is captured at the fake
// broker: announced size = bytes written, decodable by protocol.ReadRequest, version within the
// range the broker advertised.
func legacy(t *testing.T, s *seqx.Suite) {
	s.Begin("legacy-conn-frames")
	ops := connops.Ops()
	// produce requests whose sizes sit on varint boundaries (size pre-computation of the hand-written codec)
	for _, n := range []int{0, 1, 63, 64, 65, 127, 128, 8191, 8192, 8255, 8256, 16383, 16384} {
		for _, pv := range []int16{2, 3, 7} {
			n, pv := n, pv
			ops = append(ops, connops.Op{Name: fmt.Sprintf("produce-v%d-value%d", pv, n), Key: protocol.Produce, Vers: map[protocol.ApiKey]fk.VRange{protocol.Produce: {0, pv}},
				Run: func(c *kafka.Conn) (string, error) {
					msgs := []kafka.Message{{Key: make([]byte, n%70), Value: make([]byte, n), Headers: []kafka.Header{{Key: "h", Value: make([]byte, n%130)}}}, {Value: []byte("x")}}
					_, err := c.WriteMessages(msgs...)
					return "", err
				}})
		}
	}
	for _, count := range []int{64, 65, 66, 129} {
		count := count
		ops = append(ops, connops.Op{Name: fmt.Sprintf("produce-v7-%dmessages", count), Key: protocol.Produce,
			Run: func(c *kafka.Conn) (string, error) {
				var msgs []kafka.Message
				for i := 0; i < count; i++ {
					msgs = append(msgs, kafka.Message{Value: []byte("v")})
				}
				_, err := c.WriteMessages(msgs...)
				return "", err
			}})
	}
	tables := []map[protocol.ApiKey]fk.VRange{nil,
		{protocol.Produce: {0, 2}, protocol.Fetch: {0, 2}, protocol.Metadata: {0, 1}, protocol.JoinGroup: {0, 1}},
		{protocol.Produce: {0, 3}, protocol.Fetch: {0, 5}, protocol.Metadata: {0, 6}},
		{protocol.Produce: {0, 9}, protocol.Fetch: {0, 13}, protocol.Metadata: {0, 12}, protocol.JoinGroup: {0, 9}, protocol.ListOffsets: {0, 7}}}
	for i := range ops {
		for ti, tab := range tables {
			o := &ops[i]
			tab, ti := tab, ti
			id := fmt.Sprintf("%s versions#%d", o.Name, ti)
			s.Case(id, id, func() (string, *seqx.Viol) {
				var v *seqx.Viol
				key := o.Name
				br := bub.Run(t, 0, func() {
					c := hx.NewCluster()
					c.AcceptAnyVersion = true
					if tab != nil {
						vs := hx.Versions(tab)
						c.Versions = map[int]map[protocol.ApiKey]fk.VRange{1: vs, 2: vs}
					}
					conn, cid := hx.Conn(c, "t", 0)
					if tab == nil && o.Vers != nil {
						vs := hx.Versions(o.Vers)
						c.Versions = map[int]map[protocol.ApiKey]fk.VRange{1: vs, 2: vs}
					}
					o.Run(conn)
					conn.Close()
					c.Lock()
					defer c.Unlock()
					// the client's byte stream must parse into exactly the journalled frames
					stream := c.ClientBytes(cid)
					total := 0
					for _, e := range c.Journal {
						if e.Conn != cid {
							continue
						}
						total += 4 + len(e.Raw)
						adv := c.VersionsOf(e.Broker)[e.Key]
						if e.Version > adv.Max || e.Version < adv.Min {
							v = &seqx.Viol{Sig: "legacy-version:" + o.Name, Msg: fmt.Sprintf("%s sent api %d at version %d, the broker advertised [%d,%d]", o.Name, e.Key, e.Version, adv.Min, adv.Max)}
						}
						if e.DecodeErr != "" {
							v = &seqx.Viol{Sig: "legacy-undecodable:" + o.Name, Msg: fmt.Sprintf("%s: request api %d v%d is not decodable by the protocol package: %s", o.Name, e.Key, e.Version, e.DecodeErr)}
						}
						if e.ProdErr != "" {
							v = &seqx.Viol{Sig: "legacy-produce:" + o.Name, Msg: e.ProdErr}
						}
					}
					if total != len(stream) {
						v = &seqx.Viol{Sig: "legacy-size-prefix:" + o.Name, Msg: fmt.Sprintf("%s: the connection carried %d bytes but the size prefixes of its %d-byte frames add up to %d", o.Name, len(stream), total, total)}
					}
				})
				if br.Panic != "" {
					return "panic", &seqx.Viol{Sig: "panic", Msg: br.Panic}
				}
				return key, v
			})
		}
	}
}

var _ = bytes.Equal
