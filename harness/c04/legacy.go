package c04

import (
	"bytes"
	"context"
	"fmt"
	"strings"
	"testing"
	"time"

	kafka "github.com/segmentio/kafka-go"
	"github.com/segmentio/kafka-go/protocol"
	"github.com/segmentio/kafka-go/protocol/produce"

	"verif/engine/bub"
	"verif/engine/fk"
	"verif/engine/seqx"
	"verif/harness/connops"
	"verif/harness/hx"
)

// legacy Conn codec: every request frame the hand-written codec emits is captured at the fake
// broker: announced size = bytes written, decodable by protocol.ReadRequest, version within the
// range the broker advertised.
func legacy(t *testing.T, s *seqx.Suite, thorough bool) {
	s.Begin("legacy-conn-frames")
	ops := connops.Ops()
	// produce requests whose sizes sit on varint boundaries (size pre-computation of the hand-written codec)
	for _, n := range []int{0, 1, 63, 64, 65, 127, 128, 8191, 8192, 8255, 8256, 16383, 16384} {
		for _, pv := range []int16{2, 3, 7} {
			n, pv := n, pv
			ops = append(ops, connops.Op{Name: fmt.Sprintf("produce-v%d-value%d", pv, n), Key: protocol.Produce, Vers: map[protocol.ApiKey]fk.VRange{protocol.Produce: {0, pv}},
				Run: func(c *kafka.Conn) (string, error) {
					msgs := []kafka.Message{{Key: make([]byte, n%70), Value: make([]byte, n), Headers: []kafka.Header{{Key: "h", Value: make([]byte, n%130)}}}, {Value: []byte("x")}}
					_, err := c.WriteMessages(msgs...)
					return "", err
				}})
		}
	}
	for _, count := range []int{64, 65, 66, 129} {
		count := count
		ops = append(ops, connops.Op{Name: fmt.Sprintf("produce-v7-%dmessages", count), Key: protocol.Produce,
			Run: func(c *kafka.Conn) (string, error) {
				var msgs []kafka.Message
				for i := 0; i < count; i++ {
					msgs = append(msgs, kafka.Message{Value: []byte("v")})
				}
				_, err := c.WriteMessages(msgs...)
				return "", err
			}})
	}
	tables := []map[protocol.ApiKey]fk.VRange{nil,
		{protocol.Produce: {0, 2}, protocol.Fetch: {0, 2}, protocol.Metadata: {0, 1}, protocol.JoinGroup: {0, 1}},
		{protocol.Produce: {0, 3}, protocol.Fetch: {0, 5}, protocol.Metadata: {0, 6}},
		{protocol.Produce: {0, 9}, protocol.Fetch: {0, 13}, protocol.Metadata: {0, 12}, protocol.JoinGroup: {0, 9}, protocol.ListOffsets: {0, 7}}}
	for i := range ops {
		for ti, tab := range tables {
			o := &ops[i]
			tab := tab
			id := fmt.Sprintf("%s versions#%d", o.Name, ti)
			s.Case(id, id, func() (string, *seqx.Viol) { return legacyCase(t, o, tab, nil) })
		}
	}
	legacyConfig(t, s, connops.Ops(), tables, thorough)
}

// legacyCase runs one operation on a fresh Conn (cfg == nil: the usual ClientID "verif", no transactional id) against a
// cluster advertising the version table and judges every frame the connection carried.
func legacyCase(t *testing.T, o *connops.Op, tab map[protocol.ApiKey]fk.VRange, cfg *kafka.ConnConfig) (string, *seqx.Viol) {
	{
		{
			{
				var v *seqx.Viol
				key := o.Name
				br := bub.Run(t, 0, func() {
					c := hx.NewCluster()
					c.AcceptAnyVersion = true
					if tab != nil {
						vs := hx.Versions(tab)
						c.Versions = map[int]map[protocol.ApiKey]fk.VRange{1: vs, 2: vs}
					}
					var conn *kafka.Conn
					var cid int
					if cfg == nil {
						conn, cid = hx.Conn(c, "t", 0)
					} else {
						nc, err := c.Dial(context.Background(), "tcp", "b1:9092")
						if err != nil {
							panic(err)
						}
						cid = len(c.Conns) - 1
						conn = kafka.NewConnWith(nc, *cfg)
						conn.SetDeadline(time.Now().Add(10 * time.Second))
					}
					if tab == nil && o.Vers != nil {
						vs := hx.Versions(o.Vers)
						c.Versions = map[int]map[protocol.ApiKey]fk.VRange{1: vs, 2: vs}
					}
					o.Run(conn)
					conn.Close()
					c.Lock()
					defer c.Unlock()
					// the client's byte stream must parse into exactly the journalled frames
					stream := c.ClientBytes(cid)
					total := 0
					for _, e := range c.Journal {
						if e.Conn != cid {
							continue
						}
						total += 4 + len(e.Raw)
						adv := c.VersionsOf(e.Broker)[e.Key]
						if e.Version > adv.Max || e.Version < adv.Min {
							v = &seqx.Viol{Sig: "legacy-version:" + o.Name, Msg: fmt.Sprintf("%s sent api %d at version %d, the broker advertised [%d,%d]", o.Name, e.Key, e.Version, adv.Min, adv.Max)}
						}
						if e.DecodeErr != "" {
							v = &seqx.Viol{Sig: "legacy-undecodable:" + o.Name, Msg: fmt.Sprintf("%s: request api %d v%d is not decodable by the protocol package: %s", o.Name, e.Key, e.Version, e.DecodeErr)}
						}
						if e.ProdErr != "" {
							v = &seqx.Viol{Sig: "legacy-produce:" + o.Name, Msg: e.ProdErr}
						}
						if cfg != nil && e.DecodeErr == "" {
							// the header carries the client id, a produce request of version 3..8 the transactional id of the Conn
							wantID := cfg.ClientID
							if wantID == "" {
								wantID = kafka.DefaultClientID // documented: an empty ConnConfig.ClientID means the default one
							}
							if e.ClientID != wantID {
								v = &seqx.Viol{Sig: "legacy-client-id:" + o.Name, Msg: fmt.Sprintf("%s: request api %d v%d carries a client id of %d bytes, the Conn uses one of %d bytes", o.Name, e.Key, e.Version, len(e.ClientID), len(wantID))}
							}
							if pr, ok := e.Msg.(*produce.Request); ok && e.Version >= 3 && pr.TransactionalID != cfg.TransactionalID {
								v = &seqx.Viol{Sig: "legacy-transactional-id:" + o.Name, Msg: fmt.Sprintf("%s: produce v%d carries transactional id %.20q (%d bytes), the Conn was configured with %.20q (%d bytes)", o.Name, e.Version, pr.TransactionalID, len(pr.TransactionalID), cfg.TransactionalID, len(cfg.TransactionalID))}
							}
						}
					}
					if total != len(stream) {
						v = &seqx.Viol{Sig: "legacy-size-prefix:" + o.Name, Msg: fmt.Sprintf("%s: the connection carried %d bytes but the size prefixes of its %d-byte frames add up to %d", o.Name, len(stream), total, total)}
					}
				})
				if br.Panic != "" {
					return "panic", &seqx.Viol{Sig: "panic", Msg: br.Panic}
				}
				if v != nil && cfg != nil {
					v.Msg += fmt.Sprintf(" (ConnConfig: ClientID of %d bytes, TransactionalID of %d bytes)", len(cfg.ClientID), len(cfg.TransactionalID))
				}
				return key, v
			}
		}
	}
}

// legacyConfig varies what the usual sweep keeps fixed and what feeds the size pre-computation of the hand-written
// codec: the transactional id of the Conn (null, 1, 10, 300 bytes) x the produce version the broker's advertisement
// makes the Conn pick (max 2 -> v2; 3, 5, 6 -> v3; 7, 9 -> v7) x message shapes x compressed or not, and the client
// id ("" = the default one, 1 byte, 300 bytes) for every operation of the Conn.
func legacyConfig(t *testing.T, s *seqx.Suite, ops []connops.Op, tables []map[protocol.ApiKey]fk.VRange, thorough bool) {
	s.Begin("legacy-conn-config")
	long := func(n int) string { return strings.Repeat("abcdefghij", n/10) }
	shapes := []struct {
		name string
		msgs []kafka.Message
	}{
		{"kvh+v", []kafka.Message{{Key: []byte("k"), Value: make([]byte, 65), Headers: []kafka.Header{{Key: "h", Value: []byte("hv")}}}, {Value: []byte("x")}}},
		{"empty", []kafka.Message{{}}},
		{"3msgs", []kafka.Message{{Value: make([]byte, 127)}, {Key: make([]byte, 64)}, {Value: []byte("z")}}},
	}
	clientIDs := []string{"verif"}
	if thorough {
		clientIDs = []string{"verif", "", long(300)}
	}
	for _, txn := range []string{"", "t", long(10), long(300)} {
		for _, pv := range []int16{2, 3, 5, 6, 7, 9} {
			for si, sh := range shapes {
				for _, codec := range []string{"none", "gzip"} {
					if !thorough && (si == 2 || codec == "gzip" && si != 0) {
						continue
					}
					for _, clid := range clientIDs {
						msgs, codec := sh.msgs, codec
						o := &connops.Op{Name: fmt.Sprintf("produce-max%d-%s-%s", pv, sh.name, codec), Key: protocol.Produce,
							Run: func(c *kafka.Conn) (string, error) {
								var err error
								if codec == "gzip" {
									_, err = c.WriteCompressedMessages(kafka.Gzip.Codec(), msgs...)
								} else {
									_, err = c.WriteMessages(msgs...)
								}
								if err == nil {
									// a second request on the same connection: a wrong size prefix of the first one shifts it
									_, err = c.WriteMessages(kafka.Message{Value: []byte("second")})
								}
								return "", err
							}}
						cfg := &kafka.ConnConfig{ClientID: clid, Topic: "t", Partition: 0, TransactionalID: txn}
						tab := map[protocol.ApiKey]fk.VRange{protocol.Produce: {0, pv}}
						id := fmt.Sprintf("%s txn=%dB client=%dB", o.Name, len(txn), len(clid))
						s.Case(id, id, func() (string, *seqx.Viol) { return legacyCase(t, o, tab, cfg) })
					}
				}
			}
		}
	}
	// every operation with a client id that is absent, one byte, or longer than a byte can count
	for i := range ops {
		for ti, tab := range tables {
			if !thorough && ti != 0 && ti != 1 {
				continue
			}
			for _, clid := range []string{"", "c", long(300)} {
				o := &ops[i]
				tab := tab
				if tab == nil && o.Vers != nil {
					tab = o.Vers
				}
				cfg := &kafka.ConnConfig{ClientID: clid, Topic: "t", Partition: 0}
				id := fmt.Sprintf("%s versions#%d client=%dB", o.Name, ti, len(clid))
				s.Case(id, id, func() (string, *seqx.Viol) { return legacyCase(t, o, tab, cfg) })
			}
		}
	}
}

var _ = bytes.Equal
