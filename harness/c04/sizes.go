package c04

import (
	"bufio"
	"bytes"
	"fmt"
	"io"
	"reflect"

	"github.com/segmentio/kafka-go/protocol"

	"verif/engine/refschema"
	"verif/engine/seqx"
)

// Sizes around the internal thresholds of the reflection codec.
//
// The codec treats values differently depending on their size:
//   - protocol/decode.go read(n): values of more than maxPrealloc (16 KiB) bytes are copied through a growing
//     buffer instead of one allocation made from the length prefix;
//   - protocol/decode.go readArray: arrays of more than 1+maxPrealloc/(1+sizeof(element)) elements start with that
//     many elements and are doubled while their elements arrive;
//   - protocol/buffer.go: the encoder writes into 64 KiB pages, a value larger than what is left of the page is split;
//   - the compact (flexible version) length prefixes are varints of length+1: 1 byte up to 126, 2 bytes up to 16382,
//     3 bytes up to 2097150; classic strings carry an int16 length (at most 32767).
//
// Every string / byte-sequence position of every registered message type and version is therefore moved through the
// sizes just below, on and just above each of these thresholds, every array position through the element counts around
// its own preallocation limit and its doublings, and every byte-sequence position through all sizes that put the
// fields following it on each offset around the page boundary. The oracle is the one of the main enumeration:
// byte-equality with the reference encoder, decode + re-encode identity, exactly one frame consumed; the decoded
// position is also compared with the value that was encoded. Decoding runs through a plain reader, through bufio
// readers (4 KiB and 64 KiB: the decoder uses Discard there) and through a reader that returns at most 1448 bytes
// per call (TCP segments).
const (
	codecMaxPrealloc = 16 * 1024 // protocol/decode.go maxPrealloc
	codecPageSize    = 65536     // protocol/buffer.go pageSize
)

// position-dependent contents: a shifted, truncated, repeated or zero-filled value differs from the original.
func patternString(n int) string {
	b := make([]byte, n)
	for i := range b {
		b[i] = byte('!' + (i+i/89+i/7919)%90)
	}
	return string(b)
}

func patternBytes(n int) []byte {
	b := make([]byte, n)
	for i := range b {
		b[i] = byte(1 + (i+i/251+i/63001)%255) // never zero
	}
	return b
}

type chunkReader struct {
	r io.Reader
	n int
}

func (c *chunkReader) Read(b []byte) (int, error) {
	if len(b) > c.n {
		b = b[:c.n]
	}
	return c.r.Read(b)
}

var sizeReaders = []struct {
	name string
	mk   func(stream []byte) io.Reader
}{
	{"plain", func(b []byte) io.Reader { return bytes.NewReader(b) }},
	{"bufio4k", func(b []byte) io.Reader { return bufio.NewReader(bytes.NewReader(b)) }},
	{"bufio64k", func(b []byte) io.Reader { return bufio.NewReaderSize(bytes.NewReader(b), 65536) }},
	{"segments", func(b []byte) io.Reader { return &chunkReader{bytes.NewReader(b), 1448} }},
}

type sizeTarget struct {
	side    string
	vt      protocol.VerifType
	typ     reflect.Type
	pinned  bool
	custom  bool
	flex    bool
	li      int // index of the position in refschema.Leaves of the populated value
	path    string
	kind    string // string, bytes, array
	elemSz  int    // arrays: reflect size of the element type
	classic bool   // strings: int16 length (not flexible)
}

func sizeTargets(sch *refschema.Schema, vts []protocol.VerifType) []sizeTarget {
	var out []sizeTarget
	for _, side := range []string{"request", "response"} {
		for _, vt := range vts {
			typ := vt.Req
			if side == "response" {
				typ = vt.Res
			}
			if typ == nil {
				continue
			}
			api := sch.API(int16(vt.Key))
			pinned := api != nil && containsVer(api.Versions, vt.Version) && ((side == "request" && api.Req == refschema.TypeName(typ)) || (side == "response" && api.Res == refschema.TypeName(typ)))
			custom := pinned && sch.HasCustom(refschema.TypeName(typ), vt.Version)
			flex := (side == "request" && vt.ReqFlexible) || (side == "response" && vt.ResFlexible)
			var leaves []refschema.Leaf
			refschema.Leaves(refschema.Populate(typ), "", &leaves)
			for li, l := range leaves {
				tg := sizeTarget{side: side, vt: vt, typ: typ, pinned: pinned, custom: custom, flex: flex, li: li, path: l.Path, classic: !flex}
				switch {
				case l.V.Kind() == reflect.String:
					tg.kind = "string"
				case l.V.Kind() == reflect.Slice && l.V.Type().Elem().Kind() == reflect.Uint8:
					tg.kind = "bytes"
				case l.V.Kind() == reflect.Slice:
					tg.kind = "array"
					tg.elemSz = int(l.V.Type().Elem().Size())
				default:
					continue
				}
				out = append(out, tg)
			}
		}
	}
	return out
}

// markField finds the position that makes an array element distinguishable from its neighbours: the first integer or
// string found in it (not through a nested array: those are shared between the elements).
func markField(v reflect.Value) (reflect.Value, bool) {
	switch v.Kind() {
	case reflect.Int8, reflect.Int16, reflect.Int32, reflect.Int64, reflect.String:
		return v, true
	case reflect.Struct:
		if _, own := reflect.PointerTo(v.Type()).MethodByName("WriteTo"); own {
			return v, false
		}
		for k := 0; k < v.NumField(); k++ {
			if v.Type().Field(k).PkgPath != "" {
				continue
			}
			if f, ok := markField(v.Field(k)); ok {
				return f, true
			}
		}
	}
	return v, false
}

func markElem(v reflect.Value, i int) {
	f, ok := markField(v)
	if !ok {
		return
	}
	switch f.Kind() {
	case reflect.Int8:
		f.SetInt(int64(i % 127))
	case reflect.Int16:
		f.SetInt(int64(i % 32767))
	case reflect.Int32, reflect.Int64:
		f.SetInt(int64(i))
	case reflect.String:
		f.SetString(fmt.Sprintf("e%d", i))
	}
}

func bigArray(leaf reflect.Value, n int) reflect.Value {
	proto := leaf.Index(0)
	s := reflect.MakeSlice(leaf.Type(), n, n)
	for i := 0; i < n; i++ {
		s.Index(i).Set(proto)
		markElem(s.Index(i), i)
	}
	return s
}

// sizeCase encodes the populated value of tg's type with `set` applied to position tg.li and checks the C04 oracle.
// n is the size (bytes or elements) of the value placed there.
func sizeCase(sch *refschema.Schema, tg sizeTarget, id string, n int, set func(leaf reflect.Value)) (string, *seqx.Viol) {
	vt, side := tg.vt, tg.side
	val := refschema.Populate(tg.typ)
	var ls []refschema.Leaf
	refschema.Leaves(val, "", &ls)
	set(ls[tg.li].V)
	want := ls[tg.li].V
	msg := val.Addr().Interface().(protocol.Message)
	encode := func(m protocol.Message) ([]byte, error) {
		if side == "request" {
			return encodeReq(vt.Version, 77, "cid", m)
		}
		return encodeRes(vt.Version, 77, m)
	}
	key := fmt.Sprintf("api%d:%s:%s", vt.Key, side[:3], tg.kind)
	got, err := encode(msg)
	if err != nil {
		return key + ":encode-error", nil // e.g. produce without records; not a framing matter
	}
	if len(got) < 8 || int(int32(uint32(got[0])<<24|uint32(got[1])<<16|uint32(got[2])<<8|uint32(got[3]))) != len(got)-4 {
		return key, &seqx.Viol{Sig: "size-prefix:" + key, Msg: fmt.Sprintf("%s: size prefix does not equal the %d bytes that follow", id, len(got)-4)}
	}
	if tg.pinned && !tg.custom {
		var ref []byte
		var rerr error
		if side == "request" {
			ref, _, rerr = sch.Request(int16(vt.Key), vt.Version, 77, "cid", val, -1)
		} else {
			ref, _, rerr = sch.Response(int16(vt.Key), vt.Version, 77, val, -1)
		}
		if rerr != nil {
			return key, &seqx.Viol{Sig: "reference-error", Msg: rerr.Error()}
		}
		if !bytes.Equal(got, ref) {
			i := firstDiff(got, ref)
			return key, &seqx.Viol{Sig: fmt.Sprintf("encoding-differs:api%d:%s", vt.Key, side), Msg: fmt.Sprintf("%s: %d bytes written, canonical encoding has %d, first difference at byte %d (got % x..., want % x...)", id, len(got), len(ref), i, tail(got, i), tail(ref, i))}
		}
	} else if !tg.pinned {
		key += ":unpinned"
	}
	// the position travels in this version when the frame grew by the value put there
	present := false
	if n >= 64 {
		if base, berr := encode(refschema.Populate(tg.typ).Addr().Interface().(protocol.Message)); berr == nil {
			present = len(got) >= len(base)+n-16
		}
	}
	stream := append(append([]byte{}, got...), sentinel...)
	for _, rdk := range sizeReaders {
		rd := rdk.mk(stream)
		var back protocol.Message
		if side == "request" {
			ver, corr, client, m, derr := protocol.ReadRequest(rd)
			if derr != nil || ver != vt.Version || corr != 77 || client != "cid" {
				return key, &seqx.Viol{Sig: "decode-failed:" + key, Msg: fmt.Sprintf("%s (%s reader): ReadRequest of the canonical bytes: ver=%d corr=%d client=%q err=%v", id, rdk.name, ver, corr, client, derr)}
			}
			back = m
		} else {
			corr, m, derr := protocol.ReadResponse(rd, vt.Key, vt.Version)
			if derr != nil || corr != 77 {
				return key, &seqx.Viol{Sig: "decode-failed:" + key, Msg: fmt.Sprintf("%s (%s reader): ReadResponse of the canonical bytes: corr=%d err=%v", id, rdk.name, corr, derr)}
			}
			back = m
		}
		rest, _ := io.ReadAll(rd)
		if !bytes.Equal(rest, sentinel) {
			return key, &seqx.Viol{Sig: "frame-consumption:" + key, Msg: fmt.Sprintf("%s (%s reader): decoding left %d bytes unread, the next frame has %d", id, rdk.name, len(rest), len(sentinel))}
		}
		// the decoded position against the value that was encoded
		var bl []refschema.Leaf
		refschema.Leaves(reflect.ValueOf(back).Elem(), "", &bl)
		leafMsg := ""
		if tg.li < len(bl) && bl[tg.li].Path == tg.path {
			leafMsg = leafDiff(tg.kind, want, bl[tg.li].V)
		} else {
			leafMsg = "the position is missing from the decoded value"
		}
		if present && leafMsg != "" {
			return key, &seqx.Viol{Sig: "value-differs:" + side + ":" + tg.kind, Msg: fmt.Sprintf("%s (%s reader): %s decodes differently: %s", id, rdk.name, tg.path, leafMsg)}
		}
		if !tg.custom && !hasCustomGo(tg.typ) {
			again, err := encode(back)
			if err != nil || !bytes.Equal(again, got) {
				if leafMsg != "" {
					leafMsg = "; " + tg.path + ": " + leafMsg
				}
				return key, &seqx.Viol{Sig: "not-inverse:" + key, Msg: fmt.Sprintf("%s (%s reader): decode(encode(v)) re-encodes differently (err=%v, first difference at %d of %d/%d bytes%s)", id, rdk.name, err, firstDiff(again, got), len(again), len(got), leafMsg)}
			}
		}
	}
	if !present {
		key += ":absent-or-small"
	}
	return key, nil
}

// leafDiff describes how the decoded position differs from the encoded one ("" when it does not).
func leafDiff(kind string, want, got reflect.Value) string {
	switch kind {
	case "string":
		w, g := want.String(), got.String()
		if w != g {
			return fmt.Sprintf("%d bytes were encoded, %d bytes decoded, first difference at byte %d (decoded %q..., encoded %q...)", len(w), len(g), firstDiff([]byte(g), []byte(w)), tail([]byte(g), firstDiff([]byte(g), []byte(w))), tail([]byte(w), firstDiff([]byte(g), []byte(w))))
		}
	case "bytes":
		w, g := want.Bytes(), got.Bytes()
		if !bytes.Equal(w, g) {
			i := firstDiff(g, w)
			return fmt.Sprintf("%d bytes were encoded, %d bytes decoded, first difference at byte %d (decoded % x..., encoded % x...)", len(w), len(g), i, tail(g, i), tail(w, i))
		}
	case "array":
		if want.Len() != got.Len() {
			return fmt.Sprintf("%d elements were encoded, %d elements decoded", want.Len(), got.Len())
		}
		for i := 0; i < want.Len(); i++ {
			a, ok := markField(want.Index(i))
			b, _ := markField(got.Index(i))
			if ok && a.Interface() != b.Interface() {
				return fmt.Sprintf("element %d of %d decodes with %v where %v was encoded", i, want.Len(), b.Interface(), a.Interface())
			}
		}
	}
	return ""
}

func fieldSizes(s *seqx.Suite, sch *refschema.Schema, vts []protocol.VerifType, thorough bool) {
	targets := sizeTargets(sch, vts)

	// 1. value sizes
	strSizes := []int{0, 1, 126, 127, 128, codecMaxPrealloc - 2, codecMaxPrealloc - 1, codecMaxPrealloc, codecMaxPrealloc + 1, 32767}
	byteSizes := append(append([]int{}, strSizes...), 32768, codecPageSize-1, codecPageSize, codecPageSize+1, 2*codecPageSize+1)
	if thorough {
		strSizes = append(strSizes, 2, 255, 256)
		byteSizes = append(byteSizes, 2, 255, 256, 2*codecMaxPrealloc+1, 3*codecPageSize, 2097150, 2097151, 2097152)
	}
	s.Begin("field-sizes-around-codec-thresholds")
	for _, tg := range targets {
		if tg.kind == "array" {
			continue
		}
		sizes := strSizes
		if tg.kind == "bytes" {
			sizes = byteSizes
		}
		for _, n := range sizes {
			if s.TimeUp() {
				break
			}
			tg, n := tg, n
			id := fmt.Sprintf("%s api%d v%d %s %s of %d bytes", tg.side, tg.vt.Key, tg.vt.Version, tg.path, tg.kind, n)
			s.Case(id, id, func() (string, *seqx.Viol) {
				return sizeCase(sch, tg, id, n, func(leaf reflect.Value) {
					if tg.kind == "string" {
						leaf.SetString(patternString(n))
					} else {
						leaf.SetBytes(patternBytes(n))
					}
				})
			})
		}
	}

	// 2. element counts around the preallocation limit of readArray and its doublings
	s.Begin("array-lengths-around-the-preallocation-limit")
	for _, tg := range targets {
		if tg.kind != "array" {
			continue
		}
		limit := 1 + codecMaxPrealloc/(1+tg.elemSz)
		counts := []int{limit - 1, limit, limit + 1, 2*limit - 1, 2 * limit, 2*limit + 1}
		if thorough {
			counts = append(counts, 3*limit, 4*limit-1, 4*limit, 4*limit+1)
		}
		for _, n := range counts {
			if s.TimeUp() {
				break
			}
			tg, n := tg, n
			id := fmt.Sprintf("%s api%d v%d %s array of %d elements (limit %d)", tg.side, tg.vt.Key, tg.vt.Version, tg.path, n, limit)
			s.Case(id, id, func() (string, *seqx.Viol) {
				return sizeCase(sch, tg, id, n, func(leaf reflect.Value) { leaf.Set(bigArray(leaf, n)) })
			})
		}
	}

	// 3. byte sequences that put the fields following them on every offset around the page boundary of the encoder
	s.Begin("byte-fields-around-the-page-boundary")
	lo, hi := codecPageSize-160, codecPageSize+8
	for _, tg := range targets {
		if tg.kind != "bytes" {
			continue
		}
		// quick: the newest and the oldest version of each API; thorough: every version
		if !thorough && !edgeVersion(vts, tg.vt) {
			continue
		}
		for n := lo; n <= hi; n++ {
			if s.TimeUp() {
				break
			}
			tg, n := tg, n
			id := fmt.Sprintf("%s api%d v%d %s bytes of %d bytes", tg.side, tg.vt.Key, tg.vt.Version, tg.path, n)
			s.Case(id, id, func() (string, *seqx.Viol) {
				return sizeCase(sch, tg, id, n, func(leaf reflect.Value) { leaf.SetBytes(patternBytes(n)) })
			})
		}
	}
}

func edgeVersion(vts []protocol.VerifType, vt protocol.VerifType) bool {
	lo, hi := vt.Version, vt.Version
	for _, o := range vts {
		if o.Key == vt.Key {
			if o.Version < lo {
				lo = o.Version
			}
			if o.Version > hi {
				hi = o.Version
			}
		}
	}
	return vt.Version == lo || vt.Version == hi
}
