package c05

import (
	"context"
	"fmt"
	"testing"
	"time"

	kafka "github.com/segmentio/kafka-go"
	"github.com/segmentio/kafka-go/protocol"

	"verif/engine/bub"
	"verif/engine/refwire"
	"verif/engine/seqx"
	"verif/harness/clientops"
	"verif/harness/hx"
)

// aliasing: every sequence (length <= 5) over {fetch A, fetch B, read next record of A, read next of B,
// close A's records, close B's records}: bytes read from a record always equal what is stored.
func aliasing(t *testing.T, s *seqx.Suite, thorough bool) {
	s.Begin("fetched-bytes-stay-intact-until-released")
	ops := []string{"fetchA", "fetchB", "readA", "readB", "closeA", "closeB"}
	maxLen := 5
	if thorough {
		maxLen = 6
	}
	var seqs [][]int
	var gen func(cur []int)
	gen = func(cur []int) {
		if len(cur) > 0 {
			seqs = append(seqs, append([]int(nil), cur...))
		}
		if len(cur) == maxLen {
			return
		}
		for i := range ops {
			gen(append(cur, i))
		}
	}
	gen(nil)
	for _, sq := range seqs {
		// only sequences that start with a fetch and contain a read are interesting
		if sq[0] > 1 {
			continue
		}
		hasRead := false
		for _, o := range sq {
			hasRead = hasRead || o == 2 || o == 3
		}
		if !hasRead {
			continue
		}
		sq := sq
		id := ""
		for _, o := range sq {
			id += ops[o] + ","
		}
		s.Case(id, id, func() (string, *seqx.Viol) {
			var v *seqx.Viol
			br := bub.Run(t, 0, func() {
				c := hx.NewCluster()
				c.AddTopic("a", 1, nil)
				c.AddTopic("b", 1, nil)
				for ti, tn := range []string{"a", "b"} {
					p := c.Part(tn, 0)
					b := &refwire.Batch{Format: 2, Base: 0, Last: 2}
					for o := int64(0); o < 3; o++ {
						val := make([]byte, 40000)
						for i := range val {
							val[i] = byte(ti*100) + byte(o) + byte(i%251)
						}
						b.Recs = append(b.Recs, refwire.Rec{Offset: o, TS: 1, Key: []byte(fmt.Sprintf("%s-key-%d", tn, o)), Value: val})
					}
					p.Append(b)
				}
				cl, tr := clientops.NewClient(c)
				defer tr.CloseIdleConnections()
				type st struct {
					rr   kafka.RecordReader
					next int
					held []*kafka.Record
				}
				state := map[string]*st{"a": {}, "b": {}}
				check := func(tn string, o int, k, val []byte) {
					want := c.Part(tn, 0).Log[0].Recs[o]
					if string(k) != string(want.Key) || string(val) != string(want.Value) {
						v = &seqx.Viol{Sig: "aliasing:bytes-changed", Msg: fmt.Sprintf("record %s/%d read after %s: key %q, value differs from the stored one=%v", tn, o, id, k, string(val) != string(want.Value))}
					}
				}
				for _, o := range sq {
					tn := "a"
					if o%2 == 1 {
						tn = "b"
					}
					x := state[tn]
					switch ops[o][:4] {
					case "fetc":
						r, err := cl.Fetch(context.Background(), &kafka.FetchRequest{Topic: tn, Partition: 0, Offset: 0, MinBytes: 1, MaxBytes: 1 << 22, MaxWait: 50 * time.Millisecond})
						if err != nil {
							v = &seqx.Viol{Sig: "aliasing:fetch-failed", Msg: err.Error()}
							return
						}
						x.rr, x.next = r.Records, 0
					case "read":
						if x.rr == nil || x.next >= 3 {
							continue
						}
						rec, err := x.rr.ReadRecord()
						if err != nil {
							continue
						}
						// keep the record: its bytes are read now AND re-read later through a second handle
						k, _ := protocol.ReadAll(rec.Key)
						val, _ := protocol.ReadAll(rec.Value)
						check(tn, int(rec.Offset), k, val)
						x.next++
					case "clos":
						if x.rr != nil {
							if cl, ok := x.rr.(interface{ Close() error }); ok {
								cl.Close()
							}
							x.rr = nil
						}
					}
					if v != nil {
						return
					}
				}
			})
			if br.Panic != "" {
				return "panic", &seqx.Viol{Sig: "panic:aliasing", Msg: br.Panic}
			}
			return fmt.Sprint(len(sq)), v
		})
	}
}

// heldRecords: records are taken from a fetched record set and kept; their keys and values are read or released
// later, in any order, while other fetches go on. Every sequence (length <= 5, thorough 6) over
// {fetch X, take all records of X, read the oldest unread held record of X, release the oldest held record of X}
// for two topics; the first record of each topic has a null key and an EMPTY (non-null) value, the others
// small payloads, so that all of them share one page of the decoder's buffer pool.
func heldRecords(t *testing.T, s *seqx.Suite, thorough bool) {
	s.Begin("held-records-stay-intact-until-released")
	ops := []string{"fetchA", "fetchB", "takeA", "takeB", "readA", "readB", "releaseA", "releaseB"}
	maxLen := 5
	if thorough {
		maxLen = 6
	}
	var seqs [][]int
	var gen func(cur []int)
	gen = func(cur []int) {
		if len(cur) > 0 {
			seqs = append(seqs, append([]int(nil), cur...))
		}
		if len(cur) == maxLen {
			return
		}
		for i := range ops {
			gen(append(cur, i))
		}
	}
	gen(nil)
	for _, sq := range seqs {
		// sequences that start with a fetch, take something and end with a read
		if sq[0] > 1 || ops[sq[len(sq)-1]][:4] != "read" {
			continue
		}
		takes := false
		for _, o := range sq {
			takes = takes || ops[o][:4] == "take"
		}
		if !takes {
			continue
		}
		sq := sq
		id := ""
		for _, o := range sq {
			id += ops[o] + ","
		}
		s.Case(id, id, func() (string, *seqx.Viol) {
			var v *seqx.Viol
			nreads := 0
			br := bub.Run(t, 0, func() {
				c := hx.NewCluster()
				c.AddTopic("a", 1, nil)
				c.AddTopic("b", 1, nil)
				for ti, tn := range []string{"a", "b"} {
					b := &refwire.Batch{Format: 2, Base: 0, Last: 2}
					b.Recs = append(b.Recs, refwire.Rec{Offset: 0, TS: 1, Key: nil, Value: []byte{}})
					b.Recs = append(b.Recs, refwire.Rec{Offset: 1, TS: 1, Key: nil, Value: []byte(fmt.Sprintf("%s-payload-one-%d", tn, ti))})
					if tn == "b" {
						// topic a: the empty value's only neighbour is one keyless record (a single page reference)
						b.Recs = append(b.Recs, refwire.Rec{Offset: 2, TS: 1, Key: []byte(tn + "-key"), Value: []byte(fmt.Sprintf("%s-payload-two-%d", tn, ti))})
					} else {
						b.Last = 1
					}
					c.Part(tn, 0).Append(b)
				}
				cl, tr := clientops.NewClient(c)
				defer tr.CloseIdleConnections()
				type held struct {
					rec  *kafka.Record
					read bool
				}
				type st struct {
					rr   kafka.RecordReader
					held []*held
				}
				state := map[string]*st{"a": {}, "b": {}}
				for _, o := range sq {
					tn := "a"
					if o%2 == 1 {
						tn = "b"
					}
					x := state[tn]
					switch ops[o][:4] {
					case "fetc":
						r, err := cl.Fetch(context.Background(), &kafka.FetchRequest{Topic: tn, Partition: 0, Offset: 0, MinBytes: 1, MaxBytes: 1 << 20, MaxWait: 50 * time.Millisecond})
						if err != nil {
							v = &seqx.Viol{Sig: "held:fetch-failed", Msg: err.Error()}
							return
						}
						x.rr = r.Records
					case "take":
						for x.rr != nil {
							rec, err := x.rr.ReadRecord()
							if err != nil {
								x.rr = nil
								break
							}
							cp := *rec // the Record is only valid until the next ReadRecord: the program keeps a copy
							x.held = append(x.held, &held{rec: &cp})
						}
					case "read":
						for _, h := range x.held {
							if h.read {
								continue
							}
							h.read = true
							nreads++
							var k, val []byte
							if h.rec.Key != nil {
								k, _ = protocol.ReadAll(h.rec.Key)
							}
							if h.rec.Value != nil {
								val, _ = protocol.ReadAll(h.rec.Value)
							}
							want := c.Part(tn, 0).Log[0].Recs[h.rec.Offset]
							if string(k) != string(want.Key) || string(val) != string(want.Value) {
								v = &seqx.Viol{Sig: "held:bytes-changed", Msg: fmt.Sprintf("record %s/%d, held since it was fetched, reads key %q value %q after %s; stored: key %q value %q", tn, h.rec.Offset, k, val, id, want.Key, want.Value)}
								return
							}
							break
						}
					case "rele":
						if len(x.held) > 0 {
							h := x.held[0]
							x.held = x.held[1:]
							if h.rec.Key != nil {
								h.rec.Key.Close()
							}
							if h.rec.Value != nil {
								h.rec.Value.Close()
							}
						}
					}
				}
			})
			if br.Panic != "" {
				return "panic", &seqx.Viol{Sig: "panic:held", Msg: br.Panic}
			}
			return fmt.Sprint(len(sq), nreads > 0), v
		})
	}
}
