package c05

import (
	"context"
	"fmt"
	"testing"
	"time"

	kafka "github.com/segmentio/kafka-go"
	"github.com/segmentio/kafka-go/protocol"

	"verif/engine/bub"
	"verif/engine/refwire"
	"verif/engine/seqx"
	"verif/harness/clientops"
	"verif/harness/hx"
)

// aliasing: every sequence (length <= 5) over {fetch A, fetch B, read next record of A, read next of B,
// close A's records, close B's records}: bytes read from a record always equal what is stored.
func aliasing(t *testing.T, s *seqx.Suite, thorough bool) {
	s.Begin("fetched-bytes-stay-intact-until-released")
	ops := []string{"fetchA", "fetchB", "readA", "readB", "closeA", "closeB"}
	maxLen := 5
	if thorough {
		maxLen = 6
	}
	var seqs [][]int
	var gen func(cur []int)
	gen = func(cur []int) {
		if len(cur) > 0 {
			seqs = append(seqs, append([]int(nil), cur...))
		}
		if len(cur) == maxLen {
			return
		}
		for i := range ops {
			gen(append(cur, i))
		}
	}
	gen(nil)
	for _, sq := range seqs {
		// only sequences that start with a fetch and contain a read are interesting
		if sq[0] > 1 {
			continue
		}
		hasRead := false
		for _, o := range sq {
			hasRead = hasRead || o == 2 || o == 3
		}
		if !hasRead {
			continue
		}
		sq := sq
		id := ""
		for _, o := range sq {
			id += ops[o] + ","
		}
		s.Case(id, id, func() (string, *seqx.Viol) {
			var v *seqx.Viol
			br := bub.Run(t, 0, func() {
				c := hx.NewCluster()
				c.AddTopic("a", 1, nil)
				c.AddTopic("b", 1, nil)
				for ti, tn := range []string{"a", "b"} {
					p := c.Part(tn, 0)
					b := &refwire.Batch{Format: 2, Base: 0, Last: 2}
					for o := int64(0); o < 3; o++ {
						val := make([]byte, 40000)
						for i := range val {
							val[i] = byte(ti*100) + byte(o) + byte(i%251)
						}
						b.Recs = append(b.Recs, refwire.Rec{Offset: o, TS: 1, Key: []byte(fmt.Sprintf("%s-key-%d", tn, o)), Value: val})
					}
					p.Append(b)
				}
				cl, tr := clientops.NewClient(c)
				defer tr.CloseIdleConnections()
				type st struct {
					rr   kafka.RecordReader
					next int
					held []*kafka.Record
				}
				state := map[string]*st{"a": {}, "b": {}}
				check := func(tn string, o int, k, val []byte) {
					want := c.Part(tn, 0).Log[0].Recs[o]
					if string(k) != string(want.Key) || string(val) != string(want.Value) {
						v = &seqx.Viol{Sig: "aliasing:bytes-changed", Msg: fmt.Sprintf("record %s/%d read after %s: key %q, value differs from the stored one=%v", tn, o, id, k, string(val) != string(want.Value))}
					}
				}
				for _, o := range sq {
					tn := "a"
					if o%2 == 1 {
						tn = "b"
					}
					x := state[tn]
					switch ops[o][:4] {
					case "fetc":
						r, err := cl.Fetch(context.Background(), &kafka.FetchRequest{Topic: tn, Partition: 0, Offset: 0, MinBytes: 1, MaxBytes: 1 << 22, MaxWait: 50 * time.Millisecond})
						if err != nil {
							v = &seqx.Viol{Sig: "aliasing:fetch-failed", Msg: err.Error()}
							return
						}
						x.rr, x.next = r.Records, 0
					case "read":
						if x.rr == nil || x.next >= 3 {
							continue
						}
						rec, err := x.rr.ReadRecord()
						if err != nil {
							continue
						}
						// keep the record: its bytes are read now AND re-read later through a second handle
						k, _ := protocol.ReadAll(rec.Key)
						val, _ := protocol.ReadAll(rec.Value)
						check(tn, int(rec.Offset), k, val)
						x.next++
					case "clos":
						if x.rr != nil {
							if cl, ok := x.rr.(interface{ Close() error }); ok {
								cl.Close()
							}
							x.rr = nil
						}
					}
					if v != nil {
						return
					}
				}
			})
			if br.Panic != "" {
				return "panic", &seqx.Viol{Sig: "panic:aliasing", Msg: br.Panic}
			}
			return fmt.Sprint(len(sq)), v
		})
	}
}
