// Package c05: record batches. Produce side: records handed to Client.Produce
// (Transport) and to Conn.WriteCompressedMessages reach the fake broker as bytes
// that an independent strict decoder (engine/refwire) accepts and that carry the
// same records. Consume side: batches encoded by refwire are decoded identically
// by Client.Fetch and by Conn.ReadBatch. Aliasing: bytes handed out by
// Client.Fetch stay intact until released while other responses are decoded.
package c05

import (
	"bytes"
	"context"
	"fmt"
	"io"
	"os"
	"strings"
	"testing"
	"time"

	kafka "github.com/segmentio/kafka-go"
	"github.com/segmentio/kafka-go/protocol"

	"verif/engine/bub"
	"verif/engine/fk"
	"verif/engine/refwire"
	"verif/engine/seqx"
	"verif/harness/clientops"
	"verif/harness/hx"
)

type shape struct {
	name     string
	key, val []byte
}

func big(n int, seed byte) []byte {
	b := make([]byte, n)
	for i := range b {
		b[i] = seed + byte(i*7)
	}
	return b
}

func shapes(thorough bool) []shape {
	s := []shape{
		{"nullkey", nil, []byte("a")},
		{"empties", []byte{}, []byte{}},
		{"nullval", []byte("k"), nil},
		{"varint-boundary", big(64, 1), big(8192, 2)},
		{"63-8191", big(63, 3), big(8191, 4)},
	}
	if thorough {
		s = append(s, shape{"70KiB", []byte("k"), big(70*1024, 5)}, shape{"65-8256", big(65, 6), big(8256, 7)})
	}
	return s
}

type rec struct {
	key, val []byte
	headers  []kafka.Header
	t        time.Time
}

var t0 = time.Date(2024, 5, 1, 10, 0, 0, 0, time.UTC)

func mkLists(thorough bool) map[string][]rec {
	out := map[string][]rec{}
	sh := shapes(thorough)
	var lists [][]int
	for i := range sh {
		lists = append(lists, []int{i})
		for j := range sh {
			lists = append(lists, []int{i, j})
		}
	}
	lists = append(lists, []int{0, 1, 2}, []int{3, 3, 3}, []int{0, 1, 2, 3}, []int{2, 2, 0, 0})
	var l65 []int
	for i := 0; i < 66; i++ {
		l65 = append(l65, i%3)
	}
	lists = append(lists, l65) // offset delta 64 and 65
	hmodes := []string{"nohdr", "1hdr", "2hdr"}
	tmodes := []string{"zero", "ms", "subms", "decreasing", "delta64"}
	for _, l := range lists {
		for _, hm := range hmodes {
			for _, tm := range tmodes {
				if len(l) > 4 && (hm != "nohdr" || tm == "subms") {
					continue
				}
				var rs []rec
				name := ""
				for i, si := range l {
					r := rec{key: sh[si].key, val: sh[si].val}
					name += sh[si].name + ","
					switch hm {
					case "1hdr":
						r.headers = []kafka.Header{{Key: "h", Value: []byte("x")}}
					case "2hdr":
						r.headers = []kafka.Header{{Key: "a", Value: nil}, {Key: "", Value: []byte{}}}
					}
					switch tm {
					case "ms":
						r.t = t0.Add(time.Duration(i) * 3 * time.Millisecond)
					case "subms":
						// fractions decrease from record to record
						r.t = t0.Add(time.Duration(i)*1500*time.Microsecond + time.Duration(900-300*i)*time.Microsecond)
					case "decreasing":
						r.t = t0.Add(-time.Duration(i) * 5 * time.Millisecond)
					case "delta64":
						r.t = t0.Add(time.Duration(i) * 64 * time.Millisecond)
					}
					rs = append(rs, r)
				}
				if len(name) > 60 {
					name = fmt.Sprintf("%d-records", len(l))
				}
				out[fmt.Sprintf("[%s]%s/%s", strings.TrimSuffix(name, ","), hm, tm)] = rs
			}
		}
	}
	return out
}

func ms(t time.Time) int64 {
	if t.IsZero() {
		return 0
	}
	return t.UnixMilli()
}

func sameBytes(a, b []byte) bool { return (a == nil) == (b == nil) && bytes.Equal(a, b) }

func short(b []byte) string {
	if b == nil {
		return "null"
	}
	if len(b) > 8 {
		return fmt.Sprintf("%d bytes", len(b))
	}
	return fmt.Sprintf("%q", b)
}

// checkProduced compares what the broker decoded with what was submitted.
func checkProduced(path string, c *fk.Cluster, in []rec, wantHeaders bool, connNow int64) *seqx.Viol {
	c.Lock()
	defer c.Unlock()
	var pe *fk.Entry
	for _, e := range c.Journal {
		if e.Key == protocol.Produce {
			pe = e
		}
	}
	if pe == nil {
		return &seqx.Viol{Sig: path + ":no-produce-request", Msg: "no produce request reached the broker"}
	}
	if pe.ProdErr != "" {
		return &seqx.Viol{Sig: path + ":invalid-batch", Msg: fmt.Sprintf("the record set of the produce request (v%d) is rejected by the reference decoder: %s", pe.Version, pe.ProdErr)}
	}
	var got []refwire.Rec
	for _, b := range pe.Batches {
		for i, r := range b.Recs {
			if b.Format == 2 && r.Offset != b.Base+int64(len(got)) && false {
				_ = i
			}
			got = append(got, r)
		}
		if b.Format == 2 && (b.Base != 0 || b.Last != int64(len(b.Recs))-1) {
			return &seqx.Viol{Sig: path + ":offset-deltas", Msg: fmt.Sprintf("v2 batch base=%d lastOffsetDelta=%d for %d records", b.Base, b.Last-b.Base, len(b.Recs))}
		}
	}
	if len(got) != len(in) {
		return &seqx.Viol{Sig: path + ":record-count", Msg: fmt.Sprintf("submitted %d records, the request carries %d", len(in), len(got))}
	}
	for i := range in {
		g, w := got[i], in[i]
		if !sameBytes(g.Key, w.key) {
			return &seqx.Viol{Sig: path + ":key", Msg: fmt.Sprintf("record %d key: sent %s, submitted %s", i, short(g.Key), short(w.key))}
		}
		if !sameBytes(g.Value, w.val) {
			return &seqx.Viol{Sig: path + ":value", Msg: fmt.Sprintf("record %d value: sent %s, submitted %s", i, short(g.Value), short(w.val))}
		}
		wt := ms(w.t)
		if w.t.IsZero() && connNow != 0 {
			wt = connNow
		}
		if w.t.IsZero() {
			wt = g.TS // a zero Time lets the library or the broker choose the timestamp
		}
		if g.TS != wt {
			return &seqx.Viol{Sig: path + ":timestamp", Msg: fmt.Sprintf("record %d timestamp: sent %d ms, submitted %d ms (%v)", i, g.TS, wt, w.t.Format("15:04:05.000000"))}
		}
		if wantHeaders {
			if len(g.Headers) != len(w.headers) {
				return &seqx.Viol{Sig: path + ":headers", Msg: fmt.Sprintf("record %d: %d headers sent, %d submitted", i, len(g.Headers), len(w.headers))}
			}
			for j := range w.headers {
				if g.Headers[j].Key != w.headers[j].Key || !bytes.Equal(g.Headers[j].Value, w.headers[j].Value) {
					return &seqx.Viol{Sig: path + ":headers", Msg: fmt.Sprintf("record %d header %d differs", i, j)}
				}
			}
		}
	}
	return nil
}

var codecNames = []string{"none", "gzip", "snappy", "lz4", "zstd"}

func TestCheck(t *testing.T) {
	s := seqx.New(t)
	thorough := os.Getenv("VERIF_TIER") == "thorough"
	lists := mkLists(thorough)
	var names []string
	for n := range lists {
		names = append(names, n)
	}
	sortStrings(names)
	ctx := context.Background()

	s.Begin("produce-client-transport")
	for _, n := range names {
		for _, pv := range []int16{2, 3, 7} {
			for codec := 0; codec < 5; codec++ {
				if !thorough && codec > 1 && (len(n)+int(pv))%3 != 0 {
					continue
				}
				if s.TimeUp() {
					break
				}
				n, pv, codec := n, pv, codec
				id := fmt.Sprintf("%s produce-v%d %s", n, pv, codecNames[codec])
				s.Case(id, id, func() (string, *seqx.Viol) {
					var v *seqx.Viol
					br := bub.Run(t, 0, func() {
						c := hx.NewCluster()
						vs := hx.Versions(map[protocol.ApiKey]fk.VRange{protocol.Produce: {0, pv}})
						c.Versions = map[int]map[protocol.ApiKey]fk.VRange{1: vs, 2: vs}
						cl, tr := clientops.NewClient(c)
						defer tr.CloseIdleConnections()
						var rs []kafka.Record
						for _, r := range lists[n] {
							rs = append(rs, kafka.Record{Key: kafka.NewBytes(r.key), Value: kafka.NewBytes(r.val), Headers: r.headers, Time: r.t})
						}
						res, err := cl.Produce(ctx, &kafka.ProduceRequest{Topic: "t", Partition: 0, RequiredAcks: kafka.RequireAll, Compression: kafka.Compression(codec), Records: kafka.NewRecordReader(rs...)})
						if err != nil || res.Error != nil {
							v = &seqx.Viol{Sig: "client:produce-failed", Msg: fmt.Sprint(err, res)}
							return
						}
						v = checkProduced("client", c, lists[n], pv >= 3, 0)
					})
					if br.Panic != "" {
						return "panic", &seqx.Viol{Sig: "panic:client-produce", Msg: br.Panic}
					}
					return fmt.Sprintf("v%d/%s", pv, codecNames[codec]), v
				})
			}
		}
	}

	// frames larger than one 64 KiB page of the encoder's buffer: the first value is sized so that the header of the
	// following message / the fields patched after the content land on every byte position around the page boundary
	s.Begin("produce-page-boundary-sweep")
	step := 1
	if !thorough {
		step = 2
	}
	for _, pv := range []int16{2, 7} {
		for sz := 65536 - 150; sz <= 65536+20; sz += step {
			pv, sz := pv, sz
			id := fmt.Sprintf("first value %d bytes produce-v%d", sz, pv)
			s.Case(id, id, func() (string, *seqx.Viol) {
				var v *seqx.Viol
				br := bub.Run(t, 0, func() {
					c := hx.NewCluster()
					vs := hx.Versions(map[protocol.ApiKey]fk.VRange{protocol.Produce: {0, pv}})
					c.Versions = map[int]map[protocol.ApiKey]fk.VRange{1: vs, 2: vs}
					cl, tr := clientops.NewClient(c)
					defer tr.CloseIdleConnections()
					t0 := time.UnixMilli(1714557600000)
					in := []rec{{key: []byte("k0"), val: big(sz, 3), t: t0}, {key: []byte("k1"), val: []byte("second"), t: t0.Add(time.Millisecond)}, {key: nil, val: []byte("third"), t: t0.Add(2 * time.Millisecond)}}
					var rs []kafka.Record
					for _, r := range in {
						rs = append(rs, kafka.Record{Key: kafka.NewBytes(r.key), Value: kafka.NewBytes(r.val), Time: r.t})
					}
					res, err := cl.Produce(ctx, &kafka.ProduceRequest{Topic: "t", Partition: 0, RequiredAcks: kafka.RequireAll, Records: kafka.NewRecordReader(rs...)})
					if err != nil || res.Error != nil {
						v = &seqx.Viol{Sig: "client:produce-failed", Msg: fmt.Sprint(err, res)}
						return
					}
					v = checkProduced("client", c, in, pv >= 3, 0)
				})
				if br.Panic != "" {
					return "panic", &seqx.Viol{Sig: "panic:client-produce", Msg: br.Panic}
				}
				return fmt.Sprintf("v%d", pv), v
			})
		}
	}

	s.Begin("produce-conn-legacy")
	for _, n := range names {
		for _, pv := range []int16{2, 3, 7} {
			for codec := 0; codec < 5; codec++ {
				if !thorough && codec > 1 && (len(n)+int(pv))%3 != 1 {
					continue
				}
				if s.TimeUp() {
					break
				}
				n, pv, codec := n, pv, codec
				id := fmt.Sprintf("%s produce-v%d %s", n, pv, codecNames[codec])
				s.Case(id, id, func() (string, *seqx.Viol) {
					var v *seqx.Viol
					br := bub.Run(t, 0, func() {
						c := hx.NewCluster()
						vs := hx.Versions(map[protocol.ApiKey]fk.VRange{protocol.Produce: {0, pv}})
						c.Versions = map[int]map[protocol.ApiKey]fk.VRange{1: vs, 2: vs}
						conn, _ := hx.Conn(c, "t", 0)
						defer conn.Close()
						var msgs []kafka.Message
						for _, r := range lists[n] {
							msgs = append(msgs, kafka.Message{Key: r.key, Value: r.val, Headers: r.headers, Time: r.t})
						}
						now := time.Now().UnixMilli()
						var err error
						if codec == 0 {
							_, err = conn.WriteMessages(msgs...)
						} else {
							_, err = conn.WriteCompressedMessages(kafka.Compression(codec).Codec(), msgs...)
						}
						if err != nil {
							v = &seqx.Viol{Sig: "conn:produce-failed", Msg: hx.ErrString(err) + " / " + prodErr(c)}
							return
						}
						v = checkProduced("conn", c, lists[n], pv >= 3, now)
					})
					if br.Panic != "" {
						return "panic", &seqx.Viol{Sig: "panic:conn-produce", Msg: br.Panic}
					}
					return fmt.Sprintf("v%d/%s", pv, codecNames[codec]), v
				})
			}
		}
	}

	consume(t, s, thorough)
	aliasing(t, s, thorough)
	heldRecords(t, s, thorough)
	connBatchSequences(t, s, thorough)
	s.Finish()
}

func prodErr(c *fk.Cluster) string {
	c.Lock()
	defer c.Unlock()
	for _, e := range c.Journal {
		if e.Key == protocol.Produce && e.ProdErr != "" {
			return e.ProdErr
		}
	}
	return ""
}

func sortStrings(a []string) {
	for i := 1; i < len(a); i++ {
		for j := i; j > 0 && a[j] < a[j-1]; j-- {
			a[j], a[j-1] = a[j-1], a[j]
		}
	}
}

var _ = io.EOF
