package c05

import (
	"bytes"
	"fmt"
	"testing"

	kafka "github.com/segmentio/kafka-go"
	"github.com/segmentio/kafka-go/protocol"

	"verif/engine/bub"
	"verif/engine/fk"
	"verif/engine/refwire"
	"verif/engine/seqx"
	"verif/harness/hx"
)

// connBatchSequences: two connections A and B (partition a/0 and b/0 of the fake broker, different compressed
// data) used in turns by one program. Every operation sequence of a fixed length over
//
//	{A.ReadBatch, A.ReadMessage, A.Close, B.ReadBatch, B.ReadMessage, B.Close}
//
// that the API allows: ReadBatch only while no batch of that connection is open (it would wait for the open one),
// ReadMessage only on the open batch, Close on the open batch and once more on a batch that is already closed
// (defer b.Close() after an explicit Close: legal). The two connections are symmetric, so sequences start on A.
// Every sequence shorter than the bound is a prefix of an enumerated one.
//
// Reference model: a cursor per connection into the stored log of its partition. Every message a ReadMessage
// returns must be the stored record at the cursor (offset, key, value, headers, ms timestamp); closing a batch
// early and fetching again continues at the cursor. The logs are longer than the bound, so no read may fail.
// The pools are deterministic LIFO stacks under the instrumentation: an object released twice is handed out twice.
func connBatchSequences(t *testing.T, s *seqx.Suite, thorough bool) {
	s.Begin("two-conns-batch-operation-sequences")
	depth := 8
	if thorough {
		depth = 10
	}
	type variant struct {
		name             string
		fmtA, fmtB       int8
		codecA, codecB   int8
		fetchV           int16
		perBatch, nbatch int
	}
	var vars []variant
	for codec := int8(1); codec < 5; codec++ {
		vars = append(vars, variant{"v2-" + codecNames[codec], 2, 2, codec, codec, 10, 3, 4})
	}
	vars = append(vars, variant{"v1-gzip-wrappers", 1, 1, refwire.Gzip, refwire.Gzip, 10, 3, 4})
	vars = append(vars, variant{"A:v2-zstd,B:v1-snappy", 2, 1, refwire.Zstd, refwire.Snappy, 10, 2, 6})
	if thorough {
		vars = append(vars,
			variant{"v1-snappy-wrappers", 1, 1, refwire.Snappy, refwire.Snappy, 2, 3, 4},
			variant{"v1-lz4-wrappers", 1, 1, refwire.Lz4, refwire.Lz4, 5, 3, 4},
			variant{"A:v2-gzip,B:v2-none", 2, 2, refwire.Gzip, refwire.None, 10, 3, 4},
			variant{"v2-gzip-one-record-batches", 2, 2, refwire.Gzip, refwire.Gzip, 5, 1, 12})
	}

	const (
		opReadBatch = iota
		opReadMessage
		opClose
	)
	opNames := []string{"ReadBatch", "ReadMessage", "Close"}
	// state of a connection's current batch: 0 none yet, 1 open, 2 closed once, 3 closed twice
	allowed := func(st, op int) bool {
		switch op {
		case opReadBatch:
			return st != 1
		case opReadMessage:
			return st == 1
		default:
			return st == 1 || st == 2
		}
	}
	next := func(st, op int) int {
		switch op {
		case opReadBatch:
			return 1
		case opClose:
			return st + 1
		}
		return st
	}
	var seqs [][]int // op codes: conn*3 + op
	var gen func(cur []int, st [2]int)
	gen = func(cur []int, st [2]int) {
		if len(cur) == depth {
			seqs = append(seqs, append([]int(nil), cur...))
			return
		}
		for c := 0; c < 2; c++ {
			if len(cur) == 0 && c == 1 {
				continue
			}
			for op := 0; op < 3; op++ {
				if allowed(st[c], op) {
					st2 := st
					st2[c] = next(st[c], op)
					gen(append(cur, c*3+op), st2)
				}
			}
		}
	}
	gen(nil, [2]int{})

	// the stored logs are encoded once per variant (Batch.Raw), not on every fetch
	logs := map[string][]*refwire.Batch{}
	mkLog := func(c *fk.Cluster, topic string, format, codec int8, perBatch, nbatch int) {
		c.AddTopic(topic, 1, nil)
		p := c.Part(topic, 0)
		lk := fmt.Sprint(topic, format, codec, perBatch, nbatch)
		if l, ok := logs[lk]; ok {
			for _, b := range l {
				cp := *b
				p.Append(&cp)
			}
			return
		}
		defer func() {
			for _, b := range p.Log {
				cp := *b
				cp.Raw = b.Encode()
				logs[lk] = append(logs[lk], &cp)
			}
		}()
		o := int64(0)
		for b := 0; b < nbatch; b++ {
			rb := &refwire.Batch{Format: format, Codec: codec, Base: o}
			for i := 0; i < perBatch; i++ {
				r := refwire.Rec{Offset: o, TS: 1700000000000 + 13*o, Key: []byte(fmt.Sprintf("%s-key-%03d", topic, o)),
					Value: []byte(fmt.Sprintf("%s%s-value-%03d-%s%s", topic, topic, o, topic, topic))}
				if o%4 == 3 {
					r.Key = nil
				}
				if format == 2 && o%2 == 1 {
					r.Headers = []refwire.Hdr{{Key: "origin", Value: []byte(topic + "-header")}}
				}
				rb.Recs = append(rb.Recs, r)
				o++
			}
			rb.Last = o - 1
			p.Append(rb)
		}
	}

	for _, vr := range vars {
		for _, sq := range seqs {
			if s.TimeUp() {
				return
			}
			vr, sq := vr, sq
			id := vr.name + ":"
			for _, o := range sq {
				id += " " + string(rune('A'+o/3)) + "." + opNames[o%3]
			}
			s.Case(id, id, func() (string, *seqx.Viol) {
				var v *seqx.Viol
				nmsg := 0
				br := bub.Run(t, 0, func() {
					c := fk.New(1)
					c.Auto = true
					mkLog(c, "a", vr.fmtA, vr.codecA, vr.perBatch, vr.nbatch)
					mkLog(c, "b", vr.fmtB, vr.codecB, vr.perBatch, vr.nbatch)
					vs := hx.Versions(map[protocol.ApiKey]fk.VRange{protocol.Fetch: {0, vr.fetchV}})
					c.Versions = map[int]map[protocol.ApiKey]fk.VRange{1: vs}
					type side struct {
						name   string
						conn   *kafka.Conn
						batch  *kafka.Batch
						cursor int64
						stored []refwire.Rec
					}
					var sides [2]*side
					for i, tn := range []string{"a", "b"} {
						conn, _ := hx.Conn(c, tn, 0)
						defer conn.Close()
						if _, err := conn.Seek(0, kafka.SeekStart); err != nil {
							v = &seqx.Viol{Sig: "conn-seq:seek", Msg: err.Error()}
							return
						}
						sides[i] = &side{name: string(rune('A' + i)), conn: conn, stored: c.Part(tn, 0).Records(0)}
					}
					done := ""
					for _, o := range sq {
						x := sides[o/3]
						step := x.name + "." + opNames[o%3]
						switch o % 3 {
						case opReadBatch:
							x.batch = x.conn.ReadBatch(1, 1<<20)
							if err := x.batch.Err(); err != nil {
								v = &seqx.Viol{Sig: "conn-seq:fetch-failed", Msg: fmt.Sprintf("%s [%s]: after%s, %s at offset %d of a valid log failed: %s", vr.name, x.name, done, step, x.cursor, hx.ErrString(err))}
								return
							}
						case opReadMessage:
							want := x.stored[x.cursor]
							m, err := x.batch.ReadMessage()
							if err != nil {
								v = &seqx.Viol{Sig: "conn-seq:read-error", Msg: fmt.Sprintf("%s: after%s, %s fails with %s; the next stored record of its partition is offset %d (%d records stored)", vr.name, done, step, hx.ErrString(err), want.Offset, len(x.stored))}
								return
							}
							nmsg++
							if d := diffMsg(m, want); d != "" {
								v = &seqx.Viol{Sig: "conn-seq:wrong-record", Msg: fmt.Sprintf("%s: after%s, %s returned offset %d key %q value %q; the next stored record of connection %s's partition is offset %d key %q value %q (%s)",
									vr.name, done, step, m.Offset, m.Key, m.Value, x.name, want.Offset, want.Key, want.Value, d)}
								return
							}
							x.cursor++
						case opClose:
							if err := x.batch.Close(); err != nil {
								v = &seqx.Viol{Sig: "conn-seq:close-error", Msg: fmt.Sprintf("%s: after%s, %s returned %s", vr.name, done, step, hx.ErrString(err))}
								return
							}
						}
						done += " " + step
					}
				})
				if br.Panic != "" {
					return "panic", &seqx.Viol{Sig: "panic:conn-seq", Msg: br.Panic}
				}
				return fmt.Sprintf("%s/%d messages", vr.name, nmsg), v
			})
		}
	}
}

func diffMsg(m kafka.Message, want refwire.Rec) string {
	switch {
	case m.Offset != want.Offset:
		return "offset differs"
	case !bytes.Equal(m.Key, want.Key):
		return "key differs"
	case !bytes.Equal(m.Value, want.Value):
		return "value differs"
	case m.Time.UnixMilli() != want.TS:
		return fmt.Sprintf("timestamp %d ms, stored %d ms", m.Time.UnixMilli(), want.TS)
	case len(m.Headers) != len(want.Headers):
		return fmt.Sprintf("%d headers, stored %d", len(m.Headers), len(want.Headers))
	}
	for i, h := range want.Headers {
		if m.Headers[i].Key != h.Key || !bytes.Equal(m.Headers[i].Value, h.Value) {
			return fmt.Sprintf("header %d differs", i)
		}
	}
	return ""
}
