package c05

import (
	"context"
	"fmt"
	"strings"
	"testing"
	"time"

	kafka "github.com/segmentio/kafka-go"
	"github.com/segmentio/kafka-go/protocol"

	"verif/engine/bub"
	"verif/engine/fk"
	"verif/engine/refwire"
	"verif/engine/seqx"
	"verif/harness/clientops"
	"verif/harness/hx"
)

// served log layouts (reference-encoded)
type served struct {
	name    string
	batches []*refwire.Batch
}

func srec(o int64, big bool) refwire.Rec {
	r := refwire.Rec{Offset: o, TS: 5000 + 11*o, Value: []byte(fmt.Sprintf("val%d", o))}
	switch o % 4 {
	case 0:
		r.Key = []byte(fmt.Sprintf("key%d", o))
	case 1:
		r.Key = []byte{}
	case 2:
		r.Value = []byte{}
	}
	if big && o%3 == 0 {
		r.Value = make([]byte, 70*1024)
		for i := range r.Value {
			r.Value[i] = byte(o) + byte(i*13)
		}
	}
	return r
}

func servedLayouts(thorough bool) []served {
	var out []served
	mk := func(name string, format, codec int8, sizes []int, big bool, hdr bool) served {
		s := served{name: name}
		o := int64(0)
		for _, n := range sizes {
			b := &refwire.Batch{Format: format, Codec: codec, Base: o}
			for i := 0; i < n; i++ {
				r := srec(o, big)
				if hdr && format == 2 && o%2 == 0 {
					r.Headers = []refwire.Hdr{{Key: "h", Value: []byte("x")}, {Key: "n", Value: nil}}
				}
				b.Recs = append(b.Recs, r)
				o++
			}
			b.Last = o - 1
			s.batches = append(s.batches, b)
		}
		return s
	}
	cn := []string{"none", "gzip", "snappy", "lz4", "zstd"}
	for codec := int8(0); codec < 5; codec++ {
		out = append(out, mk("v2-"+cn[codec]+"-3x2", 2, codec, []int{2, 2, 2}, false, true))
		out = append(out, mk("v2-"+cn[codec]+"-1,4", 2, codec, []int{1, 4}, false, false))
		if codec <= 3 {
			out = append(out, mk("v1-"+cn[codec]+"-3x2", 1, codec, []int{2, 2, 2}, false, false))
		}
		if codec == 0 {
			// format 0 is in scope uncompressed only
			out = append(out, mk("v0-"+cn[codec]+"-2,3", 0, codec, []int{2, 3}, false, false))
		}
		if thorough || codec < 2 {
			out = append(out, mk("v2-"+cn[codec]+"-big", 2, codec, []int{2, 2}, true, false))
		}
	}
	u := mk("v2-snappy-unframed", 2, refwire.Snappy, []int{3, 2}, false, false)
	for _, b := range u.batches {
		b.SnappyUnframed = true
	}
	out = append(out, u)
	// control batch in the middle, and a batch with a bad checksum
	cb := mk("v2-none-control-middle", 2, 0, []int{2, 1, 2}, false, false)
	cb.batches[1].Control = true
	cb.batches[1].Recs = []refwire.Rec{{Offset: 2, TS: 5000, Key: []byte{0, 0, 0, 1}, Value: []byte{0, 0, 0, 0, 0, 0}}}
	out = append(out, cb)
	bc := mk("v2-none-badcrc-middle", 2, 0, []int{2, 2, 2}, false, false)
	bc.batches[1].BadCRC = true
	out = append(out, bc)
	bc1 := mk("v1-none-badcrc-middle", 1, 0, []int{1, 1, 1}, false, false)
	bc1.batches[1].BadCRC = true
	out = append(out, bc1)
	return out
}

func (sv served) install(c *fk.Cluster) {
	p := c.Part("t", 0)
	p.Log, p.Start, p.End = nil, 0, 0
	for _, b := range sv.batches {
		cp := *b
		p.Append(&cp)
	}
}

func fmtR(o int64, k, v []byte, ts int64, hs string) string {
	if len(v) > 40 {
		v = []byte(fmt.Sprintf("<%d bytes sum %d>", len(v), sum(v)))
	}
	return fmt.Sprintf("%d:%s=%s@%d%s,", o, k, v, ts, hs)
}

func sum(b []byte) (s int) {
	for _, c := range b {
		s += int(c)
	}
	return
}

func normTS(sv served, tm time.Time) int64 {
	if sv.batches[0].Format == 0 {
		return -1
	}
	return tm.UnixMilli()
}

func consume(t *testing.T, s *seqx.Suite, thorough bool) {
	s.Begin("consume-client-vs-conn-vs-reference")
	for _, sv := range servedLayouts(thorough) {
		for _, fv := range []int16{2, 4, 5, 7, 10} {
			if sv.batches[0].Format == 2 && fv < 4 {
				continue
			}
			sv, fv := sv, fv
			id := fmt.Sprintf("%s fetch-v%d", sv.name, fv)
			s.Case(id, id, func() (string, *seqx.Viol) {
				var v *seqx.Viol
				br := bub.Run(t, 0, func() {
					c := hx.NewCluster()
					sv.install(c)
					vs := hx.Versions(map[protocol.ApiKey]fk.VRange{protocol.Fetch: {0, fv}})
					c.Versions = map[int]map[protocol.ApiKey]fk.VRange{1: vs, 2: vs}
					// reference: data records of batches with a valid checksum
					var want, wantConn []string
					for _, b := range sv.batches {
						for _, r := range b.Recs {
							hs := ""
							for _, h := range r.Headers {
								hs += fmt.Sprintf("[%s=%s]", h.Key, h.Value)
							}
							ts := r.TS
							if b.Format == 0 {
								ts = -1 // format 0 has no timestamp: both paths' "no time" values are normalised to -1
							}
							line := fmtR(r.Offset, r.Key, r.Value, ts, hs)
							if !b.Control && !b.BadCRC {
								want = append(want, line)
							}
							wantConn = append(wantConn, line)
						}
					}
					// Client.Fetch
					cl, tr := clientops.NewClient(c)
					defer tr.CloseIdleConnections()
					var got []string
					off := int64(0)
					var ferr error
					for round := 0; round < 8 && off < c.Part("t", 0).End; round++ {
						r, err := cl.Fetch(context.Background(), &kafka.FetchRequest{Topic: "t", Partition: 0, Offset: off, MinBytes: 1, MaxBytes: 1 << 22, MaxWait: 100 * time.Millisecond})
						if err != nil {
							ferr = err
							break
						}
						if r.Error != nil {
							ferr = r.Error
							break
						}
						n := 0
						for {
							rec, err := r.Records.ReadRecord()
							if err != nil {
								if err.Error() != "EOF" {
									ferr = err
								}
								break
							}
							var k, val []byte
							if rec.Key != nil {
								k, _ = protocol.ReadAll(rec.Key)
								rec.Key.Close()
							}
							if rec.Value != nil {
								val, _ = protocol.ReadAll(rec.Value)
								rec.Value.Close()
							}
							hs := ""
							for _, h := range rec.Headers {
								hs += fmt.Sprintf("[%s=%s]", h.Key, h.Value)
							}
							if rec.Offset >= off {
								got = append(got, fmtR(rec.Offset, k, val, normTS(sv, rec.Time), hs))
								off = rec.Offset + 1
								n++
							}
						}
						if ferr != nil || n == 0 {
							break
						}
					}
					badcrc := strings.Contains(sv.name, "badcrc")
					if badcrc {
						// nothing of the corrupt batch may surface; an error is the expected way out
						for _, g := range got {
							for _, b := range sv.batches {
								if b.BadCRC {
									for _, r := range b.Recs {
										if strings.HasPrefix(g, fmt.Sprintf("%d:", r.Offset)) {
											v = &seqx.Viol{Sig: "fetch:badcrc-surfaced", Msg: fmt.Sprintf("Client.Fetch returned record %s of a batch whose checksum does not match", g)}
											return
										}
									}
								}
							}
						}
						if ferr == nil && len(got) == len(wantConn) {
							v = &seqx.Viol{Sig: "fetch:badcrc-unnoticed", Msg: "Client.Fetch decoded a log containing a corrupt batch without any error"}
						}
						return
					}
					if ferr != nil {
						v = &seqx.Viol{Sig: "fetch:error", Msg: fmt.Sprintf("Client.Fetch failed on a valid log %s: %v (got %v)", sv.name, ferr, got)}
						return
					}
					if strings.Join(got, "") != strings.Join(want, "") {
						v = &seqx.Viol{Sig: "fetch:records-differ", Msg: fmt.Sprintf("Client.Fetch (v%d) over %s returned %v, stored %v", fv, sv.name, got, want)}
						return
					}
					// Conn.ReadBatch loop on the same log (legacy versions only)
					if fv != 2 && fv != 5 && fv != 10 {
						return
					}
					conn, _ := hx.Conn(c, "t", 0)
					defer conn.Close()
					conn.Seek(0, kafka.SeekStart)
					var gc []string
					for round := 0; round < 8; round++ {
						if o, _ := conn.Offset(); o >= c.Part("t", 0).End {
							break
						}
						b := conn.ReadBatch(1, 1<<22)
						for {
							m, err := b.ReadMessage()
							if err != nil {
								break
							}
							hs := ""
							for _, h := range m.Headers {
								hs += fmt.Sprintf("[%s=%s]", h.Key, h.Value)
							}
							gc = append(gc, fmtR(m.Offset, m.Key, m.Value, normTS(sv, m.Time), hs))
						}
						if err := b.Close(); err != nil {
							gc = append(gc, "close-error:"+hx.ErrString(err))
							break
						}
					}
					if strings.Contains(sv.name, "control") {
						return // the Conn path does not hide control batches (not required)
					}
					if strings.Join(gc, "") != strings.Join(wantConn, "") {
						v = &seqx.Viol{Sig: "conn-read:records-differ", Msg: fmt.Sprintf("Conn.ReadBatch (fetch v%d) over %s returned %v, stored %v", fv, sv.name, gc, wantConn)}
					}
				})
				if br.Panic != "" {
					return "panic", &seqx.Viol{Sig: "panic:consume", Msg: br.Panic}
				}
				return sv.name, v
			})
		}
	}
}
