// Package c06: concurrent tagged calls on one kafka.Conn (fine-level schedules of
// conn.go / batch.go, writers descheduled mid-write, responses delivered in
// pieces) and concurrent RoundTrips on a Transport (event level: answer order
// across connections, cancellations, connection drops). Every call must get the
// answer to its own request, or an error.
package c06

import (
	"context"
	"fmt"
	"os"
	"sort"
	"strings"
	"sync"
	"testing"
	"time"

	kafka "github.com/segmentio/kafka-go"
	"github.com/segmentio/kafka-go/protocol"
	"github.com/segmentio/kafka-go/zzverif/vhook"

	"verif/engine/fk"
	"verif/engine/qx"
	"verif/engine/refwire"
	"verif/engine/seqx"
	"verif/harness/clientops"
	"verif/harness/hx"
)

func cluster() *fk.Cluster {
	c := fk.New(2)
	c.AddTopic("t", 1, nil)
	c.AddTopic("u", 2, nil)
	c.AddTopic("w", 3, nil)
	p := c.Part("t", 0)
	b := &refwire.Batch{Format: 2, Base: 10, Last: 19}
	for o := int64(10); o < 20; o++ {
		b.Recs = append(b.Recs, refwire.Rec{Offset: o, TS: 1000 * o, Value: []byte(fmt.Sprintf("v%d", o))})
	}
	p.Append(b)
	p.Start = 10
	c.CoordOf = func(g string) int {
		if g == "g2" {
			return 2
		}
		return 1
	}
	return c
}

type call struct {
	name string
	run  func(c *kafka.Conn) (string, error)
	want string
}

// tagged Conn calls: the right answer is a function of the call's own argument
func connCalls() map[string]call {
	m := map[string]call{}
	for _, o := range []int64{12, 15, 18} {
		o := o
		m[fmt.Sprintf("offset-at-%d", o)] = call{run: func(c *kafka.Conn) (string, error) {
			r, err := c.ReadOffset(time.UnixMilli(1000 * o))
			return fmt.Sprint(r), err
		}, want: fmt.Sprint(o)}
	}
	m["first"] = call{run: func(c *kafka.Conn) (string, error) { r, err := c.ReadFirstOffset(); return fmt.Sprint(r), err }, want: "10"}
	m["last"] = call{run: func(c *kafka.Conn) (string, error) { r, err := c.ReadLastOffset(); return fmt.Sprint(r), err }, want: "20"}
	for _, tp := range []string{"t", "u", "w"} {
		tp := tp
		n := map[string]int{"t": 1, "u": 2, "w": 3}[tp]
		m["partitions-"+tp] = call{run: func(c *kafka.Conn) (string, error) {
			ps, err := c.ReadPartitions(tp)
			s := ""
			for _, p := range ps {
				s += fmt.Sprintf("%s/%d ", p.Topic, p.ID)
			}
			return s, err
		}, want: func() string {
			s := ""
			for i := 0; i < n; i++ {
				s += fmt.Sprintf("%s/%d ", tp, i)
			}
			return s
		}()}
	}
	m["fetch"] = call{run: func(c *kafka.Conn) (string, error) {
		b := c.ReadBatch(1, 1<<20)
		s, err := hx.ReadAll(b, 3)
		cerr := b.Close()
		if err == nil {
			err = cerr
		}
		return s, err
	}, want: "10:=v10@10000,11:=v11@11000,12:=v12@12000,"}
	m["heartbeat"] = call{run: func(c *kafka.Conn) (string, error) { return "hb", kafka.VerifHeartbeat(c, "g", 1, "nobody") }, want: "never-succeeds"}
	return m
}

type connScn struct {
	name     string
	threads  [][]string
	gate     bool // responses delivered in pieces under explorer control
	faults   []string
	fine     bool
	deadline time.Duration
}

func (sc *connScn) scenario() *qx.Scenario {
	cfg := qx.Config{Fine: sc.fine, Horizon: 40 * time.Second, Quantum: 5 * time.Second, Grace: time.Second, MaxSteps: 900}
	if sc.fine {
		cfg.Files = []string{"conn.go", "batch.go"}
		cfg.Kinds = []vhook.Kind{vhook.KLock, vhook.KRLock, vhook.KWGWait, vhook.KOnce, vhook.KGo, vhook.KUser, vhook.KAtomic}
	}
	calls := connCalls()
	return &qx.Scenario{Name: sc.name, Cfg: cfg, Body: func(x *qx.Exec) *qx.Outcome {
		c := cluster()
		c.OnEvent = x.Notify
		c.ClientWritePoints = sc.fine
		c.GateResponses = sc.gate
		conn, _ := hx.Conn(c, "t", 0)
		if sc.deadline > 0 {
			conn.SetDeadline(time.Now().Add(sc.deadline))
		}
		var mu sync.Mutex
		type res struct{ name, got, err string }
		var results []res
		for ti, names := range sc.threads {
			ti, names := ti, names
			x.Go(fmt.Sprintf("T%d", ti), func() {
				for _, n := range names {
					r, err := calls[n].run(conn)
					mu.Lock()
					results = append(results, res{n, r, hx.ErrString(err)})
					mu.Unlock()
				}
			})
		}
		x.SetEnv(func() []qx.Action {
			var acts []qx.Action
			for _, e := range c.Pending() {
				e := e
				acts = append(acts, qx.Action{Label: fmt.Sprintf("ans#%d(api%d):ok", e.Seq, e.Key), Do: func() { c.Answer(e, "") }})
			}
			w := c.Withheld()
			var ids []int
			for id := range w {
				ids = append(ids, id)
			}
			sort.Ints(ids)
			for _, id := range ids {
				id := id
				acts = append(acts, qx.Action{Label: fmt.Sprintf("deliver conn%d:all", id), Do: func() { c.Release(id, -1) }})
			}
			for _, id := range ids {
				id := id
				if w[id] > 8 {
					acts = append(acts, qx.Action{Label: fmt.Sprintf("deliver conn%d:8", id), Do: func() { c.Release(id, 8) }})
					acts = append(acts, qx.Action{Label: fmt.Sprintf("deliver conn%d:5", id), Do: func() { c.Release(id, 5) }})
				}
			}
			for _, e := range c.Pending() {
				e := e
				for _, f := range sc.faults {
					f := f
					acts = append(acts, qx.Action{Label: fmt.Sprintf("ans#%d(api%d):%s", e.Seq, e.Key, f), Do: func() { c.Answer(e, f) }})
				}
			}
			return acts
		})
		st := x.Run()
		conn.Close()
		mu.Lock()
		defer mu.Unlock()
		sort.Slice(results, func(i, j int) bool { return results[i].name < results[j].name })
		var kb strings.Builder
		o := &qx.Outcome{}
		for _, r := range results {
			fmt.Fprintf(&kb, "%s=%s|%s ", r.name, r.got, r.err)
			if r.err == "<nil>" && r.got != calls[r.name].want && o.Violation == "" {
				o.Violation = fmt.Sprintf("call %s returned %q without error; the answer to its own request is %q", r.name, r.got, calls[r.name].want)
				o.Sig = "cross-talk:" + strings.SplitN(r.name, "-", 2)[0]
			}
		}
		o.Key = string(st) + " " + kb.String()
		o.Obs = kb.String()
		// correlation ids on the wire must be unique per connection (a response can only be attributed through them)
		seen := map[[2]int32]int{}
		c.Lock()
		for _, e := range c.Journal {
			k := [2]int32{int32(e.Conn), e.CorrID}
			seen[k]++
			if seen[k] > 1 && o.Violation == "" {
				o.Violation = fmt.Sprintf("two requests with correlation id %d were sent on connection %d", e.CorrID, e.Conn)
				o.Sig = "duplicate-correlation-id"
			}
		}
		c.Unlock()
		if st != qx.StDone {
			o.Other = "hang"
		}
		return o
	}}
}

// ---- Transport ----

type tcall struct {
	run  func(ctx context.Context, cl *kafka.Client) (string, error)
	want string
}

func transportCalls() map[string]tcall {
	m := map[string]tcall{}
	for _, o := range []int64{12, 15, 18} {
		o := o
		m[fmt.Sprintf("listoffsets-%d", o)] = tcall{run: func(ctx context.Context, cl *kafka.Client) (string, error) {
			r, err := cl.ListOffsets(ctx, &kafka.ListOffsetsRequest{Topics: map[string][]kafka.OffsetRequest{"t": {kafka.TimeOffsetOf(0, time.UnixMilli(1000*o))}}})
			if err != nil {
				return "", err
			}
			if e := r.Topics["t"][0].Error; e != nil {
				return "", e
			}
			var ks []string
			for k := range r.Topics["t"][0].Offsets {
				ks = append(ks, fmt.Sprint(k))
			}
			return strings.Join(ks, ","), nil
		}, want: fmt.Sprint(o)}
	}
	for _, g := range []string{"g1", "g2"} {
		g := g
		m["coordinator-"+g] = tcall{run: func(ctx context.Context, cl *kafka.Client) (string, error) {
			r, err := cl.FindCoordinator(ctx, &kafka.FindCoordinatorRequest{Key: g, KeyType: kafka.CoordinatorKeyTypeConsumer})
			if err != nil {
				return "", err
			}
			if r.Error != nil {
				return "", r.Error
			}
			return fmt.Sprint(r.Coordinator.NodeID), nil
		}, want: map[string]string{"g1": "1", "g2": "2"}[g]}
		m["offsetfetch-"+g] = tcall{run: func(ctx context.Context, cl *kafka.Client) (string, error) {
			r, err := cl.OffsetFetch(ctx, &kafka.OffsetFetchRequest{GroupID: g, Topics: map[string][]int{"t": {0}}})
			if err != nil {
				return "", err
			}
			if r.Error != nil {
				return "", r.Error
			}
			return fmt.Sprint(r.Topics["t"][0].CommittedOffset), nil
		}, want: map[string]string{"g1": "11", "g2": "17"}[g]}
	}
	m["fetch"] = tcall{run: func(ctx context.Context, cl *kafka.Client) (string, error) {
		r, err := cl.Fetch(ctx, &kafka.FetchRequest{Topic: "t", Partition: 0, Offset: 18, MinBytes: 1, MaxBytes: 1 << 20, MaxWait: 100 * time.Millisecond})
		if err != nil {
			return "", err
		}
		if r.Error != nil {
			return "", r.Error
		}
		s, rerr := clientops.ReadRecords(r.Records)
		if i := strings.Index(s, "18:"); i >= 0 {
			s = s[i:]
		}
		return s, rerr
	}, want: "18:=v18@18000,19:=v19@19000,"}
	return m
}

type trScn struct {
	name    string
	threads [][]string
	cancel  map[string]bool // calls whose context the explorer may cancel
	faults  []string
}

func (sc *trScn) scenario() *qx.Scenario {
	cfg := qx.Config{Horizon: 60 * time.Second, Quantum: 7 * time.Second, Grace: time.Second, MaxSteps: 600}
	calls := transportCalls()
	return &qx.Scenario{Name: sc.name, Cfg: cfg, Body: func(x *qx.Exec) *qx.Outcome {
		c := cluster()
		c.OnEvent = x.Notify
		c.SetCommitted("g1", "t", 0, 11)
		c.SetCommitted("g2", "t", 0, 17)
		cl, tr := clientops.NewClient(c)
		var mu sync.Mutex
		type res struct{ name, got, err string }
		var results []res
		cancels := map[string]context.CancelFunc{}
		for ti, names := range sc.threads {
			ti, names := ti, names
			x.Go(fmt.Sprintf("T%d", ti), func() {
				for _, n := range names {
					ctx := context.Background()
					if sc.cancel[n] {
						var cf context.CancelFunc
						ctx, cf = context.WithCancel(ctx)
						mu.Lock()
						cancels[n] = cf
						mu.Unlock()
						x.Notify()
					}
					r, err := calls[n].run(ctx, cl)
					mu.Lock()
					delete(cancels, n)
					results = append(results, res{n, r, hx.ErrString(err)})
					mu.Unlock()
				}
			})
		}
		x.SetEnv(func() []qx.Action {
			var acts []qx.Action
			for _, e := range c.Pending() {
				e := e
				acts = append(acts, qx.Action{Label: fmt.Sprintf("ans#%d(b%d,api%d):ok", e.Seq, e.Broker, e.Key), Do: func() { c.Answer(e, "") }})
			}
			mu.Lock()
			var cn []string
			for n := range cancels {
				cn = append(cn, n)
			}
			mu.Unlock()
			sort.Strings(cn)
			for _, n := range cn {
				n := n
				acts = append(acts, qx.Action{Label: "cancel " + n, Do: func() {
					mu.Lock()
					cf := cancels[n]
					delete(cancels, n)
					mu.Unlock()
					if cf != nil {
						cf()
					}
				}})
			}
			for _, e := range c.Pending() {
				e := e
				if e.Key == protocol.ApiVersions || e.Key == protocol.Metadata {
					continue
				}
				for _, f := range sc.faults {
					f := f
					acts = append(acts, qx.Action{Label: fmt.Sprintf("ans#%d(b%d,api%d):%s", e.Seq, e.Broker, e.Key, f), Do: func() { c.Answer(e, f) }})
				}
			}
			return acts
		})
		st := x.Run()
		tr.CloseIdleConnections()
		mu.Lock()
		defer mu.Unlock()
		sort.Slice(results, func(i, j int) bool { return results[i].name < results[j].name })
		var kb strings.Builder
		o := &qx.Outcome{}
		for _, r := range results {
			fmt.Fprintf(&kb, "%s=%s|%s ", r.name, r.got, r.err)
			if r.err == "<nil>" && r.got != calls[r.name].want && o.Violation == "" {
				o.Violation = fmt.Sprintf("call %s returned %q without error; the answer to its own request is %q", r.name, r.got, calls[r.name].want)
				o.Sig = "cross-talk:" + strings.SplitN(r.name, "-", 2)[0]
			}
		}
		// a connection on which an exchange failed or was abandoned must not carry later requests
		c.Lock()
		bad := map[int]int{}
		for _, e := range c.Journal {
			if at, ok := bad[e.Conn]; ok && e.Seq > at && o.Violation == "" {
				o.Violation = fmt.Sprintf("request #%d (api %d) was sent on connection %d after the exchange of request #%d on it had failed", e.Seq, e.Key, e.Conn, at)
				o.Sig = "conn-reused-after-failure"
			}
			if strings.HasPrefix(e.Answer, "cut") || e.Answer == "drop" || e.Answer == "apply-drop" {
				bad[e.Conn] = e.Seq
			}
		}
		c.Unlock()
		o.Key = string(st) + " " + kb.String()
		o.Obs = kb.String()
		if st != qx.StDone {
			o.Other = "hang"
		}
		return o
	}}
}

func suite(tier string) []qx.SuiteItem {
	b := 3
	if tier == "thorough" {
		b = 4
	}
	var items []qx.SuiteItem
	add := func(s *qx.Scenario, bound int) { items = append(items, qx.SuiteItem{Scn: s, Bound: bound}) }
	// the two small held-record scenarios come first: the budget of a run is re-divided among the scenarios that are
	// left each time one ends, so the long fine-level scenarios below keep the share they had
	add((&heldScn{name: "transport-held-records-concurrent-fetches", topics: []string{"a", "b"}, shapes: []recShape{{key: 1, val: 2}, {key: 0, val: 2}, {key: 2, val: 1}}}).scenario(), b)
	add((&heldScn{name: "transport-held-records-fetch-then-call", topics: []string{"a", "b"}, shapes: []recShape{{key: 0, val: 1}, {key: 2, val: 2, hdr: true}}, then: map[string]string{"a": "list-offsets", "b": "metadata"}}).scenario(), b)
	add((&connScn{name: "conn-fine-3-offsets", threads: [][]string{{"offset-at-12"}, {"offset-at-15"}, {"offset-at-18"}}, fine: true}).scenario(), b)
	add((&connScn{name: "conn-fine-mixed", threads: [][]string{{"offset-at-12", "partitions-u"}, {"first", "offset-at-15"}}, fine: true}).scenario(), b)
	add((&connScn{name: "conn-fine-fetch-vs-offsets", threads: [][]string{{"fetch"}, {"offset-at-15", "last"}}, fine: true}).scenario(), b)
	add((&connScn{name: "conn-gated-partitions", threads: [][]string{{"partitions-t"}, {"partitions-w"}, {"partitions-u"}}, gate: true, faults: []string{"cut:9"}}).scenario(), b)
	add((&connScn{name: "conn-gated-deadline", threads: [][]string{{"offset-at-12", "offset-at-18"}, {"offset-at-15"}}, gate: true, deadline: 2 * time.Second, faults: []string{"drop"}}).scenario(), b+1)
	add((&trScn{name: "transport-3-calls", threads: [][]string{{"listoffsets-12"}, {"listoffsets-15"}, {"coordinator-g2"}}, faults: []string{"drop", "cut:6"}}).scenario(), b)
	add((&trScn{name: "transport-cancel", threads: [][]string{{"offsetfetch-g1", "offsetfetch-g2"}, {"listoffsets-18", "coordinator-g1"}}, cancel: map[string]bool{"offsetfetch-g1": true, "listoffsets-18": true}, faults: []string{"drop"}}).scenario(), b)
	add((&trScn{name: "transport-fetch-vs-offsets", threads: [][]string{{"fetch", "listoffsets-12"}, {"listoffsets-15", "fetch"}}, cancel: map[string]bool{"fetch": true}, faults: []string{"cut:20"}}).scenario(), b)
	return items
}

func TestCheck(t *testing.T) {
	tier := os.Getenv("VERIF_TIER")
	items := suite(tier)
	s := seqx.New(t)
	if s.Replay != nil {
		for _, it := range items {
			if it.Scn.Name == s.Replay.Scenario {
				qx.Replay(t, items, os.Getenv("VERIF_REPLAY"))
				return
			}
		}
	}
	// held records of every shape against one other exchange at every position (shapes_test.go)
	recordShapes(t, s, tier == "thorough")
	if s.Replay == nil {
		s.AddStats(qx.ExploreAll(t, items, s.Remaining())...)
	}
	s.Finish()
}
