package c06

// Held records of a Fetch response versus other exchanges on the same Transport.
//
// A fetch response delivered to a call is a set of records whose keys and values are read by
// the caller AFTER RoundTrip returned, while other calls (its own next ones, or concurrent
// ones) go on using the Transport. "The response to its own request" therefore includes every
// byte the caller reads through the records it was handed: they must stay the bytes the broker
// stored for ITS topic, whatever the other exchanges carry.
//
// Alphabet (seqx, exhaustive): every record of a small batch takes every shape
// key in {null, empty non-null, non-empty} x value in {null, empty non-null, non-empty} x
// headers in {none, one header with an empty value}; the consumer processes the records in
// every order, reading and closing keys and values in one of the close styles, and one other
// exchange (Metadata / ListOffsets / a Fetch of another topic with the same layout and other
// bytes) is placed before every one of its steps.

import (
	"context"
	"fmt"
	"sort"
	"strings"
	"sync"
	"testing"
	"time"

	kafka "github.com/segmentio/kafka-go"
	"github.com/segmentio/kafka-go/protocol"

	"verif/engine/bub"
	"verif/engine/fk"
	"verif/engine/qx"
	"verif/engine/refwire"
	"verif/engine/seqx"
	"verif/harness/clientops"
	"verif/harness/hx"
)

// shape of one record: key and value 0 = null, 1 = empty but not null, 2 = non-empty
type recShape struct {
	key, val int
	hdr      bool
}

func (r recShape) String() string {
	n := [3]string{"null", "empty", "bytes"}
	s := "k=" + n[r.key] + ",v=" + n[r.val]
	if r.hdr {
		s += ",h"
	}
	return s
}

func recShapes(headers bool) []recShape {
	var l []recShape
	for k := 0; k < 3; k++ {
		for v := 0; v < 3; v++ {
			l = append(l, recShape{k, v, false})
			if headers {
				l = append(l, recShape{k, v, true})
			}
		}
	}
	return l
}

func shapeBytes(kind int, s string) []byte {
	switch kind {
	case 0:
		return nil
	case 1:
		return []byte{}
	}
	return []byte(s)
}

// shapedBatch: the records of topic tn (a one-letter name) with the given shapes. Two topics
// built from the same shapes have byte-for-byte the same layout and differ in every non-empty
// key and value.
func shapedBatch(tn string, format int8, shapes []recShape) *refwire.Batch {
	b := &refwire.Batch{Format: format, Base: 0, Last: int64(len(shapes) - 1)}
	for i, sh := range shapes {
		r := refwire.Rec{Offset: int64(i), TS: 1000 + int64(i),
			Key:   shapeBytes(sh.key, fmt.Sprintf("K%s%d", tn, i)),
			Value: shapeBytes(sh.val, fmt.Sprintf("V%s%d-%s", tn, i, strings.Repeat(tn, 6)))}
		if sh.hdr && format == 2 {
			r.Headers = []refwire.Hdr{{Key: "h", Value: []byte{}}}
		}
		b.Recs = append(b.Recs, r)
	}
	return b
}

func shapedCluster(format int8, shapes []recShape) *fk.Cluster {
	c := hx.NewCluster()
	for _, tn := range []string{"a", "b"} {
		c.AddTopic(tn, 1, nil)
		c.Part(tn, 0).Append(shapedBatch(tn, format, shapes))
	}
	return c
}

// held is a record taken from a fetch response and kept by the caller.
type held struct {
	topic string
	rec   kafka.Record
}

func fetchHeld(ctx context.Context, cl *kafka.Client, tn string) ([]*held, error) {
	r, err := cl.Fetch(ctx, &kafka.FetchRequest{Topic: tn, Partition: 0, Offset: 0, MinBytes: 1, MaxBytes: 1 << 20, MaxWait: 100 * time.Millisecond})
	if err != nil {
		return nil, err
	}
	if r.Error != nil {
		return nil, r.Error
	}
	var hs []*held
	for {
		rec, err := r.Records.ReadRecord()
		if err != nil {
			break
		}
		hs = append(hs, &held{topic: tn, rec: *rec}) // the *Record is reused by the reader: the caller keeps a copy
	}
	return hs, nil
}

// consumer steps on held record i
const (
	stReadK = iota
	stReadV
	stCloseK
	stCloseV
)

var stepNames = [4]string{"readK", "readV", "closeK", "closeV"}

var closeStyles = map[string][]int{
	"read-both-then-close": {stReadK, stReadV, stCloseK, stCloseV},
	"close-value-first":    {stReadK, stReadV, stCloseV, stCloseK},
	"close-as-you-go":      {stReadK, stCloseK, stReadV, stCloseV},
	"close-unread":         {stCloseK, stCloseV},
}

type step struct{ rec, op int }

// apply performs one consumer step; a read compares every byte with what the broker stored
// for the record of the caller's own topic.
func (h *held) apply(c *fk.Cluster, op int) string {
	want := c.Part(h.topic, 0).Log[0].Recs[h.rec.Offset]
	b, stored, what := h.rec.Key, want.Key, "key"
	if op == stReadV || op == stCloseV {
		b, stored, what = h.rec.Value, want.Value, "value"
	}
	switch op {
	case stReadK, stReadV:
		if (b == nil) != (stored == nil) {
			return fmt.Sprintf("record %d of the fetch of topic %s: %s null=%v, stored null=%v", h.rec.Offset, h.topic, what, b == nil, stored == nil)
		}
		if b == nil {
			return ""
		}
		got, err := protocol.ReadAll(b)
		if err != nil || string(got) != string(stored) {
			return fmt.Sprintf("record %d of the fetch of topic %s: its %s, read through the Record the call was handed, is %q (err %v); the broker stored %q for that request", h.rec.Offset, h.topic, what, got, err, stored)
		}
	default:
		if b != nil {
			b.Close()
		}
	}
	return ""
}

func (h *held) noop(op int) bool {
	if op == stReadK || op == stCloseK {
		return h.rec.Key == nil
	}
	return h.rec.Value == nil
}

func perms(n int) [][]int {
	if n == 1 {
		return [][]int{{0}}
	}
	var out [][]int
	for _, p := range perms(n - 1) {
		for i := 0; i <= len(p); i++ {
			q := append(append(append([]int{}, p[:i]...), n-1), p[i:]...)
			out = append(out, q)
		}
	}
	sort.Slice(out, func(i, j int) bool { return fmt.Sprint(out[i]) < fmt.Sprint(out[j]) })
	return out
}

// otherExchange: another call on the same Transport; returns a violation text if it returned an answer that
// is not its own. A call that fails ("errored: ...") is within the property.
const errored = "errored: "

var otherExchanges = map[string]func(ctx context.Context, c *fk.Cluster, cl *kafka.Client) (string, []*held){
	"fetch-b": func(ctx context.Context, c *fk.Cluster, cl *kafka.Client) (string, []*held) {
		hs, err := fetchHeld(ctx, cl, "b")
		if err != nil {
			return errored + hx.ErrString(err), nil
		}
		return "", hs
	},
	"metadata": func(ctx context.Context, c *fk.Cluster, cl *kafka.Client) (string, []*held) {
		r, err := cl.Metadata(ctx, &kafka.MetadataRequest{Topics: []string{"u", "b"}})
		if err != nil {
			return errored + hx.ErrString(err), nil
		}
		var names []string
		for _, t := range r.Topics {
			names = append(names, fmt.Sprintf("%s/%d", t.Name, len(t.Partitions)))
		}
		sort.Strings(names)
		if got := strings.Join(names, " "); got != "b/1 u/2" {
			return fmt.Sprintf("metadata of topics u and b answered %q", got), nil
		}
		return "", nil
	},
	"list-offsets": func(ctx context.Context, c *fk.Cluster, cl *kafka.Client) (string, []*held) {
		r, err := cl.ListOffsets(ctx, &kafka.ListOffsetsRequest{Topics: map[string][]kafka.OffsetRequest{"b": {kafka.LastOffsetOf(0)}}})
		if err != nil {
			return errored + hx.ErrString(err), nil
		}
		want := c.Part("b", 0).End
		if ps := r.Topics["b"]; len(ps) != 1 || ps[0].Error != nil || ps[0].LastOffset != want {
			return fmt.Sprintf("list-offsets of b/0 answered %+v, the log end is %d", ps, want), nil
		}
		return "", nil
	},
}

func shapeCombos(n int, headers bool) [][]recShape {
	one := recShapes(headers)
	out := [][]recShape{nil}
	for i := 0; i < n; i++ {
		var next [][]recShape
		for _, p := range out {
			for _, s := range one {
				next = append(next, append(append([]recShape{}, p...), s))
			}
		}
		out = next
	}
	return out
}

// recordShapes enumerates: record format x batch of n shaped records x processing order x close style x
// other exchange x position of that exchange among the consumer's steps. One fetch of topic a, all records
// taken and held; then the steps, the other exchange before step `pos`; finally the records the other
// exchange was handed (fetch of b) are read. Every read is compared with the broker's log.
func recordShapes(t *testing.T, s *seqx.Suite, thorough bool) {
	s.Begin("held-records-of-every-shape-vs-another-exchange")
	type dim struct {
		format  int8
		n       int
		headers bool
		styles  []string
		others  []string
	}
	all := []string{"close-as-you-go", "close-unread", "close-value-first", "read-both-then-close"}
	ex := []string{"fetch-b", "list-offsets", "metadata"}
	dims := []dim{{2, 1, true, all, ex}, {2, 2, true, all, ex}, {2, 3, false, all[:1], ex[:1]}, {1, 2, false, all, ex[:1]}, {0, 2, false, all[:1], ex[:1]}}
	if thorough {
		dims = []dim{{2, 1, true, all, ex}, {2, 2, true, all, ex}, {2, 3, false, all, ex}, {2, 3, true, all[:1], ex[:1]}, {1, 1, false, all, ex}, {1, 2, false, all, ex}, {0, 1, false, all, ex}, {0, 2, false, all, ex}, {1, 3, false, all[:1], ex[:1]}}
	}
	ctx := context.Background()
	for _, d := range dims {
		for _, shapes := range shapeCombos(d.n, d.headers) {
			for _, order := range perms(d.n) {
				for _, style := range d.styles {
					// the steps that do something (a null key or value has nothing to read or close)
					var steps []step
					for _, ri := range order {
						for _, op := range closeStyles[style] {
							kind := shapes[ri].key
							if op == stReadV || op == stCloseV {
								kind = shapes[ri].val
							}
							if kind != 0 {
								steps = append(steps, step{ri, op})
							}
						}
					}
					for _, other := range d.others {
						for pos := 0; pos == 0 || pos < len(steps); pos++ {
							d, shapes, order, style, steps, other, pos := d, shapes, order, style, steps, other, pos
							id := fmt.Sprintf("format=%d records=%v order=%v %s %s before step %d/%d", d.format, shapes, order, style, other, pos, len(steps))
							s.Case(id, id, func() (string, *seqx.Viol) {
								var v *seqx.Viol
								key := fmt.Sprintf("f%d n%d %s %s", d.format, d.n, style, other)
								br := bub.Run(t, 0, func() {
									c := shapedCluster(d.format, shapes)
									cl, tr := clientops.NewClient(c)
									defer tr.CloseIdleConnections()
									hs, err := fetchHeld(ctx, cl, "a")
									if err != nil {
										key = "fetch-a-" + errored + hx.ErrString(err)
										return
									}
									if len(hs) != d.n {
										v = &seqx.Viol{Sig: "cross-talk:record-count", Msg: fmt.Sprintf("the fetch of topic a was handed %d records, the broker stored %d", len(hs), d.n)}
										return
									}
									var done []string
									var theirs []*held
									for i := 0; i <= len(steps); i++ {
										if i == pos {
											msg, bs := otherExchanges[other](ctx, c, cl)
											if strings.HasPrefix(msg, errored) {
												key = other + "-" + msg
											} else if msg != "" {
												v = &seqx.Viol{Sig: "cross-talk:other-call-answer", Msg: fmt.Sprintf("after %v: %s", done, msg)}
												return
											}
											theirs = bs
											done = append(done, other)
										}
										if i == len(steps) {
											break
										}
										st := steps[i]
										if msg := hs[st.rec].apply(c, st.op); msg != "" {
											v = &seqx.Viol{Sig: "cross-talk:held-record-bytes", Msg: fmt.Sprintf("%s, after %v (records %v)", msg, done, shapes)}
											return
										}
										done = append(done, fmt.Sprintf("%s#%d", stepNames[st.op], st.rec))
									}
									// what the other call was handed must be its own too, after everything the first caller did
									for _, h := range theirs {
										for _, op := range closeStyles["close-as-you-go"] {
											if msg := h.apply(c, op); msg != "" {
												v = &seqx.Viol{Sig: "cross-talk:held-record-bytes", Msg: fmt.Sprintf("%s, after %v (records %v)", msg, done, shapes)}
												return
											}
										}
									}
								})
								if br.Panic != "" {
									return "panic", &seqx.Viol{Sig: "panic:shapes", Msg: br.Panic}
								}
								return key, v
							})
						}
					}
				}
			}
		}
	}
}

// heldScn: two concurrent fetches of shaped topics on one Transport. Each caller takes its records,
// then consumes them one by one (read key and value, close both); between two records it waits for the
// explorer, so that every order of "caller X goes on" and "the broker answers caller Y" within the deviation
// bound is explored.
type heldScn struct {
	name   string
	shapes []recShape
	topics []string
	then   map[string]string // a second call made by the caller of that topic after its first record
}

func (sc *heldScn) scenario() *qx.Scenario {
	cfg := qx.Config{Horizon: 60 * time.Second, Quantum: 7 * time.Second, Grace: time.Second, MaxSteps: 600}
	return &qx.Scenario{Name: sc.name, Cfg: cfg, Body: func(x *qx.Exec) *qx.Outcome {
		c := hx.NewCluster()
		c.Auto = false
		for _, tn := range sc.topics {
			c.AddTopic(tn, 1, nil)
			c.Part(tn, 0).Append(shapedBatch(tn, 2, sc.shapes))
		}
		c.OnEvent = x.Notify
		cl, tr := clientops.NewClient(c)
		var mu sync.Mutex
		results := map[string]string{}
		viol := ""
		waiting := map[string]chan struct{}{}
		for _, tn := range sc.topics {
			tn := tn
			x.Go("fetch-"+tn, func() {
				res := func() string {
					note := ""
					hs, err := fetchHeld(context.Background(), cl, tn)
					if err != nil {
						return hx.ErrString(err)
					}
					for i, h := range hs {
						if i > 0 {
							// the caller does something else for a while
							ch := make(chan struct{})
							mu.Lock()
							waiting[tn] = ch
							mu.Unlock()
							x.Notify()
							<-ch
						}
						for _, op := range closeStyles["close-as-you-go"] {
							if msg := h.apply(c, op); msg != "" {
								return "WRONG: " + msg
							}
						}
						if i == 0 && sc.then[tn] != "" {
							if msg, _ := otherExchanges[sc.then[tn]](context.Background(), c, cl); strings.HasPrefix(msg, errored) {
								note = ", " + sc.then[tn] + " " + msg
							} else if msg != "" {
								return "OTHER: " + msg
							}
						}
					}
					return fmt.Sprintf("%d records ok%s", len(hs), note)
				}()
				mu.Lock()
				results[tn] = res
				if strings.HasPrefix(res, "WRONG: ") && viol == "" {
					viol = strings.TrimPrefix(res, "WRONG: ")
				}
				mu.Unlock()
			})
		}
		x.SetEnv(func() []qx.Action {
			var acts []qx.Action
			for _, e := range c.Pending() {
				e := e
				acts = append(acts, qx.Action{Label: fmt.Sprintf("ans#%d(b%d,api%d):ok", e.Seq, e.Broker, e.Key), Do: func() { c.Answer(e, "") }})
			}
			mu.Lock()
			var ws []string
			for tn := range waiting {
				ws = append(ws, tn)
			}
			mu.Unlock()
			sort.Strings(ws)
			for _, tn := range ws {
				tn := tn
				acts = append(acts, qx.Action{Label: "caller of fetch-" + tn + " goes on", Do: func() {
					mu.Lock()
					ch := waiting[tn]
					delete(waiting, tn)
					mu.Unlock()
					if ch != nil {
						close(ch)
					}
				}})
			}
			return acts
		})
		st := x.Run()
		tr.CloseIdleConnections()
		mu.Lock()
		defer mu.Unlock()
		var ks []string
		for k, r := range results {
			ks = append(ks, k+"="+r)
		}
		sort.Strings(ks)
		o := &qx.Outcome{Key: string(st) + " " + strings.Join(ks, " "), Obs: strings.Join(ks, " ")}
		if viol != "" {
			o.Violation = viol
			o.Sig = "cross-talk:held-record-bytes"
		}
		for _, r := range ks {
			if strings.Contains(r, "=OTHER: ") && o.Violation == "" {
				o.Violation = r
				o.Sig = "cross-talk:other-call-answer"
			}
		}
		if st != qx.StDone {
			o.Other = "hang"
		}
		return o
	}}
}
