// Package c09: Close / cancellation / use-after-close. The Writer part reuses
// the Writer driver (harness/wr); Reader, ConsumerGroup and Transport parts are
// added by their own scenario files.
package c09

import (
	"os"
	"testing"

	"verif/engine/qx"
	"verif/harness/wr"
)

func TestCheck(t *testing.T) {
	tier := os.Getenv("VERIF_TIER")
	items := wr.Suite("C09", tier)
	items = append(items, extraSuites(tier)...)
	qx.RunSuite(t, items)
}
