package c09

import "verif/engine/qx"

func extraSuites(tier string) []qx.SuiteItem { return nil }
