package c09

import (
	"context"
	"errors"
	"fmt"
	"io"
	"sort"
	"strings"
	"sync"
	"time"

	kafka "github.com/segmentio/kafka-go"
	"github.com/segmentio/kafka-go/protocol"
	"github.com/segmentio/kafka-go/protocol/leavegroup"

	"verif/engine/fk"
	"verif/engine/qx"
	"verif/engine/refwire"
	"verif/harness/clientops"
)

type rscn struct {
	name   string
	group  bool
	faults map[protocol.ApiKey][]string
	down   bool // a broker can be taken down (dials refused) at any point
	bound  int
}

func (sc *rscn) scenario() *qx.Scenario {
	cfg := qx.Config{Horizon: 120 * time.Second, Quantum: 7 * time.Second, Grace: 15 * time.Second, MaxSteps: 600}
	scn := &qx.Scenario{Name: sc.name, Cfg: cfg}
	scn.OnLeak = func(o *qx.Outcome) {
		if o.Violation == "" {
			o.Violation = "goroutines started by the Reader were still alive 15 s (virtual) after Close returned"
			o.Sig = "reader-leak"
		}
	}
	scn.Body = func(x *qx.Exec) *qx.Outcome {
		c := fk.New(1)
		c.AddTopic("t", 1, nil)
		b := &refwire.Batch{Format: 2, Base: 0, Last: 2}
		for o := int64(0); o < 3; o++ {
			b.Recs = append(b.Recs, refwire.Rec{Offset: o, TS: 1, Value: []byte("v")})
		}
		c.Part("t", 0).Append(b)
		c.OnEvent = x.Notify
		rc := kafka.ReaderConfig{Brokers: []string{"b1:9092"}, Topic: "t", Dialer: &kafka.Dialer{DialFunc: c.Dial, Timeout: 3 * time.Second},
			MinBytes: 1, MaxBytes: 1 << 20, MaxWait: 200 * time.Millisecond, QueueCapacity: 1, ReadBackoffMin: 50 * time.Millisecond, ReadBackoffMax: 200 * time.Millisecond,
			MaxAttempts: 2, ReadBatchTimeout: 4 * time.Second, HeartbeatInterval: time.Second, SessionTimeout: 6 * time.Second, RebalanceTimeout: 6 * time.Second, JoinGroupBackoff: time.Second, RetentionTime: time.Hour, ReadLagInterval: 8 * time.Second}
		if sc.group {
			rc.GroupID = "g"
		}
		r := kafka.NewReader(rc)
		var mu sync.Mutex
		type call struct {
			kind             string
			err              string
			startAt, endAt   time.Duration
			cancelAt         time.Duration
			cancelled, ended bool
		}
		var calls []*call
		var cancels []context.CancelFunc
		var closeStart, closeEnd time.Duration
		closeReturned, closeCalled := false, false
		closeJournalMark := -1
		closeGate := make(chan struct{}, 1)
		x.Go("app", func() {
			for i := 0; i < 5; i++ {
				ctx, cancel := context.WithCancel(context.Background())
				cl := &call{kind: "fetch", startAt: x.Now()}
				mu.Lock()
				calls = append(calls, cl)
				cancels = append(cancels, cancel)
				mu.Unlock()
				x.Notify()
				m, err := r.FetchMessage(ctx)
				mu.Lock()
				cl.ended, cl.endAt = true, x.Now()
				if err != nil {
					cl.err = errName(err)
				}
				cancels[len(cancels)-1] = nil
				mu.Unlock()
				cancel()
				if err != nil {
					if errors.Is(err, io.EOF) {
						return
					}
					continue
				}
				if sc.group {
					cctx, ccancel := context.WithCancel(context.Background())
					cc := &call{kind: "commit", startAt: x.Now()}
					mu.Lock()
					calls = append(calls, cc)
					cancels = append(cancels, ccancel)
					mu.Unlock()
					x.Notify()
					cerr := r.CommitMessages(cctx, m)
					mu.Lock()
					cc.ended, cc.endAt = true, x.Now()
					if cerr != nil {
						cc.err = errName(cerr)
					}
					cancels[len(cancels)-1] = nil
					mu.Unlock()
					ccancel()
				}
			}
		})
		x.Go("closer", func() {
			<-closeGate
			mu.Lock()
			closeStart = x.Now()
			mu.Unlock()
			r.Close()
			c.Lock()
			mark := len(c.Journal)
			c.Unlock()
			mu.Lock()
			closeEnd, closeReturned, closeJournalMark = x.Now(), true, mark
			mu.Unlock()
			// use after close
			_, err := r.FetchMessage(context.Background())
			mu.Lock()
			calls = append(calls, &call{kind: "fetch-after-close", err: errName(err), ended: true})
			mu.Unlock()
		})
		downDone := false
		x.SetEnv(func() []qx.Action {
			var acts []qx.Action
			ps := c.Pending()
			for _, e := range ps {
				e := e
				acts = append(acts, qx.Action{Label: fmt.Sprintf("ans#%d(api%d):ok", e.Seq, e.Key), Do: func() { c.Answer(e, "") }})
			}
			mu.Lock()
			if !closeCalled {
				acts = append(acts, qx.Action{Label: "close", Do: func() { mu.Lock(); closeCalled = true; mu.Unlock(); closeGate <- struct{}{} }})
			}
			for i, cf := range cancels {
				if cf != nil && !calls[i].cancelled {
					i, cf := i, cf
					acts = append(acts, qx.Action{Label: fmt.Sprintf("cancel-%s#%d", calls[i].kind, i), Do: func() {
						mu.Lock()
						calls[i].cancelled, calls[i].cancelAt = true, x.Now()
						mu.Unlock()
						cf()
					}})
				}
			}
			mu.Unlock()
			if sc.down && !downDone {
				acts = append(acts, qx.Action{Label: "broker-goes-down", Do: func() {
					downDone = true
					c.Lock()
					c.Brokers[0].Down = true
					c.Unlock()
					for _, id := range c.OpenConns() {
						c.CutConn(id)
					}
				}})
			}
			for _, e := range ps {
				e := e
				for _, f := range sc.faults[e.Key] {
					f := f
					acts = append(acts, qx.Action{Label: fmt.Sprintf("ans#%d(api%d):%s", e.Seq, e.Key, f), Do: func() { c.Answer(e, f) }})
				}
			}
			return acts
		})
		st := x.Run()
		if !closeReturned {
			go r.Close()
		}
		mu.Lock()
		cr := closeReturned
		mu.Unlock()
		if cr && st == qx.StDone {
			x.Release()
			time.Sleep(12 * time.Second) // goroutines and connections may outlive Close by the network timeouts
		}
		mu.Lock()
		defer mu.Unlock()
		o := &qx.Outcome{}
		viol := func(sig, msg string) {
			if o.Violation == "" {
				o.Violation, o.Sig = msg, sig
			}
		}
		var kb strings.Builder
		fmt.Fprintf(&kb, "%s;", st)
		for _, cl := range calls {
			fmt.Fprintf(&kb, "%s=%s ", cl.kind, cl.err)
			if cl.kind == "fetch-after-close" && cl.err != "io.EOF" {
				viol("fetch-after-close", fmt.Sprintf("FetchMessage after Close returned %q, want io.EOF", cl.err))
			}
			if cl.cancelled && cl.ended && cl.err == "ctx" && cl.endAt > cl.cancelAt {
				viol("slow-cancel:"+cl.kind, fmt.Sprintf("%s cancelled at %v returned at %v", cl.kind, cl.cancelAt, cl.endAt))
			}
			if cl.cancelled && !cl.ended {
				viol("cancel-ignored:"+cl.kind, fmt.Sprintf("%s did not return although its context was cancelled at %v", cl.kind, cl.cancelAt))
			}
		}
		if st != qx.StDone {
			what := "application call"
			if closeCalled && !closeReturned {
				what = "Reader.Close"
			}
			viol("hang:"+strings.ReplaceAll(what, " ", "-"), fmt.Sprintf("%s did not return within the virtual horizon (%s)", what, kb.String()))
		}
		c.Lock()
		if closeReturned {
			// nothing is sent after Close returned, the group was left, connections are closed
			for _, e := range c.Journal[closeJournalMark:] {
				if e.Key == protocol.ApiVersions {
					continue // sent by a dial that was in flight; carries nothing of the Reader's
				}
				viol("request-after-close", fmt.Sprintf("request api=%d arrived at %v after Reader.Close had returned at %v", e.Key, e.At, closeEnd))
			}
			if sc.group {
				member := ""
				if g := c.Groups["g"]; g != nil {
					for id := range g.Members {
						member = id
					}
				}
				left := false
				fine := true
				for _, e := range c.Journal {
					if _, ok := e.Msg.(*leavegroup.Request); ok {
						left = true
					}
					if e.Answer != "ok" || e.AnsweredAt-e.At >= 3*time.Second {
						fine = false
					}
				}
				if member != "" && !left && fine && !downDone {
					viol("no-leave-on-close", fmt.Sprintf("Reader.Close returned but member %s never sent LeaveGroup", member))
				}
			}
			var open []int
			for i := range c.Conns {
				if !c.ConnClosedLocked(i) {
					open = append(open, i)
				}
			}
			sort.Ints(open)
			if len(open) > 0 {
				viol("connection-left-open", fmt.Sprintf("connections %v were still open 12 s (virtual) after Reader.Close returned", open))
			}
			if closeEnd-closeStart > 20*time.Second {
				viol("slow-close", fmt.Sprintf("Reader.Close took %v", closeEnd-closeStart))
			}
		}
		c.Unlock()
		o.Key = kb.String()
		return o
	}
	return scn
}

func errName(err error) string {
	switch {
	case err == nil:
		return ""
	case errors.Is(err, io.EOF):
		return "io.EOF"
	case errors.Is(err, context.Canceled):
		return "ctx"
	case errors.Is(err, io.ErrClosedPipe):
		return "closed-pipe"
	}
	s := err.Error()
	if len(s) > 40 {
		s = s[:40]
	}
	return s
}

// Transport round trips cancelled at any point
func transportCancel(bound int) *qx.Scenario {
	scn := &qx.Scenario{Name: "transport-cancel-roundtrip", Cfg: qx.Config{Horizon: 60 * time.Second, Quantum: 7 * time.Second, Grace: time.Second, MaxSteps: 300}}
	scn.Body = func(x *qx.Exec) *qx.Outcome {
		c := fk.New(2)
		c.AddTopic("t", 2, func(p int) int { return p + 1 })
		c.OnEvent = x.Notify
		cl, tr := clientops.NewClient(c)
		cl.Timeout = 0
		var mu sync.Mutex
		type res struct {
			err      string
			cancelAt time.Duration
			endAt    time.Duration
			ended    bool
		}
		rs := []*res{{}, {}}
		cancels := []context.CancelFunc{nil, nil}
		for i := 0; i < 2; i++ {
			i := i
			ctx, cancel := context.WithCancel(context.Background())
			cancels[i] = cancel
			x.Go(fmt.Sprintf("T%d", i), func() {
				_, err := cl.ListOffsets(ctx, &kafka.ListOffsetsRequest{Topics: map[string][]kafka.OffsetRequest{"t": {kafka.LastOffsetOf(i)}}})
				mu.Lock()
				rs[i].ended, rs[i].endAt, rs[i].err = true, x.Now(), errName(err)
				cancels[i] = nil
				mu.Unlock()
			})
		}
		x.SetEnv(func() []qx.Action {
			var acts []qx.Action
			for _, e := range c.Pending() {
				e := e
				acts = append(acts, qx.Action{Label: fmt.Sprintf("ans#%d(b%d,api%d):ok", e.Seq, e.Broker, e.Key), Do: func() { c.Answer(e, "") }})
			}
			mu.Lock()
			for i, cf := range cancels {
				if cf != nil && rs[i].cancelAt == 0 {
					i, cf := i, cf
					acts = append(acts, qx.Action{Label: fmt.Sprintf("cancel-T%d", i), Do: func() { mu.Lock(); rs[i].cancelAt = x.Now() + 1; mu.Unlock(); cf() }})
				}
			}
			mu.Unlock()
			return acts
		})
		st := x.Run()
		tr.CloseIdleConnections()
		mu.Lock()
		defer mu.Unlock()
		o := &qx.Outcome{Key: string(st)}
		for i, r := range rs {
			o.Key += fmt.Sprintf(" T%d=%s", i, r.err)
			if r.cancelAt > 0 && (!r.ended || r.endAt > r.cancelAt) && o.Violation == "" && r.err != "" {
				o.Violation = fmt.Sprintf("round trip T%d cancelled at %v returned at %v (ended=%v)", i, r.cancelAt-1, r.endAt, r.ended)
				o.Sig = "transport-slow-cancel"
			}
			if r.cancelAt > 0 && r.ended && r.err != "ctx" && r.err != "" && o.Violation == "" {
				o.Violation = fmt.Sprintf("cancelled round trip T%d returned %q, not the context's error", i, r.err)
				o.Sig = "transport-cancel-error"
			}
		}
		if st != qx.StDone && o.Violation == "" {
			o.Violation, o.Sig = "round trips did not return within the horizon", "transport-hang"
		}
		return o
	}
	return scn
}

// A Writer that owns its Transport (as NewWriter's do): WriteMessages cancelled and Close called at any point
// of connection set-up and of the produce exchange. After Close, once the brokers have answered whatever was
// outstanding, no connection the Writer's transport opened may stay open and no goroutine may remain.
func writerOwnTransport(bound int) *qx.Scenario {
	scn := &qx.Scenario{Name: "writer-owning-transport-close", Cfg: qx.Config{Horizon: 60 * time.Second, Quantum: 4 * time.Second, Grace: 8 * time.Second, MaxSteps: 300}}
	scn.OnLeak = func(o *qx.Outcome) {
		if o.Violation == "" {
			o.Violation = "goroutines started through the Writer were still alive 8 s (virtual) after Close returned and every outstanding request was answered"
			o.Sig = "writer-transport-leak"
		}
	}
	scn.Body = func(x *qx.Exec) *qx.Outcome {
		c := fk.New(1)
		c.AddTopic("t", 1, nil)
		c.OnEvent = x.Notify
		tr := &kafka.Transport{Dial: c.Dial, DialTimeout: 3 * time.Second, IdleTimeout: 30 * time.Second, MetadataTTL: 6 * time.Second}
		w := &kafka.Writer{Addr: kafka.TCP("b1:9092"), Topic: "t", Transport: tr, BatchTimeout: 10 * time.Millisecond, MaxAttempts: 1}
		kafka.VerifOwnTransport(w, tr)
		ctx, cancel := context.WithCancel(context.Background())
		var mu sync.Mutex
		werr, wdone, cancelled, closing := "", false, false, false
		x.Go("T0", func() {
			err := w.WriteMessages(ctx, kafka.Message{Value: []byte("v")})
			mu.Lock()
			werr, wdone = errName(err), true
			mu.Unlock()
		})
		x.SetEnv(func() []qx.Action {
			var acts []qx.Action
			for _, e := range c.Pending() {
				e := e
				acts = append(acts, qx.Action{Label: fmt.Sprintf("ans#%d(api%d):ok", e.Seq, e.Key), Do: func() { c.Answer(e, "") }})
			}
			mu.Lock()
			defer mu.Unlock()
			if !cancelled && !wdone {
				acts = append(acts, qx.Action{Label: "cancel-T0", Do: func() { mu.Lock(); cancelled = true; mu.Unlock(); cancel() }})
			}
			if !closing {
				acts = append(acts, qx.Action{Label: "close", Do: func() {
					mu.Lock()
					closing = true
					mu.Unlock()
					x.Go("closer", func() { w.Close() })
				}})
			}
			return acts
		})
		st := x.Run()
		x.Release()
		cancel()
		w.Close()
		// the brokers answer what is still outstanding (a handshake of a connection nobody waits for any more)
		for i := 0; i < 6; i++ {
			for _, e := range c.Pending() {
				c.Answer(e, "")
			}
			time.Sleep(time.Second)
		}
		mu.Lock()
		defer mu.Unlock()
		o := &qx.Outcome{Key: fmt.Sprintf("%s write=%s cancelled=%v", st, werr, cancelled)}
		if open := c.OpenConns(); len(open) > 0 {
			o.Violation = fmt.Sprintf("connections %v opened by the Writer's transport are still open 6 s after Close returned (WriteMessages: %s)", open, werr)
			o.Sig = "writer-transport-connection-left-open"
		}
		if st != qx.StDone && o.Violation == "" {
			o.Violation, o.Sig = "WriteMessages/Close did not return within the horizon", "writer-transport-hang"
		}
		return o
	}
	return scn
}

func extraSuites(tier string) []qx.SuiteItem {
	b := 2
	if tier == "thorough" {
		b = 3
	}
	ff := map[protocol.ApiKey][]string{protocol.Fetch: {"stall", "drop"}, protocol.Metadata: {"stall"}, protocol.ListOffsets: {"drop"}}
	gf := map[protocol.ApiKey][]string{protocol.Fetch: {"stall"}, protocol.Heartbeat: {"err:27", "stall"}, protocol.OffsetCommit: {"stall", "err:27"}, protocol.JoinGroup: {"stall"}, protocol.LeaveGroup: {"stall"}}
	return append([]qx.SuiteItem{
		{Scn: (&rscn{name: "reader-close-and-cancel", faults: ff}).scenario(), Bound: b},
		{Scn: (&rscn{name: "reader-broker-down", faults: map[protocol.ApiKey][]string{protocol.Fetch: {"drop"}}, down: true}).scenario(), Bound: b},
		{Scn: (&rscn{name: "group-reader-close-and-cancel", group: true, faults: gf}).scenario(), Bound: b},
		{Scn: transportCancel(b + 1), Bound: b + 1},
		{Scn: writerOwnTransport(b + 1), Bound: b + 1},
	}, readerFineSuite(tier)...)
}
