package c09

// Reader.Close against the calls that (re)start the partition reader, at the synchronisation points of reader.go.
//
// A partition Reader (no group). Reader.start - reached with the Reader's mutex held from SetOffset on a Reader that
// has been started, from SetOffsetAt through SetOffset, and from the first FetchMessage/ReadMessage - cancels the
// previous partition reader, installs the cancel function of the new one and adds it to the WaitGroup Close waits
// for. The threads of a scenario run one of those calls each (followed by a FetchMessage), another thread calls Close
// (followed by a FetchMessage, which must give io.EOF); every interleaving of the threads at the lock, WaitGroup,
// goroutine-start and channel wake-up points of reader.go within the deviation bound is explored, ticks of virtual
// time included. The brokers answer by themselves (the fault answers are the business of the sibling scenarios), or
// refuse every connection.
//
// Oracle, as for the sibling Reader scenarios: Close and every call return within the virtual horizon (a FetchMessage
// that was blocked when the Reader was closed returns io.EOF), FetchMessage after Close gives io.EOF, no Fetch reaches
// a broker after Close returned, every connection is closed and no goroutine is left 12 s (virtual) after the
// scenario (the lag reader, which Close does not wait for, may dial once more with its cancelled context; dials are
// recorded in the observations, the goroutine census is what judges them).

import (
	"context"
	"fmt"
	"sort"
	"strings"
	"sync"
	"testing/synctest"
	"time"

	kafka "github.com/segmentio/kafka-go"
	"github.com/segmentio/kafka-go/protocol"
	"github.com/segmentio/kafka-go/zzverif/vhook"

	"verif/engine/fk"
	"verif/engine/qx"
	"verif/engine/refwire"
)

type rfine struct {
	name    string
	ops     []string // one thread each: "setoffset", "setoffsetat", "fetch" (FetchMessage), "read" (ReadMessage)
	started bool     // the Reader has delivered its first message before the threads start
	down    bool     // every dial is refused (the partition readers loop in dial and back-off)
}

func (sc *rfine) scenario() *qx.Scenario {
	cfg := qx.Config{Fine: true, Files: []string{"reader.go"}, WakeFiles: []string{"reader.go"}, Horizon: 60 * time.Second, Quantum: 7 * time.Second, Grace: 15 * time.Second, MaxSteps: 400}
	scn := &qx.Scenario{Name: sc.name, Cfg: cfg}
	scn.OnLeak = func(o *qx.Outcome) {
		if o.Violation == "" {
			o.Violation = "goroutines started by the Reader were still alive 15 s (virtual) after Close returned"
			o.Sig = "reader-leak"
		}
	}
	scn.Body = func(x *qx.Exec) *qx.Outcome {
		c := fk.New(1)
		c.AddTopic("t", 1, nil)
		b := &refwire.Batch{Format: 2, Base: 0, Last: 2}
		for o := int64(0); o < 3; o++ {
			b.Recs = append(b.Recs, refwire.Rec{Offset: o, TS: 1000 + o, Value: []byte("v")})
		}
		c.Part("t", 0).Append(b)
		c.Auto = true
		c.OnEvent = x.Notify
		// The lag reader is part of the scenarios in which the threads start the Reader themselves; a Reader started by
		// the set-up has none (Close would wake it together with the partition reader as two goroutines the scheduler
		// has not met yet, which it then numbers in the order the Go runtime lets them arrive).
		lagInterval := 8 * time.Second
		if sc.started {
			lagInterval = -1
		}
		r := kafka.NewReader(kafka.ReaderConfig{Brokers: []string{"b1:9092"}, Topic: "t", Dialer: &kafka.Dialer{DialFunc: c.Dial, Timeout: 3 * time.Second},
			MinBytes: 1, MaxBytes: 1 << 20, MaxWait: 3 * time.Second, QueueCapacity: 1, ReadBackoffMin: 500 * time.Millisecond, ReadBackoffMax: 4 * time.Second,
			MaxAttempts: 2, ReadBatchTimeout: 4 * time.Second, RetentionTime: time.Hour, ReadLagInterval: lagInterval})
		var mu sync.Mutex
		type call struct {
			thread, kind, err string
			off               int64
			ended             bool
		}
		var calls []*call
		begin := func(thread, kind string) *call {
			cl := &call{thread: thread, kind: kind, off: -1}
			mu.Lock()
			calls = append(calls, cl)
			mu.Unlock()
			return cl
		}
		end := func(cl *call, err error, off int64) {
			mu.Lock()
			cl.ended, cl.err, cl.off = true, errName(err), off
			mu.Unlock()
			x.Notify()
		}
		brokerDown := func() {
			c.Lock()
			c.Brokers[0].Down = true
			c.Unlock()
			for _, id := range c.OpenConns() {
				c.CutConn(id)
			}
		}
		// A started Reader: the first FetchMessage is made before the scheduler takes over (scheduling the set-up as well
		// multiplies the schedules by those of the set-up without adding to what is examined here).
		setupErr := ""
		if sc.started {
			x.Free(func() {
				if m, err := r.FetchMessage(context.Background()); err != nil || m.Offset != 0 {
					setupErr = fmt.Sprintf("set-up FetchMessage: offset %d, error %v", m.Offset, err)
				}
				// every goroutine comes to rest (the partition reader with the next message in hand) before the threads
				// start: the same state in every execution
				synctest.Wait()
			})
		}
		if sc.down {
			brokerDown()
		}
		var closeEnd time.Duration
		closeReturned := false
		closeJournalMark := -1
		for i, op := range sc.ops {
			name := fmt.Sprintf("T%d", i)
			op := op
			x.Go(name, func() {
				// which thread takes its first step is the scheduler's decision too (what a call does before its first
				// synchronisation point - Close marks the lag reader as not to be started, the first FetchMessage starts
				// it - would otherwise be ordered by the Go runtime)
				vhook.Point(vhook.KUser, nil)
				// no deadline of the application's: what ends a blocked call is Close
				ctx := context.Background()
				switch op {
				case "setoffset":
					cl := begin(name, "SetOffset")
					end(cl, r.SetOffset(2), -1)
				case "setoffsetat":
					cl := begin(name, "SetOffsetAt")
					end(cl, r.SetOffsetAt(ctx, time.UnixMilli(1002)), -1)
				case "read":
					cl := begin(name, "ReadMessage")
					m, err := r.ReadMessage(ctx)
					end(cl, err, m.Offset)
					return
				}
				cl := begin(name, "FetchMessage")
				m, err := r.FetchMessage(ctx)
				end(cl, err, m.Offset)
			})
		}
		x.Go("closer", func() {
			vhook.Point(vhook.KUser, nil)
			r.Close()
			c.Lock()
			jm := len(c.Journal)
			c.Unlock()
			mu.Lock()
			closeEnd, closeReturned, closeJournalMark = x.Now(), true, jm
			mu.Unlock()
			x.Notify()
			cl := begin("closer", "fetch-after-close")
			m, err := r.FetchMessage(context.Background())
			end(cl, err, m.Offset)
		})
		st := x.Run()
		if !closeReturned {
			go r.Close()
		}
		mu.Lock()
		cr := closeReturned
		mu.Unlock()
		if cr && st == qx.StDone {
			x.Release()
			time.Sleep(12 * time.Second) // goroutines and connections may outlive Close by the network timeouts
		}
		mu.Lock()
		defer mu.Unlock()
		o := &qx.Outcome{}
		viol := func(sig, msg string) {
			if o.Violation == "" {
				o.Violation, o.Sig = msg, sig
			}
		}
		if setupErr != "" {
			viol("setup", setupErr)
		}
		var kb strings.Builder
		fmt.Fprintf(&kb, "%s;", st)
		sort.SliceStable(calls, func(i, j int) bool { return calls[i].thread < calls[j].thread })
		var pending []string
		for _, cl := range calls {
			fmt.Fprintf(&kb, "%s.%s=%s@%d ", cl.thread, cl.kind, cl.err, cl.off)
			if !cl.ended {
				pending = append(pending, cl.thread+"."+cl.kind)
				continue
			}
			switch cl.kind {
			case "fetch-after-close":
				if cl.err != "io.EOF" {
					viol("fetch-after-close", fmt.Sprintf("FetchMessage after Close returned %q (offset %d), want io.EOF", cl.err, cl.off))
				}
			case "FetchMessage", "ReadMessage":
				// a message, or io.EOF because the Reader was closed; the dial errors of the unreachable broker are
				// passed on as they are
				if cl.err != "" && cl.err != "io.EOF" && !sc.down {
					viol("fetch-error", fmt.Sprintf("%s of %s returned %q although the brokers answered every request; a call that the Reader's Close interrupts returns io.EOF", cl.kind, cl.thread, cl.err))
				}
			case "SetOffset", "SetOffsetAt":
				if cl.err != "" && cl.err != "closed-pipe" && !sc.down {
					viol("setoffset-error", fmt.Sprintf("%s of %s returned %q, want nil or io.ErrClosedPipe", cl.kind, cl.thread, cl.err))
				}
			}
		}
		if st != qx.StDone {
			what := "a call of the application (" + strings.Join(pending, ", ") + ")"
			sig := "hang:application-call"
			if !closeReturned {
				what, sig = "Reader.Close", "hang:Reader.Close"
				if len(pending) > 0 {
					what += " (and " + strings.Join(pending, ", ") + ")"
				}
			}
			c.Lock()
			nf, nd := 0, 0
			for _, e := range c.Journal {
				if e.Key == protocol.Fetch {
					nf++
				}
			}
			nd = len(c.Dials)
			c.Unlock()
			viol(sig, fmt.Sprintf("%s did not return within the virtual horizon of %v (status %s at %v; the brokers have seen %d dials and %d Fetch requests so far); calls: %s", what, x.Cfg.Horizon, st, x.Now(), nd, nf, kb.String()))
		}
		c.Lock()
		if closeReturned {
			for _, e := range c.Journal[closeJournalMark:] {
				if e.Key == protocol.Fetch {
					viol("request-after-close", fmt.Sprintf("a Fetch request arrived at %v after Reader.Close had returned at %v", e.At, closeEnd))
				}
			}
			if st == qx.StDone {
				var open []int
				for i := range c.Conns {
					if !c.ConnClosedLocked(i) {
						open = append(open, i)
					}
				}
				if len(open) > 0 {
					viol("connection-left-open", fmt.Sprintf("connections %v were still open 12 s (virtual) after Reader.Close returned", open))
				}
			}
			// (how long Close took is not judged here: at this level the scheduler may let virtual time pass while the
			// closing thread is runnable; bounded time = Close returns within the horizon)
		}
		var dials []string
		for _, d := range c.Dials {
			dials = append(dials, fmt.Sprintf("%v:c%d%s", d.At, d.Conn, d.Err))
		}
		c.Unlock()
		o.Key = kb.String()
		o.Obs = map[string]any{"close_returned_at": closeEnd.String(), "dials": dials}
		return o
	}
	return scn
}

func readerFineSuite(tier string) []qx.SuiteItem {
	// the deviation bounds of the lock-level Writer scenarios
	b := 3
	if tier == "thorough" {
		b = 4
	}
	scs := []*rfine{
		{name: "reader-close-vs-setoffset", ops: []string{"setoffset"}, started: true},
		{name: "reader-close-vs-setoffsetat", ops: []string{"setoffsetat"}, started: true},
		{name: "reader-close-vs-first-fetch", ops: []string{"fetch"}},
		{name: "reader-close-vs-first-read", ops: []string{"read"}},
		{name: "reader-close-vs-setoffset-and-fetch", ops: []string{"setoffset", "fetch"}, started: true},
		{name: "reader-close-vs-setoffset-broker-down", ops: []string{"setoffset"}, started: true, down: true},
		{name: "reader-close-vs-first-fetch-broker-down", ops: []string{"fetch"}, down: true},
	}
	var items []qx.SuiteItem
	for _, sc := range scs {
		// small scenarios: each is explored whole by one shard
		items = append(items, qx.SuiteItem{Scn: sc.scenario(), Bound: b, Whole: true})
	}
	return items
}
