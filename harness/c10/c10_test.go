// Package c10: the types documented as goroutine-safe are free of data races.
//
// Programs: for every such type, every unordered pair of its exported methods (a method with itself included)
// runs on two client threads against one shared instance (a third thread is added in the thorough tier).
// Schedules: the explorer enumerates the interleavings of the synchronisation operations of the files of that
// type (locks, atomics, pools, goroutine starts, network writes) up to the deviation bound. Oracle: the Go race
// detector, whose happens-before relation consists of the library's own synchronisation only (the scheduler,
// the fake network and the fake brokers are hidden from it, see engine/racectl): on each explored schedule it
// decides whether two conflicting accesses are unordered.
package c10

import (
	"bytes"
	"context"
	"fmt"
	"io"
	"os"
	"strings"
	"testing"
	"time"

	kafka "github.com/segmentio/kafka-go"
	"github.com/segmentio/kafka-go/compress"
	"github.com/segmentio/kafka-go/zzverif/vhook"

	"verif/engine/fk"
	"verif/engine/qx"
	"verif/engine/racectl"
	"verif/engine/refwire"
	"verif/harness/hx"
)

// target is one shared instance and its method menu.
type target struct {
	name  string
	files []string
	// setup builds the instance inside the bubble and returns the method menu and a cleanup
	setup func(c *fk.Cluster) (ops map[string]func() string, cleanup func())
	// pairs to leave out (documented as not concurrent), "a|b" with a<=b
	skip map[string]bool
}

func cluster() *fk.Cluster {
	c := fk.New(2)
	c.Auto = true
	c.AddTopic("t", 1, nil)
	c.AddTopic("u", 2, nil)
	p := c.Part("t", 0)
	b := &refwire.Batch{Format: 2, Base: 0, Last: 5}
	for o := int64(0); o < 6; o++ {
		b.Recs = append(b.Recs, refwire.Rec{Offset: o, TS: 1000 + o, Key: []byte("k"), Value: bytes.Repeat([]byte{byte('a' + o)}, 40)})
	}
	p.Append(b)
	return c
}

func es(err error) string { return hx.ErrString(err) }

func connTarget() *target {
	return &target{name: "Conn", files: []string{"conn.go", "batch.go"}, setup: func(c *fk.Cluster) (map[string]func() string, func()) {
		conn, _ := hx.Conn(c, "t", 0)
		ops := map[string]func() string{
			"ReadBatch": func() string {
				b := conn.ReadBatch(1, 1<<20)
				m, err := b.ReadMessage()
				return fmt.Sprint(m.Offset, es(err), es(b.Close()))
			},
			"ReadMessage": func() string { m, err := conn.ReadMessage(1 << 20); return fmt.Sprint(m.Offset, es(err)) },
			"WriteMessages": func() string {
				n, err := conn.WriteMessages(kafka.Message{Value: []byte("w")})
				return fmt.Sprint(n, es(err))
			},
			"Seek":          func() string { o, err := conn.Seek(2, kafka.SeekStart); return fmt.Sprint(o, es(err)) },
			"Seek-absolute": func() string { o, err := conn.Seek(3, kafka.SeekAbsolute); return fmt.Sprint(o, es(err)) },
			"Seek-abs-nocheck": func() string {
				o, err := conn.Seek(3, kafka.SeekAbsolute|kafka.SeekDontCheck)
				return fmt.Sprint(o, es(err))
			},
			"Seek-cur-nocheck": func() string {
				o, err := conn.Seek(1, kafka.SeekCurrent|kafka.SeekDontCheck)
				return fmt.Sprint(o, es(err))
			},
			"Seek-end":         func() string { o, err := conn.Seek(0, kafka.SeekEnd); return fmt.Sprint(o, es(err)) },
			"ReadOffsets":      func() string { a, b, err := conn.ReadOffsets(); return fmt.Sprint(a, b, es(err)) },
			"Brokers":          func() string { b, err := conn.Brokers(); return fmt.Sprint(len(b), es(err)) },
			"Offset":           func() string { o, w := conn.Offset(); return fmt.Sprint(o >= 0, w) },
			"SetDeadline":      func() string { return es(conn.SetDeadline(time.Now().Add(20 * time.Second))) },
			"SetReadDeadline":  func() string { return es(conn.SetReadDeadline(time.Now().Add(20 * time.Second))) },
			"SetWriteDeadline": func() string { return es(conn.SetWriteDeadline(time.Now().Add(20 * time.Second))) },
			"ReadLastOffset":   func() string { o, err := conn.ReadLastOffset(); return fmt.Sprint(o >= 6, es(err)) },
			"ReadPartitions":   func() string { ps, err := conn.ReadPartitions("t"); return fmt.Sprint(len(ps), es(err)) },
			"ApiVersions":      func() string { v, err := conn.ApiVersions(); return fmt.Sprint(len(v) > 0, es(err)) },
			"SetRequiredAcks":  func() string { return es(conn.SetRequiredAcks(1)) },
			"Close":            func() string { return es(conn.Close()) },
			"LocalRemoteBroker": func() string {
				conn.LocalAddr()
				conn.RemoteAddr()
				return fmt.Sprint(conn.Broker().ID)
			},
		}
		return ops, func() { conn.Close() }
	}}
}

func batchTarget() *target {
	return &target{name: "Batch", files: []string{"batch.go", "conn.go"}, setup: func(c *fk.Cluster) (map[string]func() string, func()) {
		conn, _ := hx.Conn(c, "t", 0)
		b := conn.ReadBatch(1, 1<<20)
		ops := map[string]func() string{
			"Read-short":    func() string { n, err := b.Read(make([]byte, 8)); return fmt.Sprint(n, es(err)) },
			"Read":          func() string { n, err := b.Read(make([]byte, 256)); return fmt.Sprint(n, es(err)) },
			"ReadMessage":   func() string { m, err := b.ReadMessage(); return fmt.Sprint(len(m.Value), es(err)) },
			"Offset":        func() string { return fmt.Sprint(b.Offset() >= 0) },
			"HighWaterMark": func() string { return fmt.Sprint(b.HighWaterMark()) },
			"Partition":     func() string { return fmt.Sprint(b.Partition()) },
			"Throttle":      func() string { return fmt.Sprint(b.Throttle()) },
			"Err":           func() string { return es(b.Err()) },
			"Close":         func() string { return es(b.Close()) },
		}
		return ops, func() { b.Close(); conn.Close() }
	}}
}

func writerTarget(async bool) *target {
	name := "Writer"
	if async {
		name = "Writer-async"
	}
	return &target{name: name, files: []string{"writer.go", "transport.go", "balancer.go"}, setup: func(c *fk.Cluster) (map[string]func() string, func()) {
		tr := &kafka.Transport{Dial: c.Dial, MetadataTTL: time.Hour}
		w := &kafka.Writer{Addr: kafka.TCP("b1:9092"), Topic: "u", Transport: tr, BatchTimeout: 10 * time.Millisecond, Async: async, MaxAttempts: 1}
		ops := map[string]func() string{
			"WriteMessages": func() string {
				return es(w.WriteMessages(context.Background(), kafka.Message{Value: []byte("a")}, kafka.Message{Value: []byte("b")}))
			},
			"WriteMessages-1": func() string {
				return es(w.WriteMessages(context.Background(), kafka.Message{Key: []byte("k"), Value: []byte("c")}))
			},
			"Stats": func() string { st := w.Stats(); return fmt.Sprint(st.Topic) },
			"Close": func() string { return es(w.Close()) },
		}
		return ops, func() { w.Close(); tr.CloseIdleConnections() }
	}}
}

func clientTarget() *target {
	return &target{name: "Client+Transport", files: []string{"transport.go", "client.go"}, setup: func(c *fk.Cluster) (map[string]func() string, func()) {
		tr := &kafka.Transport{Dial: c.Dial, MetadataTTL: time.Hour}
		cl := &kafka.Client{Addr: kafka.TCP("b1:9092"), Transport: tr, Timeout: 10 * time.Second}
		ctx := context.Background()
		ops := map[string]func() string{
			"Metadata": func() string {
				r, err := cl.Metadata(ctx, &kafka.MetadataRequest{Topics: []string{"t"}})
				if err != nil {
					return es(err)
				}
				return fmt.Sprint(len(r.Topics))
			},
			"ListOffsets": func() string {
				r, err := cl.ListOffsets(ctx, &kafka.ListOffsetsRequest{Topics: map[string][]kafka.OffsetRequest{"t": {kafka.LastOffsetOf(0)}}})
				if err != nil {
					return es(err)
				}
				return fmt.Sprint(len(r.Topics["t"]))
			},
			"Fetch": func() string {
				r, err := cl.Fetch(ctx, &kafka.FetchRequest{Topic: "t", Partition: 0, Offset: 1, MaxBytes: 1 << 20, MaxWait: 100 * time.Millisecond})
				n := 0
				if err == nil && r.Records != nil {
					for {
						rec, err := r.Records.ReadRecord()
						if err != nil {
							break
						}
						n++
						if rec.Key != nil {
							rec.Key.Close()
						}
						if rec.Value != nil {
							io.Copy(io.Discard, rec.Value)
							rec.Value.Close()
						}
					}
				}
				return fmt.Sprint(n, es(err))
			},
			"Produce": func() string {
				_, err := cl.Produce(ctx, &kafka.ProduceRequest{Topic: "u", Partition: 1, RequiredAcks: kafka.RequireOne, Records: kafka.NewRecordReader(kafka.Record{Value: kafka.NewBytes([]byte("p"))})})
				return es(err)
			},
			"ApiVersions":          func() string { _, err := cl.ApiVersions(ctx, &kafka.ApiVersionsRequest{}); return es(err) },
			"CloseIdleConnections": func() string { tr.CloseIdleConnections(); return "" },
		}
		return ops, func() { tr.CloseIdleConnections() }
	}}
}

func readerTarget() *target {
	return &target{name: "Reader", files: []string{"reader.go", "conn.go", "batch.go"}, setup: func(c *fk.Cluster) (map[string]func() string, func()) {
		r := kafka.NewReader(kafka.ReaderConfig{Brokers: []string{"b1:9092"}, Topic: "t", Partition: 0, MinBytes: 1, MaxBytes: 1 << 20, MaxWait: 200 * time.Millisecond,
			Dialer: &kafka.Dialer{DialFunc: c.Dial, Timeout: 5 * time.Second}, ReadLagInterval: 8 * time.Second, ReadBackoffMin: 50 * time.Millisecond, ReadBackoffMax: 100 * time.Millisecond})
		short := func() (context.Context, context.CancelFunc) {
			return context.WithTimeout(context.Background(), 3*time.Second)
		}
		ops := map[string]func() string{
			"FetchMessage": func() string {
				ctx, cf := short()
				defer cf()
				m, err := r.FetchMessage(ctx)
				return fmt.Sprint(m.Offset >= 0, es(err))
			},
			"ReadMessage": func() string {
				ctx, cf := short()
				defer cf()
				m, err := r.ReadMessage(ctx)
				return fmt.Sprint(m.Offset >= 0, es(err))
			},
			"SetOffset": func() string { return es(r.SetOffset(3)) },
			"Offset":    func() string { return fmt.Sprint(r.Offset() >= 0) },
			"Lag":       func() string { return fmt.Sprint(r.Lag() >= 0) },
			"ReadLag": func() string {
				ctx, cf := short()
				defer cf()
				l, err := r.ReadLag(ctx)
				return fmt.Sprint(l >= 0, es(err))
			},
			"Stats": func() string { return r.Stats().Topic },
			"Close": func() string { return es(r.Close()) },
		}
		return ops, func() { r.Close() }
	}}
}

func groupReaderTarget() *target {
	return &target{name: "Reader-group", files: []string{"reader.go", "consumergroup.go"}, setup: func(c *fk.Cluster) (map[string]func() string, func()) {
		r := kafka.NewReader(kafka.ReaderConfig{Brokers: []string{"b1:9092"}, Topic: "t", GroupID: "g", MinBytes: 1, MaxBytes: 1 << 20, MaxWait: 200 * time.Millisecond,
			Dialer: &kafka.Dialer{DialFunc: c.Dial, Timeout: 5 * time.Second}, HeartbeatInterval: 2 * time.Second, SessionTimeout: 10 * time.Second, RebalanceTimeout: 5 * time.Second,
			ReadBackoffMin: 50 * time.Millisecond, ReadBackoffMax: 100 * time.Millisecond, StartOffset: kafka.FirstOffset, JoinGroupBackoff: time.Second})
		short := func() (context.Context, context.CancelFunc) {
			return context.WithTimeout(context.Background(), 4*time.Second)
		}
		ops := map[string]func() string{
			"FetchMessage": func() string {
				ctx, cf := short()
				defer cf()
				m, err := r.FetchMessage(ctx)
				return fmt.Sprint(m.Offset >= 0, es(err))
			},
			"CommitMessages": func() string {
				ctx, cf := short()
				defer cf()
				return es(r.CommitMessages(ctx, kafka.Message{Topic: "t", Partition: 0, Offset: 0}))
			},
			"Stats": func() string { return r.Stats().Topic },
			"Lag":   func() string { return fmt.Sprint(r.Lag() >= 0) },
			"Close": func() string { return es(r.Close()) },
		}
		return ops, func() { r.Close() }
	}}
}

func balancerTarget(name string, mk func() kafka.Balancer) *target {
	return &target{name: "Balancer-" + name, files: []string{"balancer.go"}, setup: func(c *fk.Cluster) (map[string]func() string, func()) {
		b := mk()
		in := func(p int, ps ...int) string {
			for _, q := range ps {
				if p == q {
					return "ok"
				}
			}
			return fmt.Sprint("outside:", p)
		}
		ops := map[string]func() string{
			"Balance-key": func() string {
				return in(b.Balance(kafka.Message{Key: []byte("key-1"), Value: []byte("v")}, 0, 1, 2), 0, 1, 2)
			},
			"Balance-nokey": func() string { return in(b.Balance(kafka.Message{Value: []byte("vvvv")}, 0, 1, 2), 0, 1, 2) },
			"Balance-other": func() string {
				return in(b.Balance(kafka.Message{Key: []byte("another"), Value: []byte("v")}, 0, 1), 0, 1)
			},
		}
		return ops, func() {}
	}}
}

func codecTarget(codec compress.Codec) *target {
	return &target{name: "Codec-" + codec.Name(), files: nil, setup: func(c *fk.Cluster) (map[string]func() string, func()) {
		payload := bytes.Repeat([]byte("kafka-go "), 50)
		var ref bytes.Buffer
		w := codec.NewWriter(&ref)
		w.Write(payload)
		w.Close()
		compressed := ref.Bytes()
		ops := map[string]func() string{
			"compress": func() string {
				var out bytes.Buffer
				w := codec.NewWriter(&out)
				w.Write(payload)
				return fmt.Sprint(es(w.Close()), bytes.Equal(out.Bytes(), compressed))
			},
			"decompress": func() string {
				r := codec.NewReader(bytes.NewReader(compressed))
				b, err := io.ReadAll(r)
				r.Close()
				return fmt.Sprint(bytes.Equal(b, payload), es(err))
			},
			"roundtrip": func() string {
				var out bytes.Buffer
				w := codec.NewWriter(&out)
				w.Write(payload[:100])
				w.Close()
				r := codec.NewReader(&out)
				b, err := io.ReadAll(r)
				r.Close()
				return fmt.Sprint(bytes.Equal(b, payload[:100]), es(err))
			},
		}
		return ops, func() {}
	}}
}

func targets() []*target {
	ts := []*target{batchTarget(), connTarget(), writerTarget(false), writerTarget(true), clientTarget(), readerTarget(), groupReaderTarget()}
	ts = append(ts,
		balancerTarget("RoundRobin", func() kafka.Balancer { return &kafka.RoundRobin{} }),
		balancerTarget("RoundRobin-chunk", func() kafka.Balancer { return &kafka.RoundRobin{ChunkSize: 2} }),
		balancerTarget("LeastBytes", func() kafka.Balancer { return &kafka.LeastBytes{} }),
		balancerTarget("Hash", func() kafka.Balancer { return &kafka.Hash{} }),
		balancerTarget("ReferenceHash", func() kafka.Balancer { return &kafka.ReferenceHash{} }),
		balancerTarget("CRC32", func() kafka.Balancer { return kafka.CRC32Balancer{} }),
		balancerTarget("Murmur2", func() kafka.Balancer { return kafka.Murmur2Balancer{} }),
	)
	for _, c := range []compress.Codec{compress.Gzip.Codec(), compress.Snappy.Codec(), compress.Lz4.Codec(), compress.Zstd.Codec()} {
		ts = append(ts, codecTarget(c))
	}
	return ts
}

func scenario(tg *target, names []string) *qx.Scenario {
	cfg := qx.Config{Fine: true, Files: tg.files, Horizon: 30 * time.Second, Quantum: 5 * time.Second, Grace: 2 * time.Second, MaxSteps: 1500,
		Kinds: []vhook.Kind{vhook.KLock, vhook.KRLock, vhook.KWGWait, vhook.KOnce, vhook.KGo, vhook.KUser, vhook.KAtomic, vhook.KPool}}
	return &qx.Scenario{Name: tg.name + ":" + strings.Join(names, "|"), Cfg: cfg, Body: func(x *qx.Exec) *qx.Outcome {
		c := cluster()
		c.OnEvent = x.Notify
		var ops map[string]func() string
		var cleanup func()
		x.Free(func() { ops, cleanup = tg.setup(c) })
		results := make([]string, len(names))
		for i, n := range names {
			i, f := i, ops[n]
			x.Go(fmt.Sprintf("T%d", i), func() { results[i] = f() })
		}
		st := x.Run()
		x.Release()
		cleanup()
		time.Sleep(time.Second)
		return &qx.Outcome{Key: string(st) + " " + strings.Join(results, " | ")}
	}}
}

func suite(tier string) []qx.SuiteItem {
	var items []qx.SuiteItem
	bound := 1
	if tier == "thorough" {
		bound = 2
	}
	only := os.Getenv("C10_ONLY")
	for _, tg := range targets() {
		if only != "" && !strings.HasPrefix(tg.name, only) {
			continue
		}
		names := namesOf[tg.name]
		for i := range names {
			for j := i; j < len(names); j++ {
				if tg.skip[names[i]+"|"+names[j]] {
					continue
				}
				items = append(items, qx.SuiteItem{Scn: scenario(tg, []string{names[i], names[j]}), Bound: bound, Whole: true})
			}
		}
	}
	if tier == "thorough" {
		// programs of three concurrent calls (deviation bound 1): all triples for the small menus, a selection of
		// eight methods for Conn
		sel := map[string][]string{
			"Conn": {"Close", "Offset", "ReadBatch", "ReadLastOffset", "ReadMessage", "Seek-absolute", "SetDeadline", "WriteMessages"},
		}
		for _, tg := range targets() {
			if only != "" && !strings.HasPrefix(tg.name, only) {
				continue
			}
			if strings.HasPrefix(tg.name, "Balancer") || strings.HasPrefix(tg.name, "Codec") || tg.name == "Writer-async" {
				continue
			}
			names := namesOf[tg.name]
			if l, ok := sel[tg.name]; ok {
				names = l
			}
			for i := range names {
				for j := i; j < len(names); j++ {
					for k := j; k < len(names); k++ {
						items = append(items, qx.SuiteItem{Scn: scenario(tg, []string{names[i], names[j], names[k]}), Bound: 1, Whole: true})
					}
				}
			}
		}
	}
	return items
}

// namesOf lists the method menu of every target (kept in step with the setups by TestMenus).
var namesOf = map[string][]string{}

func init() {
	for _, tg := range targets() {
		namesOf[tg.name] = staticNames[strings.SplitN(tg.name, "-", 2)[0]]
		if l, ok := staticNames[tg.name]; ok {
			namesOf[tg.name] = l
		}
	}
}

var staticNames = map[string][]string{
	"Batch":            {"Close", "Err", "HighWaterMark", "Offset", "Partition", "Read", "Read-short", "ReadMessage", "Throttle"},
	"Conn":             {"ApiVersions", "Brokers", "Close", "LocalRemoteBroker", "Offset", "ReadBatch", "ReadLastOffset", "ReadMessage", "ReadOffsets", "ReadPartitions", "Seek", "Seek-abs-nocheck", "Seek-absolute", "Seek-cur-nocheck", "Seek-end", "SetDeadline", "SetReadDeadline", "SetRequiredAcks", "SetWriteDeadline", "WriteMessages"},
	"Writer":           {"Close", "Stats", "WriteMessages", "WriteMessages-1"},
	"Client+Transport": {"ApiVersions", "CloseIdleConnections", "Fetch", "ListOffsets", "Metadata", "Produce"},
	"Reader":           {"Close", "FetchMessage", "Lag", "Offset", "ReadLag", "ReadMessage", "SetOffset", "Stats"},
	"Reader-group":     {"Close", "CommitMessages", "FetchMessage", "Lag", "Stats"},
	"Balancer":         {"Balance-key", "Balance-nokey", "Balance-other"},
	"Codec":            {"compress", "decompress", "roundtrip"},
}

func TestCheck(t *testing.T) {
	if !racectl.Enabled {
		t.Fatal("the C10 harness must be built with -race")
	}
	qx.RunSuite(t, suite(os.Getenv("VERIF_TIER")))
}
