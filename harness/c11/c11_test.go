// Package c11: for every Conn operation op1, every error code (one at least of
// every class error.go distinguishes, see TestCheck) placed in op1's
// response, and every following operation op2: op1 returns the broker's error,
// op2 behaves exactly as on a fresh connection, and no response byte is left
// unread in between. For transport/framing faults instead: every later
// operation fails.
package c11

import (
	"fmt"
	"os"
	"testing"

	kafka "github.com/segmentio/kafka-go"
	"github.com/segmentio/kafka-go/protocol"

	"verif/engine/bub"
	"verif/engine/fk"
	"verif/engine/seqx"
	"verif/harness/connops"
	"verif/harness/hx"
)

func TestCheck(t *testing.T) {
	s := seqx.New(t)
	thorough := os.Getenv("VERIF_TIER") == "thorough"
	// The error-code alphabet holds at least one code of every class the library itself distinguishes
	// (error.go): Timeout() (RequestTimedOut 7, which is also Temporary()), Temporary() only (6, 19, 3, ...),
	// neither (1, 27, 10, ...), the catch-all Unknown (-1), and codes the library has no name for (9999;
	// thorough also the last named code 121, the first unnamed one 122, and the largest an int16 field holds).
	codes := []int16{6, 1, 19, 3, 27, 7, 10, -1, 9999}
	if thorough {
		codes = []int16{6, 1, 19, 3, 27, 16, 25, 22, 7, 5, 29, 41, 15, 10, 2, -1, 9999, 121, 122, 32767}
	}
	classes := map[string]bool{}
	for _, c := range codes {
		e := kafka.Error(c)
		switch {
		case c == -1:
			classes["unknown(-1)"] = true
		case e.Title() == "" || e.Title() == kafka.Error(30000).Title():
			classes["unnamed"] = true
		case e.Timeout():
			classes["timeout"] = true
		case e.Temporary():
			classes["temporary"] = true
		default:
			classes["permanent"] = true
		}
	}
	if len(classes) != 5 {
		t.Fatalf("the error-code alphabet %v does not cover every class of error.go: %v", codes, classes)
	}
	all := connops.Ops()

	// reference: op2 alone on a fresh connection
	fresh := func(o1, o2 *connops.Op) (string, string) {
		var res, es string
		bub.Run(t, 0, func() {
			c := connops.MkCluster(o1, o2)
			conn, _ := hx.Conn(c, "t", 0)
			r, err := o2.Run(conn)
			res, es = r, hx.ErrString(err)
			conn.Close()
		})
		return res, es
	}

	s.Begin("broker-error-then-next-op")
	for i := range all {
		o1 := &all[i]
		for _, code := range codes {
			for j := range all {
				o2 := &all[j]
				if s.TimeUp() {
					break
				}
				code := code
				id := fmt.Sprintf("%s err=%d then %s", o1.Name, code, o2.Name)
				s.Case(id, id, func() (string, *seqx.Viol) {
					var v *seqx.Viol
					key := ""
					wantRes, wantErr := fresh(o1, o2)
					br := bub.Run(t, 0, func() {
						c := connops.MkCluster(o1, o2)
						injected := false
						prefix := o1.ErrAt
						if prefix == "" {
							prefix = "err"
						}
						c.Script = func(e *fk.Entry) string {
							if e.Key == o1.Key && !injected {
								injected = true
								return fmt.Sprintf("%s:%d", prefix, code)
							}
							return ""
						}
						conn, cid := hx.Conn(c, "t", 0)
						defer conn.Close()
						_, err1 := o1.Run(conn)
						e1 := hx.ErrString(err1)
						key = o1.Name + ":" + e1
						if !injected {
							key += ":not-injected"
							return
						}
						un1 := c.Unconsumed(cid) + kafka.VerifBuffered(conn)
						r2, err2 := o2.Run(conn)
						e2 := hx.ErrString(err2)
						switch {
						case hx.IsKafkaErr(err1) && un1 != 0:
							v = &seqx.Viol{Sig: fmt.Sprintf("residual:%s:%d", o1.Name, un1), Msg: fmt.Sprintf("%s answered with error code %d returned %s and left %d unread response bytes on the connection", o1.Name, code, e1, un1)}
						case hx.IsKafkaErr(err1) && (r2 != wantRes || e2 != wantErr):
							v = &seqx.Viol{Sig: fmt.Sprintf("next-op-differs:%s", o1.Name), Msg: fmt.Sprintf("after %s failed with %s, %s returned (%q, %s); on a fresh connection it returns (%q, %s)", o1.Name, e1, o2.Name, r2, e2, wantRes, wantErr)}
						case !hx.IsKafkaErr(err1) && err1 != nil && err2 == nil:
							v = &seqx.Viol{Sig: fmt.Sprintf("reused-after-failure:%s", o1.Name), Msg: fmt.Sprintf("%s failed with non-Kafka error %s but the connection was used again successfully by %s", o1.Name, e1, o2.Name)}
						}
						key += " -> " + e2
					})
					if br.Panic != "" {
						return "panic", &seqx.Viol{Sig: "panic", Msg: br.Panic}
					}
					return key, v
				})
			}
		}
	}

	// the version negotiation that precedes the first versioned operation of a connection is answered with an
	// error: that operation fails, the next one negotiates again and behaves as on a fresh connection
	s.Begin("implicit-apiversions-error-then-next-op")
	for i := range all {
		o1 := &all[i]
		if o1.Key == protocol.ApiVersions {
			continue
		}
		for _, code := range []int16{7, 35, -1} {
			for j := range all {
				o2 := &all[j]
				if !thorough && j%3 != i%3 {
					continue
				}
				code := code
				id := fmt.Sprintf("%s with its ApiVersions exchange answered %d, then %s", o1.Name, code, o2.Name)
				s.Case(id, id, func() (string, *seqx.Viol) {
					var v *seqx.Viol
					key := ""
					wantRes, wantErr := fresh(o1, o2)
					br := bub.Run(t, 0, func() {
						c := connops.MkCluster(o1, o2)
						injected := false
						c.Script = func(e *fk.Entry) string {
							if e.Key == protocol.ApiVersions && !injected {
								injected = true
								return fmt.Sprintf("err:%d", code)
							}
							return ""
						}
						conn, _ := hx.Conn(c, "t", 0)
						defer conn.Close()
						_, err1 := o1.Run(conn)
						key = o1.Name + ":" + hx.ErrString(err1)
						if !injected {
							key += ":no-negotiation"
							return
						}
						r2, err2 := o2.Run(conn)
						e2 := hx.ErrString(err2)
						key += " -> " + e2
						if hx.IsKafkaErr(err1) && (r2 != wantRes || e2 != wantErr) {
							v = &seqx.Viol{Sig: "next-op-differs-after-negotiation-error:" + o2.Name, Msg: fmt.Sprintf("the ApiVersions exchange of %s was answered with error %d (it returned %s); afterwards %s returned (%q, %s), on a fresh connection it returns (%q, %s)", o1.Name, code, hx.ErrString(err1), o2.Name, r2, e2, wantRes, wantErr)}
						}
					})
					if br.Panic != "" {
						return "panic", &seqx.Viol{Sig: "panic", Msg: br.Panic}
					}
					return key, v
				})
			}
		}
	}

	// transport / framing faults: the response of op1 is cut, or carries a wrong correlation id; all later operations must fail
	s.Begin("transport-fault-then-next-op")
	for i := range all {
		o1 := &all[i]
		for _, fault := range []string{"cut:0", "cut:4", "cut:9", "drop"} {
			for j := range all {
				o2 := &all[j]
				if !thorough && j%4 != i%4 {
					continue
				}
				fault := fault
				id := fmt.Sprintf("%s %s then %s", o1.Name, fault, o2.Name)
				s.Case(id, id, func() (string, *seqx.Viol) {
					var v *seqx.Viol
					key := ""
					br := bub.Run(t, 0, func() {
						c := connops.MkCluster(o1, o2)
						injected := false
						c.Script = func(e *fk.Entry) string {
							if e.Key == o1.Key && !injected {
								injected = true
								return fault
							}
							return ""
						}
						conn, _ := hx.Conn(c, "t", 0)
						defer conn.Close()
						_, err1 := o1.Run(conn)
						if !injected {
							key = "not-injected"
							return
						}
						_, err2 := o2.Run(conn)
						key = o1.Name + ":" + hx.ErrString(err1) + " -> " + hx.ErrString(err2)
						if err1 == nil {
							v = &seqx.Viol{Sig: "fault-unnoticed:" + o1.Name, Msg: fmt.Sprintf("%s returned no error although its response was %s", o1.Name, fault)}
						} else if err2 == nil {
							v = &seqx.Viol{Sig: "reused-after-failure:" + o1.Name, Msg: fmt.Sprintf("after %s failed with %s (%s), %s succeeded on the same connection", o1.Name, hx.ErrString(err1), fault, o2.Name)}
						}
					})
					if br.Panic != "" {
						return "panic", &seqx.Viol{Sig: "panic", Msg: br.Panic}
					}
					return key, v
				})
			}
		}
	}
	// A fetch answered without an error code but with a record set that ends inside the header of its first batch
	// (k bytes of it, as brokers serve at the byte limit), arriving at once or only after the fetch's RTT-adjusted
	// deadline (1 byte at once, the rest 9.5 s of virtual time later; the Conn's deadline is 10 s, the adjusted one
	// 9 s: the library then reports RequestTimedOut, a kafka.Error, and keeps the connection). Then every next
	// operation: it never goes out on a connection that still holds unread bytes of the fetch response; after a
	// kafka.Error it behaves as on a fresh connection; after any other error it fails.
	s.Begin("truncated-fetch-then-next-op")
	maxK := 16
	if thorough {
		maxK = 24
	}
	for i := range all {
		o1 := &all[i]
		if o1.Key != protocol.Fetch || o1.ErrAt != "" {
			continue
		}
		for k := 1; k <= maxK; k++ {
			for _, late := range []bool{false, true} {
				for j := range all {
					o2 := &all[j]
					k, late := k, late
					id := fmt.Sprintf("%s record set cut at byte %d of its first batch, late=%v, then %s", o1.Name, k, late, o2.Name)
					s.Case(id, id, func() (string, *seqx.Viol) {
						var v *seqx.Viol
						key := ""
						wantRes, wantErr := fresh(o1, o2)
						br := bub.Run(t, 0, func() {
							c := connops.MkCluster(o1, o2)
							injected := false
							c.Script = func(e *fk.Entry) string {
								if e.Key == protocol.Fetch && !injected {
									injected = true
									c.SetFetchShape(fk.FetchShape{TruncateHead: k})
									if late {
										return "split:1@9500"
									}
									return ""
								}
								if injected {
									c.SetFetchShape(fk.FetchShape{})
								}
								return ""
							}
							conn, cid := hx.Conn(c, "t", 0)
							defer conn.Close()
							_, err1 := o1.Run(conn)
							e1 := hx.ErrString(err1)
							key = o1.Name + ":" + e1
							if !injected {
								key += ":not-injected"
								return
							}
							c.SetFetchShape(fk.FetchShape{})
							un1 := c.Unconsumed(cid) + kafka.VerifBuffered(conn)
							c.Lock()
							n1 := len(c.Journal)
							c.Unlock()
							r2, err2 := o2.Run(conn)
							e2 := hx.ErrString(err2)
							c.Lock()
							sent := false
							for _, e := range c.Journal[n1:] {
								sent = sent || e.Conn == cid
							}
							c.Unlock()
							what := fmt.Sprintf("%s, answered with a record set cut after %d bytes (late=%v), returned %s", o1.Name, k, late, e1)
							switch {
							case un1 != 0 && sent:
								v = &seqx.Viol{Sig: fmt.Sprintf("residual-then-reused:%s", o1.Name), Msg: fmt.Sprintf("%s and left %d unread bytes of the fetch response on the connection; %s was then sent on it and returned (%q, %s): its response is read from the leftover bytes", what, un1, o2.Name, r2, e2)}
							case hx.IsKafkaErr(err1) && (r2 != wantRes || e2 != wantErr):
								v = &seqx.Viol{Sig: fmt.Sprintf("next-op-differs:%s", o1.Name), Msg: fmt.Sprintf("%s; afterwards %s returned (%q, %s); on a fresh connection it returns (%q, %s)", what, o2.Name, r2, e2, wantRes, wantErr)}
							case !hx.IsKafkaErr(err1) && err1 != nil && err2 == nil:
								v = &seqx.Viol{Sig: fmt.Sprintf("reused-after-failure:%s", o1.Name), Msg: fmt.Sprintf("%s (not a Kafka error) but the connection was used again successfully by %s", what, o2.Name)}
							}
							key += " -> " + e2
						})
						if br.Panic != "" {
							return "panic", &seqx.Viol{Sig: "panic", Msg: br.Panic}
						}
						return key, v
					})
				}
			}
		}
	}
	s.Finish()
}
