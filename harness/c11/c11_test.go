// Package c11: for every Conn operation op1, every error code placed in op1's
// response, and every following operation op2: op1 returns the broker's error,
// op2 behaves exactly as on a fresh connection, and no response byte is left
// unread in between. For transport/framing faults instead: every later
// operation fails.
package c11

import (
	"fmt"
	"os"
	"testing"
	"time"

	kafka "github.com/segmentio/kafka-go"
	"github.com/segmentio/kafka-go/protocol"

	"verif/engine/bub"
	"verif/engine/fk"
	"verif/engine/seqx"
	"verif/harness/hx"
)

type op struct {
	name  string
	key   protocol.ApiKey
	vers  map[protocol.ApiKey]fk.VRange
	run   func(c *kafka.Conn) (string, error)
	errAt string // answer prefix for the injected error ("err" or "err@top")
}

func ops() []op {
	var l []op
	for _, v := range []int16{2, 3, 7} {
		v := v
		for _, codec := range []string{"none", "gzip"} {
			codec := codec
			l = append(l, op{name: fmt.Sprintf("produce-v%d-%s", v, codec), key: protocol.Produce, vers: map[protocol.ApiKey]fk.VRange{protocol.Produce: {0, v}},
				run: func(c *kafka.Conn) (string, error) {
					var n int
					var err error
					if codec == "gzip" {
						n, err = c.WriteCompressedMessages(kafka.Gzip.Codec(), kafka.Message{Value: []byte("new")})
					} else {
						n, err = c.WriteMessages(kafka.Message{Value: []byte("new")})
					}
					return fmt.Sprint("n=", n), err
				}})
		}
	}
	for _, v := range []int16{2, 5, 10} {
		v := v
		l = append(l, op{name: fmt.Sprintf("fetch-v%d", v), key: protocol.Fetch, vers: map[protocol.ApiKey]fk.VRange{protocol.Fetch: {0, v}},
			run: func(c *kafka.Conn) (string, error) {
				b := c.ReadBatch(1, 1<<20)
				s, err := hx.ReadAll(b, 100)
				cerr := b.Close()
				if cerr != nil {
					return s + " close=" + hx.ErrString(cerr), cerr
				}
				if hx.ErrString(err) == "io.EOF" {
					err = nil
				}
				return s, err
			}})
	}
	l = append(l, op{name: "fetch-v10-toperr", key: protocol.Fetch, errAt: "err@top", run: func(c *kafka.Conn) (string, error) {
		b := c.ReadBatch(1, 1<<20)
		s, err := hx.ReadAll(b, 100)
		cerr := b.Close()
		if cerr != nil {
			return s, cerr
		}
		if hx.ErrString(err) == "io.EOF" {
			err = nil
		}
		return s, err
	}})
	l = append(l,
		op{name: "first-offset", key: protocol.ListOffsets, run: func(c *kafka.Conn) (string, error) { o, err := c.ReadFirstOffset(); return fmt.Sprint(o), err }},
		op{name: "last-offset", key: protocol.ListOffsets, run: func(c *kafka.Conn) (string, error) { o, err := c.ReadLastOffset(); return fmt.Sprint(o), err }},
		op{name: "offset-at", key: protocol.ListOffsets, run: func(c *kafka.Conn) (string, error) {
			o, err := c.ReadOffset(time.UnixMilli(1500))
			return fmt.Sprint(o), err
		}},
		op{name: "offsets", key: protocol.ListOffsets, run: func(c *kafka.Conn) (string, error) { a, b, err := c.ReadOffsets(); return fmt.Sprint(a, b), err }},
		op{name: "seek-end", key: protocol.ListOffsets, run: func(c *kafka.Conn) (string, error) { o, err := c.Seek(0, kafka.SeekEnd); return fmt.Sprint(o), err }},
	)
	for _, v := range []int16{1, 6} {
		v := v
		l = append(l, op{name: fmt.Sprintf("partitions-v%d", v), key: protocol.Metadata, vers: map[protocol.ApiKey]fk.VRange{protocol.Metadata: {0, v}},
			run: func(c *kafka.Conn) (string, error) {
				ps, err := c.ReadPartitions("t", "u")
				s := ""
				for _, p := range ps {
					s += fmt.Sprintf("%s/%d@%d ", p.Topic, p.ID, p.Leader.ID)
				}
				return s, err
			}})
	}
	l = append(l,
		op{name: "brokers", key: protocol.Metadata, run: func(c *kafka.Conn) (string, error) { b, err := c.Brokers(); return fmt.Sprint(len(b)), err }},
		op{name: "controller", key: protocol.Metadata, run: func(c *kafka.Conn) (string, error) { b, err := c.Controller(); return fmt.Sprint(b.ID), err }},
		op{name: "api-versions", key: protocol.ApiVersions, run: func(c *kafka.Conn) (string, error) { v, err := c.ApiVersions(); return fmt.Sprint(len(v)), err }},
		op{name: "find-coordinator", key: protocol.FindCoordinator, run: func(c *kafka.Conn) (string, error) { return kafka.VerifFindCoordinator(c, "g") }},
		op{name: "join-group", key: protocol.JoinGroup, run: func(c *kafka.Conn) (string, error) {
			g, m, l, n, err := kafka.VerifJoinGroup(c, "g", "", []string{"t"})
			return fmt.Sprint(g, m != "", l != "", n), err
		}},
		op{name: "join-group-v1", key: protocol.JoinGroup, vers: map[protocol.ApiKey]fk.VRange{protocol.JoinGroup: {0, 1}}, run: func(c *kafka.Conn) (string, error) {
			g, m, l, n, err := kafka.VerifJoinGroup(c, "g", "", []string{"t"})
			return fmt.Sprint(g, m != "", l != "", n), err
		}},
		op{name: "sync-group", key: protocol.SyncGroup, run: func(c *kafka.Conn) (string, error) {
			b, err := kafka.VerifSyncGroup(c, "g", 1, "member-x", map[string][]byte{"member-x": []byte("a")})
			return fmt.Sprintf("%q", b), err
		}},
		op{name: "heartbeat", key: protocol.Heartbeat, run: func(c *kafka.Conn) (string, error) { return "", kafka.VerifHeartbeat(c, "g", 1, "member-x") }},
		op{name: "leave-group", key: protocol.LeaveGroup, run: func(c *kafka.Conn) (string, error) { return "", kafka.VerifLeaveGroup(c, "g", "member-x") }},
		op{name: "offset-commit", key: protocol.OffsetCommit, run: func(c *kafka.Conn) (string, error) { return "", kafka.VerifOffsetCommit(c, "g", -1, "", "t", 0, 3) }},
		op{name: "offset-fetch", key: protocol.OffsetFetch, run: func(c *kafka.Conn) (string, error) { return kafka.VerifOffsetFetch(c, "g", "t", []int32{0}) }},
		op{name: "create-topics", key: protocol.CreateTopics, run: func(c *kafka.Conn) (string, error) {
			return "", c.CreateTopics(kafka.TopicConfig{Topic: "new", NumPartitions: 1, ReplicationFactor: 1})
		}},
		op{name: "delete-topics", key: protocol.DeleteTopics, run: func(c *kafka.Conn) (string, error) { return "", c.DeleteTopics("u") }},
	)
	return l
}

func mkCluster(a, b *op) *fk.Cluster {
	c := hx.NewCluster()
	over := map[protocol.ApiKey]fk.VRange{}
	for _, o := range []*op{a, b} {
		if o != nil {
			for k, v := range o.vers {
				over[k] = v
			}
		}
	}
	vs := hx.Versions(over)
	c.Versions = map[int]map[protocol.ApiKey]fk.VRange{1: vs, 2: vs}
	return c
}

func TestCheck(t *testing.T) {
	s := seqx.New(t)
	thorough := os.Getenv("VERIF_TIER") == "thorough"
	codes := []int16{6, 1, 19, 3, 27}
	if thorough {
		codes = []int16{6, 1, 19, 3, 27, 16, 25, 22, 7, 5, 29, 41, 15}
	}
	all := ops()

	// reference: op2 alone on a fresh connection
	fresh := func(o1, o2 *op) (string, string) {
		var res, es string
		bub.Run(t, 0, func() {
			c := mkCluster(o1, o2)
			conn, _ := hx.Conn(c, "t", 0)
			r, err := o2.run(conn)
			res, es = r, hx.ErrString(err)
			conn.Close()
		})
		return res, es
	}

	s.Begin("broker-error-then-next-op")
	for i := range all {
		o1 := &all[i]
		for _, code := range codes {
			for j := range all {
				o2 := &all[j]
				if s.TimeUp() {
					break
				}
				code := code
				id := fmt.Sprintf("%s err=%d then %s", o1.name, code, o2.name)
				s.Case(id, id, func() (string, *seqx.Viol) {
					var v *seqx.Viol
					key := ""
					wantRes, wantErr := fresh(o1, o2)
					br := bub.Run(t, 0, func() {
						c := mkCluster(o1, o2)
						injected := false
						prefix := o1.errAt
						if prefix == "" {
							prefix = "err"
						}
						c.Script = func(e *fk.Entry) string {
							if e.Key == o1.key && !injected {
								injected = true
								return fmt.Sprintf("%s:%d", prefix, code)
							}
							return ""
						}
						conn, cid := hx.Conn(c, "t", 0)
						defer conn.Close()
						_, err1 := o1.run(conn)
						e1 := hx.ErrString(err1)
						key = o1.name + ":" + e1
						if !injected {
							key += ":not-injected"
							return
						}
						un1 := c.Unconsumed(cid) + kafka.VerifBuffered(conn)
						r2, err2 := o2.run(conn)
						e2 := hx.ErrString(err2)
						switch {
						case hx.IsKafkaErr(err1) && un1 != 0:
							v = &seqx.Viol{Sig: fmt.Sprintf("residual:%s:%d", o1.name, un1), Msg: fmt.Sprintf("%s answered with error code %d returned %s and left %d unread response bytes on the connection", o1.name, code, e1, un1)}
						case hx.IsKafkaErr(err1) && (r2 != wantRes || e2 != wantErr):
							v = &seqx.Viol{Sig: fmt.Sprintf("next-op-differs:%s", o1.name), Msg: fmt.Sprintf("after %s failed with %s, %s returned (%q, %s); on a fresh connection it returns (%q, %s)", o1.name, e1, o2.name, r2, e2, wantRes, wantErr)}
						case !hx.IsKafkaErr(err1) && err1 != nil && err2 == nil:
							v = &seqx.Viol{Sig: fmt.Sprintf("reused-after-failure:%s", o1.name), Msg: fmt.Sprintf("%s failed with non-Kafka error %s but the connection was used again successfully by %s", o1.name, e1, o2.name)}
						}
						key += " -> " + e2
					})
					if br.Panic != "" {
						return "panic", &seqx.Viol{Sig: "panic", Msg: br.Panic}
					}
					return key, v
				})
			}
		}
	}

	// transport / framing faults: the response of op1 is cut, or carries a wrong correlation id; all later operations must fail
	s.Begin("transport-fault-then-next-op")
	for i := range all {
		o1 := &all[i]
		for _, fault := range []string{"cut:0", "cut:4", "cut:9", "drop"} {
			for j := range all {
				o2 := &all[j]
				if !thorough && j%4 != i%4 {
					continue
				}
				fault := fault
				id := fmt.Sprintf("%s %s then %s", o1.name, fault, o2.name)
				s.Case(id, id, func() (string, *seqx.Viol) {
					var v *seqx.Viol
					key := ""
					br := bub.Run(t, 0, func() {
						c := mkCluster(o1, o2)
						injected := false
						c.Script = func(e *fk.Entry) string {
							if e.Key == o1.key && !injected {
								injected = true
								return fault
							}
							return ""
						}
						conn, _ := hx.Conn(c, "t", 0)
						defer conn.Close()
						_, err1 := o1.run(conn)
						if !injected {
							key = "not-injected"
							return
						}
						_, err2 := o2.run(conn)
						key = o1.name + ":" + hx.ErrString(err1) + " -> " + hx.ErrString(err2)
						if err1 == nil {
							v = &seqx.Viol{Sig: "fault-unnoticed:" + o1.name, Msg: fmt.Sprintf("%s returned no error although its response was %s", o1.name, fault)}
						} else if err2 == nil {
							v = &seqx.Viol{Sig: "reused-after-failure:" + o1.name, Msg: fmt.Sprintf("after %s failed with %s (%s), %s succeeded on the same connection", o1.name, hx.ErrString(err1), fault, o2.name)}
						}
					})
					if br.Panic != "" {
						return "panic", &seqx.Viol{Sig: "panic", Msg: br.Panic}
					}
					return key, v
				})
			}
		}
	}
	s.Finish()
}
