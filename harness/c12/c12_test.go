// Package c12: Transport routing and version selection. Every request must reach
// the broker the last served metadata designates (leader / coordinator /
// controller), at the highest version both sides support; after a leader move
// requests follow within one metadata TTL plus a round trip; topic-filtered
// metadata served from the cache equals what the brokers answered last.
package c12

import (
	"context"
	"fmt"
	"os"
	"sort"
	"strings"
	"sync"
	"testing"
	"time"

	kafka "github.com/segmentio/kafka-go"
	"github.com/segmentio/kafka-go/protocol"

	"verif/engine/bub"
	"verif/engine/fk"
	"verif/engine/qx"
	"verif/engine/refwire"
	"verif/engine/seqx"
	"verif/harness/hx"
)

const ttl = 6 * time.Second

// cluster with broker ids starting at 0; the client bootstraps on broker `boot`
func mkCluster(leaders [3]int, controller int, coordG1, coordG2 int) *fk.Cluster {
	c := fk.New(0)
	for i := 0; i < 3; i++ {
		c.Brokers = append(c.Brokers, &fk.Broker{ID: i, Host: fmt.Sprintf("b%d", i), Port: 9092})
	}
	c.Auto = true
	c.Controller = controller
	c.AddTopic("t", 3, func(p int) int { return leaders[p] })
	c.AddTopic("u", 2, func(p int) int { return (leaders[0] + 1 + p) % 3 })
	for p := 0; p < 3; p++ {
		part := c.Part("t", p)
		b := &refwire.Batch{Format: 2, Base: 0, Last: 1, Recs: []refwire.Rec{{Offset: 0, TS: 1, Value: []byte{byte('a' + p)}}, {Offset: 1, TS: 2, Value: []byte("x")}}}
		part.Append(b)
	}
	c.CoordOf = func(g string) int {
		if g == "g2" {
			return coordG2
		}
		return coordG1
	}
	return c
}

func newClient(c *fk.Cluster, boot int) (*kafka.Client, *kafka.Transport) {
	tr := &kafka.Transport{Dial: c.Dial, DialTimeout: 3 * time.Second, IdleTimeout: 60 * time.Second, MetadataTTL: ttl, ClientID: "verif"}
	return &kafka.Client{Addr: kafka.TCP(fmt.Sprintf("b%d:9092", boot)), Transport: tr, Timeout: 5 * time.Second}, tr
}

type req struct {
	name string
	key  protocol.ApiKey
	run  func(ctx context.Context, cl *kafka.Client) error
	// want returns the broker that must receive each request of this API issued by run
	want func(c *fk.Cluster) []int
}

func reqs() []req {
	ctx := func(c context.Context) context.Context { return c }
	_ = ctx
	var l []req
	for p := 0; p < 3; p++ {
		p := p
		l = append(l, req{name: fmt.Sprintf("produce-t%d", p), key: protocol.Produce, run: func(ctx context.Context, cl *kafka.Client) error {
			r, err := cl.Produce(ctx, &kafka.ProduceRequest{Topic: "t", Partition: p, RequiredAcks: kafka.RequireAll, Records: kafka.NewRecordReader(kafka.Record{Value: kafka.NewBytes([]byte("v"))})})
			if err == nil && r.Error != nil {
				err = r.Error
			}
			return err
		}, want: func(c *fk.Cluster) []int { return []int{c.Part("t", p).Leader} }})
		l = append(l, req{name: fmt.Sprintf("fetch-t%d", p), key: protocol.Fetch, run: func(ctx context.Context, cl *kafka.Client) error {
			r, err := cl.Fetch(ctx, &kafka.FetchRequest{Topic: "t", Partition: p, Offset: 0, MinBytes: 1, MaxBytes: 1 << 20, MaxWait: 100 * time.Millisecond})
			if err == nil && r.Error != nil {
				err = r.Error
			}
			return err
		}, want: func(c *fk.Cluster) []int { return []int{c.Part("t", p).Leader} }})
	}
	l = append(l, req{name: "listoffsets-span", key: protocol.ListOffsets, run: func(ctx context.Context, cl *kafka.Client) error {
		r, err := cl.ListOffsets(ctx, &kafka.ListOffsetsRequest{Topics: map[string][]kafka.OffsetRequest{"t": {kafka.LastOffsetOf(0), kafka.LastOffsetOf(1), kafka.LastOffsetOf(2)}, "u": {kafka.FirstOffsetOf(1)}}})
		if err != nil {
			return err
		}
		for _, ps := range r.Topics {
			for _, p := range ps {
				if p.Error != nil {
					return p.Error
				}
			}
		}
		return nil
	}, want: func(c *fk.Cluster) []int {
		return []int{c.Part("t", 0).Leader, c.Part("t", 1).Leader, c.Part("t", 2).Leader, c.Part("u", 1).Leader}
	}})
	for _, g := range []string{"g1", "g2"} {
		g := g
		l = append(l, req{name: "offsetfetch-" + g, key: protocol.OffsetFetch, run: func(ctx context.Context, cl *kafka.Client) error {
			_, err := cl.OffsetFetch(ctx, &kafka.OffsetFetchRequest{GroupID: g, Topics: map[string][]int{"t": {0}}})
			return err
		}, want: func(c *fk.Cluster) []int { return []int{c.CoordOf(g)} }})
		l = append(l, req{name: "joingroup-" + g, key: protocol.JoinGroup, run: func(ctx context.Context, cl *kafka.Client) error {
			r, err := cl.JoinGroup(ctx, &kafka.JoinGroupRequest{GroupID: g, SessionTimeout: 6 * time.Second, RebalanceTimeout: 6 * time.Second, ProtocolType: "consumer",
				Protocols: []kafka.GroupProtocol{{Name: "range", Metadata: kafka.GroupProtocolSubscription{Topics: []string{"t"}}}}})
			if err == nil && r.Error != nil {
				err = r.Error
			}
			return err
		}, want: func(c *fk.Cluster) []int { return []int{c.CoordOf(g)} }})
		l = append(l, req{name: "heartbeat-" + g, key: protocol.Heartbeat, run: func(ctx context.Context, cl *kafka.Client) error {
			_, err := cl.Heartbeat(ctx, &kafka.HeartbeatRequest{GroupID: g, GenerationID: 1, MemberID: "nobody"})
			return err
		}, want: func(c *fk.Cluster) []int { return []int{c.CoordOf(g)} }})
	}
	l = append(l, req{name: "create-topics", key: protocol.CreateTopics, run: func(ctx context.Context, cl *kafka.Client) error {
		r, err := cl.CreateTopics(ctx, &kafka.CreateTopicsRequest{Topics: []kafka.TopicConfig{{Topic: "new", NumPartitions: 1, ReplicationFactor: 1}}})
		if err == nil && r.Errors["new"] != nil {
			err = r.Errors["new"]
		}
		return err
	}, want: func(c *fk.Cluster) []int { return []int{c.Controller} }})
	l = append(l, req{name: "delete-topics", key: protocol.DeleteTopics, run: func(ctx context.Context, cl *kafka.Client) error {
		_, err := cl.DeleteTopics(ctx, &kafka.DeleteTopicsRequest{Topics: []string{"u"}})
		return err
	}, want: func(c *fk.Cluster) []int { return []int{c.Controller} }})
	return l
}

// version ranges a broker may advertise for an API, relative to the client's [cmin,cmax]
func ranges(cmin, cmax int16) map[string]fk.VRange {
	m := map[string]fk.VRange{"equal": {cmin, cmax}, "higher-max": {cmin, cmax + 3}}
	if cmax > cmin {
		m["lower-max"] = fk.VRange{Min: cmin, Max: cmax - 1}
		m["single-low"] = fk.VRange{Min: cmin, Max: cmin}
		m["higher-min"] = fk.VRange{Min: cmin + 1, Max: cmax + 2}
	}
	if cmin > 0 {
		m["below-and-in"] = fk.VRange{Min: 0, Max: cmin}
		m["from-zero-to-max"] = fk.VRange{Min: 0, Max: cmax}
		m["from-zero-higher-max"] = fk.VRange{Min: 0, Max: cmax + 3}
	}
	return m
}

func common(k protocol.ApiKey, br fk.VRange) (int16, bool) {
	lo, hi := k.MinVersion(), k.MaxVersion()
	if br.Min > lo {
		lo = br.Min
	}
	if br.Max < hi {
		hi = br.Max
	}
	return hi, lo <= hi
}

func TestCheck(t *testing.T) {
	s := seqx.New(t)
	thorough := os.Getenv("VERIF_TIER") == "thorough"
	items := moveItems(thorough)
	if s.Replay != nil {
		for _, it := range items {
			if it.Scn.Name == s.Replay.Scenario {
				qx.Replay(t, items, os.Getenv("VERIF_REPLAY"))
				return
			}
		}
	}
	all := reqs()
	ctx := context.Background()

	// A. routing: every leader assignment x controller x coordinator placement x bootstrap broker x request
	s.Begin("routing-x-layouts")
	for l0 := 0; l0 < 3; l0++ {
		for l1 := 0; l1 < 3; l1++ {
			for l2 := 0; l2 < 3; l2++ {
				if !thorough && (l0+2*l1+l2)%3 != 0 {
					continue
				}
				for boot := 0; boot < 3; boot++ {
					for ri := range all {
						r := &all[ri]
						leaders := [3]int{l0, l1, l2}
						ctl, cg1, cg2 := (l0+1)%3, l1, (l2+2)%3
						boot := boot
						id := fmt.Sprintf("leaders%v ctl%d coord%d,%d boot%d %s", leaders, ctl, cg1, cg2, boot, r.name)
						s.Case(id, id, func() (string, *seqx.Viol) {
							var v *seqx.Viol
							br := bub.Run(t, 0, func() {
								c := mkCluster(leaders, ctl, cg1, cg2)
								cl, tr := newClient(c, boot)
								defer tr.CloseIdleConnections()
								err := r.run(ctx, cl)
								want := r.want(c)
								c.Lock()
								var got []int
								for _, e := range c.Journal {
									if e.Key == r.key {
										got = append(got, e.Broker)
									}
								}
								c.Unlock()
								sort.Ints(got)
								sort.Ints(want)
								if fmt.Sprint(got) != fmt.Sprint(want) {
									v = &seqx.Viol{Sig: "misrouted:" + strings.SplitN(r.name, "-", 2)[0], Msg: fmt.Sprintf("%s: requests reached brokers %v, the cluster metadata designates %v (bootstrap broker %d, result %v)", r.name, got, want, boot, err)}
								} else if err != nil {
									v = &seqx.Viol{Sig: "request-failed:" + strings.SplitN(r.name, "-", 2)[0], Msg: fmt.Sprintf("%s failed although it reached the right broker: %v", r.name, err)}
								}
							})
							if br.Panic != "" {
								return "panic", &seqx.Viol{Sig: "panic", Msg: br.Panic}
							}
							return r.name, v
						})
					}
				}
			}
		}
	}

	// B. version selection: per API, every advertised range shape, on the broker that receives the request
	s.Begin("version-selection")
	for ri := range all {
		r := &all[ri]
		if strings.HasSuffix(r.name, "1") || strings.HasSuffix(r.name, "2") && !strings.HasSuffix(r.name, "g2") {
			continue // one partition per API is enough here
		}
		rs := ranges(r.key.MinVersion(), r.key.MaxVersion())
		var rn []string
		for k := range rs {
			rn = append(rn, k)
		}
		sort.Strings(rn)
		for _, name := range rn {
			for _, hetero := range []bool{false, true} {
				r, name, hetero := r, name, hetero
				id := fmt.Sprintf("%s range=%s hetero=%v", r.name, name, hetero)
				s.Case(id, id, func() (string, *seqx.Viol) {
					var v *seqx.Viol
					key := ""
					br := bub.Run(t, 0, func() {
						c := mkCluster([3]int{0, 1, 2}, 2, 0, 2)
						c.Versions = map[int]map[protocol.ApiKey]fk.VRange{}
						for b := 0; b < 3; b++ {
							vr := rs[name]
							if hetero && b != r.want(c)[0] {
								vr = fk.VRange{Min: r.key.MinVersion(), Max: r.key.MinVersion()} // the other brokers advertise something else
							}
							// the fake broker can only decode what kafka-go's protocol package knows
							c.Versions[b] = hx.Versions(map[protocol.ApiKey]fk.VRange{r.key: vr})
						}
						c.AcceptAnyVersion = true
						cl, tr := newClient(c, 1)
						defer tr.CloseIdleConnections()
						r.run(ctx, cl)
						c.Lock()
						defer c.Unlock()
						for _, e := range c.Journal {
							if e.Key != r.key {
								continue
							}
							adv := c.Versions[e.Broker][r.key]
							want, overlap := common(r.key, adv)
							key = fmt.Sprintf("v%d", e.Version)
							if overlap && e.Version != want {
								v = &seqx.Viol{Sig: "version:" + strings.SplitN(r.name, "-", 2)[0], Msg: fmt.Sprintf("%s sent to broker %d at version %d; the client supports [%d,%d], the broker advertised [%d,%d], highest common is %d", r.name, e.Broker, e.Version, r.key.MinVersion(), r.key.MaxVersion(), adv.Min, adv.Max, want)}
							}
						}
					})
					if br.Panic != "" {
						return "panic", &seqx.Viol{Sig: "panic", Msg: br.Panic}
					}
					return key, v
				})
			}
		}
	}

	// B2. version negotiation: every Client operation x every position of the advertised range (negotiate_test.go)
	versionNegotiation(s, t, thorough)

	// C. cached, topic-filtered metadata equals the brokers' last answer
	s.Begin("metadata-cache-filter")
	topicSets := [][]string{{"t"}, {"u"}, {"t", "u"}, {"t", "missing"}, nil}
	for l0 := 0; l0 < 3; l0++ {
		for ti, ts := range topicSets {
			l0, ts := l0, ts
			id := fmt.Sprintf("leaders-rot%d topics#%d", l0, ti)
			s.Case(id, id, func() (string, *seqx.Viol) {
				var v *seqx.Viol
				br := bub.Run(t, 0, func() {
					c := mkCluster([3]int{l0, (l0 + 1) % 3, (l0 + 2) % 3}, 1, 0, 0)
					cl, tr := newClient(c, 1)
					defer tr.CloseIdleConnections()
					md, err := cl.Metadata(ctx, &kafka.MetadataRequest{Topics: ts})
					if err != nil {
						v = &seqx.Viol{Sig: "metadata-failed", Msg: err.Error()}
						return
					}
					names := ts
					if names == nil {
						names = []string{"t", "u"}
					}
					if len(md.Topics) != len(names) {
						v = &seqx.Viol{Sig: "metadata-filter", Msg: fmt.Sprintf("asked for %v, got %d topics", ts, len(md.Topics))}
						return
					}
					for _, tp := range md.Topics {
						ct := c.Topics[tp.Name]
						if ct == nil {
							if tp.Error == nil {
								v = &seqx.Viol{Sig: "metadata-filter", Msg: "unknown topic " + tp.Name + " reported without error"}
							}
							continue
						}
						for _, p := range tp.Partitions {
							if p.Leader.ID != ct.Parts[p.ID].Leader {
								v = &seqx.Viol{Sig: "metadata-stale", Msg: fmt.Sprintf("%s/%d leader %d, brokers said %d", tp.Name, p.ID, p.Leader.ID, ct.Parts[p.ID].Leader)}
							}
						}
						if len(tp.Partitions) != len(ct.Parts) {
							v = &seqx.Viol{Sig: "metadata-filter", Msg: fmt.Sprintf("%s has %d partitions in the cache answer, %d on the brokers", tp.Name, len(tp.Partitions), len(ct.Parts))}
						}
					}
				})
				if br.Panic != "" {
					return "panic", &seqx.Viol{Sig: "panic", Msg: br.Panic}
				}
				return fmt.Sprint(ts), v
			})
		}
	}

	// D. histories: a leader moves, a broker id changes address..., requests at increasing delays
	s.Begin("leader-move-followed-within-ttl")
	for _, delay := range []time.Duration{0, ttl / 2, ttl + 2*time.Second, 2*ttl + time.Second} {
		for _, rn := range []string{"produce-t0", "fetch-t0", "listoffsets-span"} {
			for _, warm := range []bool{true, false} {
				delay, rn, warm := delay, rn, warm
				id := fmt.Sprintf("%s after %v warm=%v", rn, delay, warm)
				s.Case(id, id, func() (string, *seqx.Viol) {
					var v *seqx.Viol
					key := ""
					br := bub.Run(t, 0, func() {
						c := mkCluster([3]int{0, 1, 2}, 1, 0, 0)
						cl, tr := newClient(c, 1)
						defer tr.CloseIdleConnections()
						var r *req
						for i := range all {
							if all[i].name == rn {
								r = &all[i]
							}
						}
						if warm {
							r.run(ctx, cl) // the transport has a connection to the old leader
						}
						c.Lock()
						mark := len(c.Journal)
						c.Part("t", 0).Leader = 2
						c.Part("t", 0).Replicas = []int{2}
						c.Unlock()
						time.Sleep(delay)
						err := r.run(ctx, cl)
						c.Lock()
						defer c.Unlock()
						var got []int
						for _, e := range c.Journal[mark:] {
							if e.Key == r.key {
								got = append(got, e.Broker)
							}
						}
						sort.Ints(got) // sub-requests of one call go out concurrently: their arrival order is not part of the outcome
						key = fmt.Sprintf("%v:%v", got, err == nil)
						if delay > ttl+time.Second {
							for _, b := range got {
								if b == 0 {
									v = &seqx.Viol{Sig: "stale-leader-after-ttl", Msg: fmt.Sprintf("%s issued %v after the leader of t/0 moved from broker 0 to broker 2 (metadata TTL %v) still went to broker 0 (%v)", rn, delay, ttl, got)}
								}
							}
							if err != nil && v == nil {
								v = &seqx.Viol{Sig: "failed-after-ttl", Msg: fmt.Sprintf("%s issued %v after the move failed: %v", rn, delay, err)}
							}
						}
					})
					if br.Panic != "" {
						return "panic", &seqx.Viol{Sig: "panic", Msg: br.Panic}
					}
					return key, v
				})
			}
		}
	}

	// D2. a metadata refresh that gets no answer for longer than the TTL (a broker hanging on the control connection)
	// must not end the refreshing: a leader move after it is still followed within one TTL
	s.Begin("leader-move-after-a-stalled-metadata-refresh")
	for _, nth := range []int{2, 3} {
		for _, delay := range []time.Duration{ttl + 2*time.Second, 2*ttl + time.Second} {
			for _, rn := range []string{"produce-t0", "fetch-t0", "listoffsets-span"} {
				nth, delay, rn := nth, delay, rn
				id := fmt.Sprintf("%s %v after the move, metadata request #%d stalled", rn, delay, nth)
				s.Case(id, id, func() (string, *seqx.Viol) {
					var v *seqx.Viol
					key := ""
					br := bub.Run(t, 0, func() {
						c := mkCluster([3]int{0, 1, 2}, 1, 0, 0)
						seen := 0
						c.Script = func(e *fk.Entry) string {
							if e.Key == protocol.Metadata {
								seen++
								if seen == nth {
									return "stall"
								}
							}
							return ""
						}
						cl, tr := newClient(c, 1)
						defer tr.CloseIdleConnections()
						var r *req
						for i := range all {
							if all[i].name == rn {
								r = &all[i]
							}
						}
						r.run(ctx, cl)
						time.Sleep(time.Duration(nth) * (ttl + time.Second)) // refreshes go by, one of them hangs and times out
						c.Lock()
						mark := len(c.Journal)
						stalled := seen >= nth
						c.Part("t", 0).Leader = 2
						c.Part("t", 0).Replicas = []int{2}
						c.Unlock()
						time.Sleep(delay)
						err := r.run(ctx, cl)
						c.Lock()
						defer c.Unlock()
						var got []int
						for _, e := range c.Journal[mark:] {
							if e.Key == r.key {
								got = append(got, e.Broker)
							}
						}
						key = fmt.Sprintf("%v:%v:stalled=%v", got, err == nil, stalled)
						for _, b := range got {
							if b == 0 {
								v = &seqx.Viol{Sig: "stale-leader-after-stalled-refresh", Msg: fmt.Sprintf("%s issued %v after the leader of t/0 moved from broker 0 to broker 2 (metadata TTL %v, an earlier refresh had hung) still went to broker 0 (%v)", rn, delay, ttl, got)}
							}
						}
						if err != nil && v == nil {
							v = &seqx.Viol{Sig: "failed-after-stalled-refresh", Msg: fmt.Sprintf("%s issued %v after the move failed: %v", rn, delay, err)}
						}
					})
					if br.Panic != "" {
						return "panic", &seqx.Viol{Sig: "panic", Msg: br.Panic}
					}
					return key, v
				})
			}
		}
	}

	// E. a broker comes back on another address (same host, other port) while its old address is taken over by a
	// new broker: after one metadata TTL the requests designated for it must reach it, not the old address
	s.Begin("broker-address-change-followed-within-ttl")
	for _, delay := range []time.Duration{ttl + 2*time.Second, 2*ttl + time.Second} {
		for _, rn := range []string{"produce-t0", "fetch-t0", "listoffsets-span", "produce-t1"} {
			for _, warm := range []bool{true, false} {
				for _, squat := range []int{7, -1} {
					delay, rn, warm, squat := delay, rn, warm, squat
					id := fmt.Sprintf("%s %v after broker 2 moved to port 9093 warm=%v old-address-taken-by=%d", rn, delay, warm, squat)
					s.Case(id, id, func() (string, *seqx.Viol) {
						var v *seqx.Viol
						key := ""
						br := bub.Run(t, 0, func() {
							c := mkCluster([3]int{2, 1, 2}, 1, 0, 0)
							cl, tr := newClient(c, 1)
							defer tr.CloseIdleConnections()
							var r *req
							for i := range all {
								if all[i].name == rn {
									r = &all[i]
								}
							}
							if warm {
								r.run(ctx, cl)
							}
							c.Lock()
							mark := len(c.Journal)
							c.Unlock()
							c.MoveBroker(2, "b2", 9093, squat)
							time.Sleep(delay)
							err := r.run(ctx, cl)
							c.Lock()
							defer c.Unlock()
							want := map[int]bool{}
							for _, b := range r.want(c) {
								want[b] = true
							}
							var got []int
							for _, e := range c.Journal[mark:] {
								if e.Key == r.key {
									got = append(got, e.Broker)
									if !want[e.Broker] && v == nil {
										v = &seqx.Viol{Sig: "stale-broker-address:" + rn, Msg: fmt.Sprintf("%s issued %v after broker 2 moved to b2:9093 (metadata TTL %v) reached broker %d; the metadata designates %v", rn, delay, ttl, e.Broker, r.want(c))}
									}
								}
							}
							sort.Ints(got) // sub-requests of one call go out concurrently: their arrival order is not part of the outcome
							key = fmt.Sprintf("%v:%v", got, err == nil)
							if err != nil && v == nil {
								v = &seqx.Viol{Sig: "failed-after-address-change:" + rn, Msg: fmt.Sprintf("%s issued %v after broker 2 moved to b2:9093 failed: %v (requests reached %v)", rn, delay, err, got)}
							}
						})
						if br.Panic != "" {
							return "panic", &seqx.Viol{Sig: "panic", Msg: br.Panic}
						}
						return key, v
					})
				}
			}
		}
	}

	// F. raw multi-partition requests given to Transport.RoundTrip (rawmulti_test.go)
	rawMultiPartition(s, t, thorough)

	if s.Replay == nil {
		s.AddStats(qx.ExploreAll(t, items, s.Remaining())...)
	}
	s.Finish()
}

// qx: two concurrent requests and a leader move at any point; nothing may reach a broker that
// the metadata served to the client before the request never designated
func moveItems(thorough bool) []qx.SuiteItem {
	bound := 2
	if thorough {
		bound = 3
	}
	all := reqs()
	pick := func(n string) *req {
		for i := range all {
			if all[i].name == n {
				return &all[i]
			}
		}
		return nil
	}
	mk := func(name string, names []string) qx.SuiteItem {
		scn := &qx.Scenario{Name: name, Cfg: qx.Config{Horizon: 60 * time.Second, Quantum: 7 * time.Second, Grace: time.Second, MaxSteps: 400}}
		scn.Body = func(x *qx.Exec) *qx.Outcome {
			c := mkCluster([3]int{0, 1, 2}, 1, 0, 2)
			c.Auto = false
			c.OnEvent = x.Notify
			cl, tr := newClient(c, 1)
			var mu sync.Mutex
			res := map[string]string{}
			for i, n := range names {
				n := n
				x.Go(fmt.Sprintf("T%d", i), func() {
					err := pick(n).run(context.Background(), cl)
					mu.Lock()
					res[n] = hx.ErrString(err)
					mu.Unlock()
				})
			}
			moved := false
			// designated[broker] per topic-partition as served in metadata responses so far
			served := map[string]map[int]bool{}
			note := func() {
				for _, tn := range []string{"t", "u"} {
					for _, p := range c.Topics[tn].Parts {
						k := fmt.Sprintf("%s/%d", tn, p.ID)
						if served[k] == nil {
							served[k] = map[int]bool{}
						}
						served[k][p.Leader] = true
					}
				}
			}
			x.SetEnv(func() []qx.Action {
				var acts []qx.Action
				for _, e := range c.Pending() {
					e := e
					acts = append(acts, qx.Action{Label: fmt.Sprintf("ans#%d(b%d,api%d):ok", e.Seq, e.Broker, e.Key), Do: func() {
						if e.Key == protocol.Metadata {
							c.Lock()
							note()
							c.Unlock()
						}
						c.Answer(e, "")
					}})
				}
				if !moved {
					acts = append(acts, qx.Action{Label: "move-leader-t0-to-b2", Do: func() {
						moved = true
						c.Lock()
						c.Part("t", 0).Leader = 2
						c.Unlock()
					}})
				}
				return acts
			})
			st := x.Run()
			tr.CloseIdleConnections()
			o := &qx.Outcome{}
			mu.Lock()
			var ks []string
			for k, v := range res {
				ks = append(ks, k+"="+v)
			}
			mu.Unlock()
			sort.Strings(ks)
			o.Key = string(st) + " " + strings.Join(ks, " ")
			c.Lock()
			for _, e := range c.Journal {
				if e.Key == protocol.Produce || e.Key == protocol.Fetch {
					// decode partition from the request name: all produce/fetch requests here are for t/0
					if !served["t/0"][e.Broker] && o.Violation == "" {
						o.Violation = fmt.Sprintf("request #%d (api %d) for t/0 went to broker %d, which no metadata response served so far designated as its leader (%v)", e.Seq, e.Key, e.Broker, served["t/0"])
						o.Sig = "misrouted-under-move"
					}
				}
			}
			c.Unlock()
			return o
		}
		return qx.SuiteItem{Scn: scn, Bound: bound}
	}
	return []qx.SuiteItem{mk("move-during-produce-and-fetch", []string{"produce-t0", "fetch-t0"}), mk("move-during-2-produces", []string{"produce-t0", "produce-t0"})}
}
