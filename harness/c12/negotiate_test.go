package c12

import (
	"context"
	"fmt"
	"sort"
	"testing"

	"github.com/segmentio/kafka-go/protocol"

	"verif/engine/bub"
	"verif/engine/fk"
	"verif/engine/seqx"
	"verif/harness/clientops"
	"verif/harness/hx"
)

// negotiationGrid enumerates the ranges [bmin,bmax] a broker may advertise for an API of which
// the client implements [cmin,cmax]: both ends take every value around both ends of the client's
// range (one below, equal, one above) and the absolute floor 0, the upper end also a value well
// above. That yields every relative position: entirely below, touching/overlapping the low end
// from below (incl. from 0), equal, strictly inside, single versions, overlapping the high end,
// entirely above.
func negotiationGrid(cmin, cmax int16) []fk.VRange {
	los := []int16{0, cmin - 1, cmin, cmin + 1, cmax - 1, cmax, cmax + 1, cmax + 2}
	his := []int16{0, cmin - 1, cmin, cmin + 1, cmax - 1, cmax, cmax + 1, cmax + 3}
	seen := map[fk.VRange]bool{}
	var l []fk.VRange
	for _, lo := range los {
		for _, hi := range his {
			r := fk.VRange{Min: lo, Max: hi}
			if lo < 0 || hi < lo || seen[r] {
				continue
			}
			seen[r] = true
			l = append(l, r)
		}
	}
	sort.Slice(l, func(i, j int) bool {
		if l[i].Min != l[j].Min {
			return l[i].Min < l[j].Min
		}
		return l[i].Max < l[j].Max
	})
	return l
}

func relation(cmin, cmax int16, b fk.VRange) string {
	switch {
	case b.Max < cmin:
		return "below"
	case b.Min > cmax:
		return "above"
	case b.Min == cmin && b.Max == cmax:
		return "equal"
	case b.Min < cmin && b.Max > cmax:
		return "around"
	case b.Min < cmin:
		return "over-low-end"
	case b.Max > cmax:
		return "over-high-end"
	default:
		return "inside"
	}
}

// versionNegotiation: every Client operation x every advertised range of its API (negotiationGrid),
// advertised by every broker (homogeneous) or by the brokers in turn while the other one advertises
// something else (heterogeneous: the table of the connection the request travels on counts).
// Judged on the journal of the fake cluster, for every request of that API that was sent on a
// connection after its ApiVersions exchange:
//   - ranges overlap: the version on the wire is min(cmax, bmax), the highest common one;
//   - ranges disjoint: the property leaves the outcome open (SelectVersion documents nothing); only
//     required: the request is not sent, or sent at a version the client implements.
func versionNegotiation(s *seqx.Suite, t *testing.T, thorough bool) {
	s.Begin("version-negotiation")
	ctx := context.Background()
	for _, op := range clientops.Ops() {
		cmin, cmax := op.Key.MinVersion(), op.Key.MaxVersion()
		for _, adv := range negotiationGrid(cmin, cmax) {
			// other = what the other broker advertises in the heterogeneous variants
			others := []*fk.VRange{nil, {Min: cmin, Max: cmin}}
			if thorough {
				others = append(others, &fk.VRange{Min: cmax, Max: cmax + 1}, &fk.VRange{Min: 0, Max: cmax + 3})
			}
			for _, other := range others {
				for first := 1; first <= 2; first++ {
					if other == nil && first == 2 {
						continue
					}
					op, adv, other, first := op, adv, other, first
					id := fmt.Sprintf("%s client=[%d,%d] broker=[%d,%d] (%s)", op.Name, cmin, cmax, adv.Min, adv.Max, relation(cmin, cmax, adv))
					if other != nil {
						id += fmt.Sprintf(" on broker %d, the other broker=[%d,%d]", first, other.Min, other.Max)
					}
					s.Case(id, id, func() (string, *seqx.Viol) {
						var v *seqx.Viol
						key := ""
						br := bub.Run(t, 0, func() {
							c := hx.NewCluster()
							c.Versions = map[int]map[protocol.ApiKey]fk.VRange{}
							for b := 1; b <= 2; b++ {
								vr := adv
								if other != nil && b != first {
									vr = *other
								}
								c.Versions[b] = hx.Versions(map[protocol.ApiKey]fk.VRange{op.Key: vr})
							}
							// the version chosen is observed even when the broker would refuse it
							c.AcceptAnyVersion = true
							cl, tr := clientops.NewClient(c)
							defer tr.CloseIdleConnections()
							_, err := op.Run(ctx, cl)
							c.Lock()
							defer c.Unlock()
							negotiated := map[int]bool{} // connections whose ApiVersions exchange is behind them
							var sent []string
							for _, e := range c.Journal {
								if !negotiated[e.Conn] {
									// the first request of a Transport connection is the ApiVersions request that
									// fetches the table; it cannot be negotiated
									negotiated[e.Conn] = true
									if e.Key == protocol.ApiVersions {
										continue
									}
								}
								if e.Key != op.Key {
									continue
								}
								b := c.VersionsOf(e.Broker)[op.Key]
								want, overlap := common(op.Key, b)
								sent = append(sent, fmt.Sprintf("b%d:v%d", e.Broker, e.Version))
								switch {
								case overlap && e.Version != want && v == nil:
									v = &seqx.Viol{Sig: "version-not-highest-common:" + op.Name, Msg: fmt.Sprintf("%s: request #%d reached broker %d at version %d; the client implements [%d,%d], that broker advertised [%d,%d], the highest version supported by both is %d", op.Name, e.Seq, e.Broker, e.Version, cmin, cmax, b.Min, b.Max, want)}
								case !overlap && (e.Version < cmin || e.Version > cmax) && v == nil:
									v = &seqx.Viol{Sig: "version-outside-client-range:" + op.Name, Msg: fmt.Sprintf("%s: request #%d reached broker %d at version %d, which the client does not implement ([%d,%d]); that broker advertised [%d,%d] (no common version)", op.Name, e.Seq, e.Broker, e.Version, cmin, cmax, b.Min, b.Max)}
								}
							}
							sort.Strings(sent)
							key = fmt.Sprintf("%s %s %v ok=%v", op.Name, relation(cmin, cmax, adv), sent, err == nil)
						})
						if br.Panic != "" {
							return "panic", &seqx.Viol{Sig: "panic", Msg: br.Panic}
						}
						return key, v
					})
				}
			}
		}
	}
}
