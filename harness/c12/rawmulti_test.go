package c12

import (
	"bytes"
	"context"
	"fmt"
	"testing"
	"time"

	kafka "github.com/segmentio/kafka-go"
	"github.com/segmentio/kafka-go/protocol"
	"github.com/segmentio/kafka-go/protocol/fetch"
	"github.com/segmentio/kafka-go/protocol/listoffsets"
	"github.com/segmentio/kafka-go/protocol/produce"
	"github.com/segmentio/kafka-go/protocol/rawproduce"

	"verif/engine/bub"
	"verif/engine/fk"
	"verif/engine/seqx"
	"verif/harness/hx"
)

// F. raw multi-partition requests through Transport.RoundTrip. Writer, Reader and the Client methods for produce
// and fetch put one partition in a request, so the leader-consistency logic of the request types that are routed
// by partition leader (their Broker/Split methods: produce, rawproduce, fetch, listoffsets) is only reachable by
// handing the Transport a protocol-level request that names several partitions. Requests over 1..3 partitions,
// under every assignment of leaders from brokers {0,1,2} to those partitions (so every broker id, 0 included,
// occurs at every position of the request), in two layouts of the request (all partitions under one topic entry /
// one topic entry per partition). Oracle on the fake cluster's journal: no broker may receive a request (or
// sub-request) naming a partition it does not lead; a request that RoundTrip accepted (nil error) must have
// reached a broker for every partition it names; a request whose partitions share one leader must reach it.
// A request that cannot be routed as a whole may be refused locally with an error instead.

var rawTopics = []string{"t", "u", "v"}

func mkRawCluster(leaders []int) *fk.Cluster {
	c := fk.New(0)
	for i := 0; i < 3; i++ {
		c.Brokers = append(c.Brokers, &fk.Broker{ID: i, Host: fmt.Sprintf("b%d", i), Port: 9092})
	}
	c.Auto = true
	c.Controller = 1
	for _, tn := range rawTopics {
		c.AddTopic(tn, 3, func(p int) int {
			if p < len(leaders) {
				return leaders[p]
			}
			return 1
		})
	}
	return c
}

type rawTP struct {
	topic string
	part  int
}

// rawLayout places partition index i of the request: "one-topic" t/i, "topic-per-partition" rawTopics[i]/i
func rawLayout(layout string, k int) []rawTP {
	var l []rawTP
	for i := 0; i < k; i++ {
		if layout == "one-topic" {
			l = append(l, rawTP{"t", i})
		} else {
			l = append(l, rawTP{rawTopics[i], i})
		}
	}
	return l
}

type rawKind struct {
	name  string
	key   protocol.ApiKey
	build func(tps []rawTP) protocol.Message
}

func rawRecordSet() protocol.RecordSet {
	return protocol.RecordSet{Version: 2, Records: protocol.NewRecordReader(protocol.Record{Value: protocol.NewBytes([]byte("v"))})}
}

func rawKinds() []rawKind {
	return []rawKind{
		{"produce", protocol.Produce, func(tps []rawTP) protocol.Message {
			r := &produce.Request{Acks: -1, Timeout: 1000}
			for _, tp := range tps {
				rp := produce.RequestPartition{Partition: int32(tp.part), RecordSet: rawRecordSet()}
				if n := len(r.Topics); n > 0 && r.Topics[n-1].Topic == tp.topic {
					r.Topics[n-1].Partitions = append(r.Topics[n-1].Partitions, rp)
				} else {
					r.Topics = append(r.Topics, produce.RequestTopic{Topic: tp.topic, Partitions: []produce.RequestPartition{rp}})
				}
			}
			return r
		}},
		{"rawproduce", protocol.Produce, func(tps []rawTP) protocol.Message {
			r := &rawproduce.Request{Acks: -1, Timeout: 1000}
			for _, tp := range tps {
				buf := &bytes.Buffer{}
				rs := rawRecordSet()
				if _, err := rs.WriteTo(buf); err != nil {
					panic(err)
				}
				rp := rawproduce.RequestPartition{Partition: int32(tp.part), RecordSet: protocol.RawRecordSet{Reader: buf}}
				if n := len(r.Topics); n > 0 && r.Topics[n-1].Topic == tp.topic {
					r.Topics[n-1].Partitions = append(r.Topics[n-1].Partitions, rp)
				} else {
					r.Topics = append(r.Topics, rawproduce.RequestTopic{Topic: tp.topic, Partitions: []rawproduce.RequestPartition{rp}})
				}
			}
			return r
		}},
		{"fetch", protocol.Fetch, func(tps []rawTP) protocol.Message {
			r := &fetch.Request{ReplicaID: -1, MaxWaitTime: 100, MinBytes: 0, MaxBytes: 1 << 20, SessionEpoch: -1}
			for _, tp := range tps {
				rp := fetch.RequestPartition{Partition: int32(tp.part), CurrentLeaderEpoch: -1, FetchOffset: 0, LogStartOffset: -1, PartitionMaxBytes: 1 << 20}
				if n := len(r.Topics); n > 0 && r.Topics[n-1].Topic == tp.topic {
					r.Topics[n-1].Partitions = append(r.Topics[n-1].Partitions, rp)
				} else {
					r.Topics = append(r.Topics, fetch.RequestTopic{Topic: tp.topic, Partitions: []fetch.RequestPartition{rp}})
				}
			}
			return r
		}},
		{"listoffsets", protocol.ListOffsets, func(tps []rawTP) protocol.Message {
			r := &listoffsets.Request{ReplicaID: -1}
			for _, tp := range tps {
				rp := listoffsets.RequestPartition{Partition: int32(tp.part), CurrentLeaderEpoch: -1, Timestamp: kafka.LastOffset}
				if n := len(r.Topics); n > 0 && r.Topics[n-1].Topic == tp.topic {
					r.Topics[n-1].Partitions = append(r.Topics[n-1].Partitions, rp)
				} else {
					r.Topics = append(r.Topics, listoffsets.RequestTopic{Topic: tp.topic, Partitions: []listoffsets.RequestPartition{rp}})
				}
			}
			return r
		}},
	}
}

// partitionsOf lists the partitions a request seen by a broker names
func partitionsOf(m protocol.Message) []rawTP {
	var l []rawTP
	switch r := m.(type) {
	case *produce.Request:
		for _, t := range r.Topics {
			for _, p := range t.Partitions {
				l = append(l, rawTP{t.Topic, int(p.Partition)})
			}
		}
	case *fetch.Request:
		for _, t := range r.Topics {
			for _, p := range t.Partitions {
				l = append(l, rawTP{t.Topic, int(p.Partition)})
			}
		}
	case *listoffsets.Request:
		for _, t := range r.Topics {
			for _, p := range t.Partitions {
				l = append(l, rawTP{t.Topic, int(p.Partition)})
			}
		}
	}
	return l
}

func leaderAssignments(k int) [][]int {
	out := [][]int{{}}
	for i := 0; i < k; i++ {
		var next [][]int
		for _, a := range out {
			for b := 0; b < 3; b++ {
				next = append(next, append(append([]int(nil), a...), b))
			}
		}
		out = next
	}
	return out
}

func rawMultiPartition(s *seqx.Suite, t *testing.T, thorough bool) {
	s.Begin("raw-multi-partition-requests")
	boots := []int{1}
	if thorough {
		boots = []int{0, 1, 2}
	}
	for _, kind := range rawKinds() {
		for k := 1; k <= 3; k++ {
			for _, leaders := range leaderAssignments(k) {
				for _, layout := range []string{"one-topic", "topic-per-partition"} {
					if k == 1 && layout != "one-topic" {
						continue
					}
					for _, boot := range boots {
						kind, k, leaders, layout, boot := kind, k, leaders, layout, boot
						id := fmt.Sprintf("%s %s partitions=%d leaders%v boot%d", kind.name, layout, k, leaders, boot)
						s.Case(id, id, func() (string, *seqx.Viol) {
							var v *seqx.Viol
							key := ""
							br := bub.Run(t, 0, func() {
								c := mkRawCluster(leaders)
								_, tr := newClient(c, boot)
								defer tr.CloseIdleConnections()
								tps := rawLayout(layout, k)
								ctx, cancel := context.WithTimeout(context.Background(), 5*time.Second)
								defer cancel()
								_, err := tr.RoundTrip(ctx, kafka.TCP(fmt.Sprintf("b%d:9092", boot)), kind.build(tps))
								same := true
								for _, l := range leaders {
									same = same && l == leaders[0]
								}
								desc := fmt.Sprintf("%s request naming %v (leaders %v) given to Transport.RoundTrip returned %s", kind.name, tps, leaders, hx.ErrString(err))
								if err != nil {
									desc += " (" + err.Error() + ")"
								}
								c.Lock()
								defer c.Unlock()
								reached := map[rawTP]int{}
								nreq := 0
								for _, e := range c.Journal {
									if e.Key != kind.key {
										continue
									}
									nreq++
									for _, tp := range partitionsOf(e.Msg) {
										reached[tp]++
										if part := c.Part(tp.topic, tp.part); part != nil && part.Leader != e.Broker {
											v = &seqx.Viol{Sig: "raw-misrouted:" + kind.name, Msg: fmt.Sprintf("%s: broker %d received a request naming %v, which includes %s/%d led by broker %d", desc, e.Broker, partitionsOf(e.Msg), tp.topic, tp.part, part.Leader)}
											return
										}
									}
								}
								key = fmt.Sprintf("%s same-leader=%v err=%v requests=%d", kind.name, same, err != nil, nreq)
								if err == nil || same {
									for _, tp := range tps {
										if reached[tp] == 0 {
											v = &seqx.Viol{Sig: "raw-not-sent:" + kind.name, Msg: fmt.Sprintf("%s: no broker received anything for %s/%d", desc, tp.topic, tp.part)}
											return
										}
									}
								}
								if err != nil && same {
									v = &seqx.Viol{Sig: "raw-request-failed:" + kind.name, Msg: desc + " although all its partitions are led by one broker, which received it"}
								}
							})
							if br.Panic != "" {
								return "panic", &seqx.Viol{Sig: "panic", Msg: br.Panic}
							}
							return key, v
						})
					}
				}
			}
		}
	}
}
