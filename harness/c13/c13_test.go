// Package c13: partition balancers. Sequential part: exhaustive keys x partition
// counts against independent references, RoundRobin/LeastBytes sequences.
// Concurrent part (qx, fine level on balancer.go): linearisability of the counters
// and purity of the hashing balancers under every interleaving.
package c13

import (
	"fmt"
	"hash"
	"os"
	"sort"
	"strings"
	"sync"
	"testing"

	kafka "github.com/segmentio/kafka-go"
	"github.com/segmentio/kafka-go/zzverif/vhook"

	"verif/engine/qx"
	"verif/engine/seqx"
)

func parts(n int) []int {
	p := make([]int, n)
	for i := range p {
		p[i] = i
	}
	return p
}

func inList(p int, l []int) bool {
	for _, x := range l {
		if x == p {
			return true
		}
	}
	return false
}

var counts = []int{1, 2, 3, 4, 5, 6, 7, 8, 9, 10, 11, 12, 13, 14, 15, 16, 17, 100, 128, 129, 1000}

func TestCheck(t *testing.T) {
	s := seqx.New(t)
	thorough := os.Getenv("VERIF_TIER") == "thorough"
	items := concurrentItems(thorough)
	if s.Replay != nil {
		for _, it := range items {
			if it.Scn.Name == s.Replay.Scenario {
				qx.Replay(t, items, os.Getenv("VERIF_REPLAY"))
				return
			}
		}
	}

	// reference self-test on published vectors (Kafka's UtilsTest, hash/fnv and crc32 check values)
	vec := map[string]int32{"21": -973932308, "foobar": -790332482, "a-little-bit-long-string": -985981536, "a-little-bit-longer-string": -1486304829,
		"lkjh234lh9fiuh90y23oiuhsafujhadof229phr9h19h89h8": -58897971, "abc": 479470107}
	for k, v := range vec {
		if refMurmur2([]byte(k)) != v {
			t.Fatalf("reference murmur2 self-test failed for %q: %d != %d", k, refMurmur2([]byte(k)), v)
		}
	}
	if refCRC32([]byte("123456789")) != 0xCBF43926 || refFNV1a([]byte("a")) != 0xe40c292c || refFNV1a(nil) != 0x811c9dc5 {
		t.Fatalf("reference crc32/fnv self-test failed")
	}

	// keys: every string of length <= L over {0x00,0x7f,0x80,0xff} (+ an ASCII letter in thorough)
	alpha := []byte{0x00, 0x7f, 0x80, 0xff}
	L := 7
	if thorough {
		L = 8
	}
	s.Begin("hash-balancers-vs-references")
	h, rh := &kafka.Hash{}, &kafka.ReferenceHash{}
	crcC, crcR := kafka.CRC32Balancer{Consistent: true}, kafka.CRC32Balancer{}
	murC, murR := kafka.Murmur2Balancer{Consistent: true}, kafka.Murmur2Balancer{}
	checkKey := func(key []byte) (string, *seqx.Viol) {
		msg := kafka.Message{Key: key}
		okey := ""
		for _, n := range counts {
			ps := parts(n)
			type tc struct {
				name string
				got  int
				want int // -1: any offered partition
			}
			var tcs []tc
			if key == nil {
				tcs = []tc{{"Hash(nil)", h.Balance(msg, ps...), -1}, {"ReferenceHash(nil)", rh.Balance(msg, ps...), -1},
					{"CRC32(nil,random)", crcR.Balance(msg, ps...), -1}, {"CRC32(nil,consistent)", crcC.Balance(msg, ps...), refRdkafka(nil, n)},
					{"Murmur2(nil,random)", murR.Balance(msg, ps...), -1}, {"Murmur2(nil,consistent)", murC.Balance(msg, ps...), refJava(nil, n)}}
			} else {
				tcs = []tc{{"Hash", h.Balance(msg, ps...), refSaramaHash(key, n)}, {"ReferenceHash", rh.Balance(msg, ps...), refSaramaReference(key, n)},
					{"CRC32(consistent)", crcC.Balance(msg, ps...), refRdkafka(key, n)}, {"Murmur2(consistent)", murC.Balance(msg, ps...), refJava(key, n)},
					{"Murmur2", murR.Balance(msg, ps...), refJava(key, n)}}
				if len(key) > 0 {
					tcs = append(tcs, tc{"CRC32", crcR.Balance(msg, ps...), refRdkafka(key, n)})
				} else {
					tcs = append(tcs, tc{"CRC32(empty,random)", crcR.Balance(msg, ps...), -1})
				}
			}
			for _, c := range tcs {
				if !inList(c.got, ps) {
					return "", &seqx.Viol{Sig: "not-offered:" + c.name, Msg: fmt.Sprintf("%s returned %d for key %x, not one of the %d offered partitions", c.name, c.got, key, n)}
				}
				if c.want >= 0 && c.got != c.want {
					return "", &seqx.Viol{Sig: "mismatch:" + c.name, Msg: fmt.Sprintf("%s(key=%x, n=%d) = %d, reference client gives %d", c.name, key, n, c.got, c.want)}
				}
				if n == 17 && c.want >= 0 {
					okey += fmt.Sprintf("%d,", c.got)
				}
			}
		}
		return fmt.Sprintf("len%d:%s", len(key), okey), nil
	}
	s.Case("nil", "nil key", func() (string, *seqx.Viol) { return checkKey(nil) })
	var rec func(prefix []byte)
	rec = func(prefix []byte) {
		if s.TimeUp() {
			return
		}
		key := append([]byte{}, prefix...)
		s.Case(fmt.Sprintf("%x", key), fmt.Sprintf("key %x", key), func() (string, *seqx.Viol) { return checkKey(key) })
		if len(prefix) == L {
			return
		}
		for _, c := range alpha {
			rec(append(prefix, c))
		}
	}
	rec([]byte{})
	for _, k := range []string{"21", "foobar", "a-little-bit-long-string", "hello", "kafka", "blah", "boop", "test-key-1", "0123456789abcdef0123456789abcdef0"} {
		k := k
		s.Case("ascii:"+k, k, func() (string, *seqx.Viol) { return checkKey([]byte(k)) })
	}

	s.Begin("roundrobin-sequences")
	for _, cs := range []int{-1, 0, 1, 2, 3, 5, 12} {
		for n := 1; n <= 5; n++ {
			cs, n := cs, n
			s.Case(fmt.Sprintf("chunk%d n%d", cs, n), nil, func() (string, *seqx.Viol) {
				rr := &kafka.RoundRobin{ChunkSize: cs}
				chunk := cs
				if chunk < 1 {
					chunk = 1
				}
				ps := parts(n)
				for i := 0; i < 60; i++ {
					got := rr.Balance(kafka.Message{}, ps...)
					want := ps[(i/chunk)%n]
					if got != want {
						return "", &seqx.Viol{Sig: "roundrobin-sequence", Msg: fmt.Sprintf("RoundRobin{ChunkSize:%d} over %d partitions: call %d returned %d, want %d", cs, n, i, got, want)}
					}
				}
				return fmt.Sprintf("chunk%d", chunk), nil
			})
		}
	}

	s.Begin("leastbytes-sequences")
	sizes := []int{0, 1, 5}
	maxLen := 6
	if thorough {
		maxLen = 8
	}
	for n := 1; n <= 4; n++ {
		for l := 1; l <= maxLen; l++ {
			seq := make([]int, l)
			for {
				n, sq := n, append([]int(nil), seq...)
				s.Case(fmt.Sprintf("n%d %v", n, sq), nil, func() (string, *seqx.Viol) {
					lb := &kafka.LeastBytes{}
					bytes := make([]int, n)
					ps := parts(n)
					picks := ""
					for i, si := range sq {
						sz := sizes[si]
						got := lb.Balance(kafka.Message{Key: make([]byte, sz/2), Value: make([]byte, sz-sz/2)}, ps...)
						if !inList(got, ps) {
							return "", &seqx.Viol{Sig: "leastbytes-not-offered", Msg: fmt.Sprintf("LeastBytes returned %d", got)}
						}
						mn := bytes[0]
						for _, b := range bytes {
							mn = min(mn, b)
						}
						if bytes[got] != mn {
							return "", &seqx.Viol{Sig: "leastbytes-not-min", Msg: fmt.Sprintf("LeastBytes over %d partitions, sizes %v: call %d picked partition %d holding %d bytes while the minimum is %d (%v)", n, sq, i, got, bytes[got], mn, bytes)}
						}
						bytes[got] += sz
						picks += fmt.Sprint(got)
					}
					return picks, nil
				})
				if !incr(seq, len(sizes)) {
					break
				}
			}
		}
	}

	writerCases(s, thorough)

	if s.Replay == nil {
		s.AddStats(qx.ExploreAll(t, items, s.Remaining())...)
	}
	s.Finish()
}

func incr(a []int, radix int) bool {
	for i := len(a) - 1; i >= 0; i-- {
		a[i]++
		if a[i] < radix {
			return true
		}
		a[i] = 0
	}
	return false
}

// slowHasher is a user-supplied hash.Hash32 (FNV-1a) whose methods are
// scheduling points, so the explorer can interleave other goroutines between
// Reset, Write and Sum32.
type slowHasher struct{ h uint32 }

func (s *slowHasher) Write(p []byte) (int, error) {
	vhook.Point(vhook.KUser, s)
	for _, c := range p {
		s.h ^= uint32(c)
		s.h *= 16777619
	}
	return len(p), nil
}
func (s *slowHasher) Sum(b []byte) []byte { return b }
func (s *slowHasher) Reset()              { vhook.Point(vhook.KUser, s); s.h = 2166136261 }
func (s *slowHasher) Size() int           { return 4 }
func (s *slowHasher) BlockSize() int      { return 1 }
func (s *slowHasher) Sum32() uint32       { vhook.Point(vhook.KUser, s); return s.h }

var _ hash.Hash32 = (*slowHasher)(nil)

func concurrentItems(thorough bool) []qx.SuiteItem {
	bound := 3
	if thorough {
		bound = 4
	}
	type res struct {
		thread, idx, got int
	}
	mk := func(name string, threads, calls int, body func(th, i int) int, judge func(rs []res) (string, string)) qx.SuiteItem {
		scn := &qx.Scenario{Name: name, Cfg: qx.Config{Fine: true, Files: []string{"balancer.go"}, NoTick: true}}
		scn.Body = func(x *qx.Exec) *qx.Outcome {
			var mu sync.Mutex
			var rs []res
			for th := 0; th < threads; th++ {
				th := th
				x.Go(fmt.Sprintf("T%d", th), func() {
					for i := 0; i < calls; i++ {
						g := body(th, i)
						mu.Lock()
						rs = append(rs, res{th, i, g})
						mu.Unlock()
					}
				})
			}
			// the body closure may depend on per-execution state: reset through name-specific hook
			x.Run()
			sort.Slice(rs, func(i, j int) bool {
				if rs[i].thread != rs[j].thread {
					return rs[i].thread < rs[j].thread
				}
				return rs[i].idx < rs[j].idx
			})
			var kb strings.Builder
			for _, r := range rs {
				fmt.Fprintf(&kb, "T%d.%d=%d ", r.thread, r.idx, r.got)
			}
			o := &qx.Outcome{Key: kb.String(), Obs: kb.String()}
			if x.Status != qx.StDone {
				o.Violation, o.Sig = "balancer calls did not finish: "+string(x.Status), "stuck"
				return o
			}
			sig, msg := judge(rs)
			o.Sig, o.Violation = sig, msg
			return o
		}
		return qx.SuiteItem{Scn: scn, Bound: bound}
	}
	var items []qx.SuiteItem

	// RoundRobin: k calls in total return exactly the first k values of the sequential sequence, per thread in increasing position
	var rr *kafka.RoundRobin
	rrItem := mk("concurrent-roundrobin", 3, 2, func(th, i int) int { return rr.Balance(kafka.Message{}, 0, 1, 2, 3) }, func(rs []res) (string, string) {
		var got []int
		for _, r := range rs {
			got = append(got, r.got)
		}
		sort.Ints(got)
		want := []int{0, 0, 1, 1, 2, 2} // chunk 2 over 4 partitions, 6 calls: 0 0 1 1 2 2
		if fmt.Sprint(got) != fmt.Sprint(want) {
			return "roundrobin-lost-update", fmt.Sprintf("6 concurrent RoundRobin{ChunkSize:2} calls returned %v, a sequential run returns %v", got, want)
		}
		return "", ""
	})
	body := rrItem.Scn.Body
	rrItem.Scn.Body = func(x *qx.Exec) *qx.Outcome { rr = &kafka.RoundRobin{ChunkSize: 2}; return body(x) }
	items = append(items, rrItem)

	// LeastBytes: results must be explained by some interleaving of the per-thread call sequences
	var lb *kafka.LeastBytes
	szs := [][]int{{5, 1}, {1, 1}, {3, 0}}
	lbItem := mk("concurrent-leastbytes", 3, 2, func(th, i int) int {
		return lb.Balance(kafka.Message{Value: make([]byte, szs[th][i])}, 0, 1, 2)
	}, func(rs []res) (string, string) {
		// brute force over interleavings
		pos := []int{0, 0, 0}
		bytes := []int{0, 0, 0}
		var try func() bool
		try = func() bool {
			done := true
			for th := 0; th < 3; th++ {
				if pos[th] < 2 {
					done = false
					// sequential spec: first minimal counter
					mi := 0
					for p := 1; p < 3; p++ {
						if bytes[p] < bytes[mi] {
							mi = p
						}
					}
					var got int
					for _, r := range rs {
						if r.thread == th && r.idx == pos[th] {
							got = r.got
						}
					}
					if bytes[got] == bytes[mi] { // any arg-min is acceptable
						bytes[got] += szs[th][pos[th]]
						pos[th]++
						if try() {
							return true
						}
						pos[th]--
						bytes[got] -= szs[th][pos[th]]
					}
				}
			}
			return done
		}
		if !try() {
			return "leastbytes-not-linearizable", fmt.Sprintf("concurrent LeastBytes results %v cannot be explained by any sequential order", rs)
		}
		return "", ""
	})
	body2 := lbItem.Scn.Body
	lbItem.Scn.Body = func(x *qx.Exec) *qx.Outcome { lb = &kafka.LeastBytes{}; return body2(x) }
	items = append(items, lbItem)

	// Hash / ReferenceHash with a user-supplied Hasher: still a pure function of the key
	keys := [][]string{{"blah", "k1"}, {"boop", "k2"}, {"zed", "k3"}}
	var hb kafka.Balancer
	for _, kind := range []string{"hash", "referencehash"} {
		kind := kind
		it := mk("concurrent-"+kind+"-custom-hasher", 2, 2, func(th, i int) int {
			return hb.Balance(kafka.Message{Key: []byte(keys[th][i])}, 0, 1, 2, 3, 4)
		}, func(rs []res) (string, string) {
			for _, r := range rs {
				k := []byte(keys[r.thread][r.idx])
				want := refSaramaHash(k, 5)
				if kind == "referencehash" {
					want = refSaramaReference(k, 5)
				}
				if r.got != want {
					return "hash-not-pure", fmt.Sprintf("%s with a custom Hasher under concurrency: key %q went to partition %d, the reference gives %d", kind, k, r.got, want)
				}
			}
			return "", ""
		})
		b3 := it.Scn.Body
		it.Scn.Body = func(x *qx.Exec) *qx.Outcome {
			if kind == "hash" {
				hb = &kafka.Hash{Hasher: &slowHasher{}}
			} else {
				hb = &kafka.ReferenceHash{Hasher: &slowHasher{}}
			}
			return b3(x)
		}
		items = append(items, it)
	}
	return items
}
