package c13

// Independent reference implementations (written from the algorithms'
// definitions, not from kafka-go): FNV-1a 32, CRC-32 (IEEE, bitwise), murmur2
// as in the Java client's Utils.murmur2, and the partitioner formulas of
// Sarama (two variants), librdkafka (consistent) and the Java default partitioner.

func refFNV1a(b []byte) uint32 {
	h := uint32(2166136261)
	for _, c := range b {
		h ^= uint32(c)
		h *= 16777619
	}
	return h
}

func refCRC32(b []byte) uint32 {
	crc := ^uint32(0)
	for _, c := range b {
		crc ^= uint32(c)
		for i := 0; i < 8; i++ {
			if crc&1 != 0 {
				crc = (crc >> 1) ^ 0xEDB88320
			} else {
				crc >>= 1
			}
		}
	}
	return ^crc
}

// Java: Utils.murmur2(byte[] data), all arithmetic in 32-bit signed ints.
func refMurmur2(data []byte) int32 {
	length := int32(len(data))
	var seed int32 = -1756908916 // 0x9747b28c
	const m int32 = 0x5bd1e995
	const r = 24
	h := seed ^ length
	length4 := length / 4
	for i := int32(0); i < length4; i++ {
		i4 := i * 4
		k := (int32(data[i4+0]) & 0xff) + ((int32(data[i4+1]) & 0xff) << 8) + ((int32(data[i4+2]) & 0xff) << 16) + ((int32(data[i4+3]) & 0xff) << 24)
		k *= m
		k ^= int32(uint32(k) >> r)
		k *= m
		h *= m
		h ^= k
	}
	base := length & ^3
	switch length % 4 {
	case 3:
		h ^= (int32(data[base+2]) & 0xff) << 16
		fallthrough
	case 2:
		h ^= (int32(data[base+1]) & 0xff) << 8
		fallthrough
	case 1:
		h ^= int32(data[base]) & 0xff
		h *= m
	}
	h ^= int32(uint32(h) >> 13)
	h *= m
	h ^= int32(uint32(h) >> 15)
	return h
}

// Sarama NewHashPartitioner: int32(hash) % n, negated when negative.
func refSaramaHash(key []byte, n int) int {
	p := int32(refFNV1a(key)) % int32(n)
	if p < 0 {
		p = -p
	}
	return int(p)
}

// Sarama NewReferenceHashPartitioner: (int32(hash) & 0x7fffffff) % n.
func refSaramaReference(key []byte, n int) int {
	return int((int32(refFNV1a(key)) & 0x7fffffff) % int32(n))
}

// librdkafka consistent partitioner: crc32(key) % n.
func refRdkafka(key []byte, n int) int { return int(refCRC32(key) % uint32(n)) }

// Java DefaultPartitioner: toPositive(murmur2(key)) % n.
func refJava(key []byte, n int) int { return int((refMurmur2(key) & 0x7fffffff) % int32(n)) }
