package c13

// Writer-level part of C13: "for every message and every partition list a Writer can supply".
//
// The list a Writer hands to Balancer.Balance comes from a process-wide cache (writer.go loadCachedPartitions)
// whose content depends on the partition counts the process has seen before. A case is therefore a *sequence*
// of partition counts straddling the cache's growth thresholds (multiples of 128) and one balancer; it runs in
// a fresh process (this test binary re-executed with C13_CHILD set), where a real kafka.Writer over an
// in-memory RoundTripper produces to one topic per element of the sequence, in order. Checked per step:
//
//   - key-hashing balancers: for every partition p of the topic one key that the independent reference
//     (ref.go) maps to p; the partition in the produce request must be p;
//   - a recording Balancer: the list it is offered must be exactly 0..n-1, and the record goes where it said;
//   - RoundRobin (fresh): n+1 records of one call go to 0,1,..,n-1,0;
//   - LeastBytes (fresh): every record goes to a partition with the fewest bytes routed so far.
//
// All ordered pairs (thorough: triples) of the counts, plus the single counts, times the seven balancers.

import (
	"bytes"
	"context"
	"encoding/json"
	"fmt"
	"io"
	"net"
	"os"
	"os/exec"
	"strconv"
	"strings"
	"sync"
	"testing"
	"testing/synctest"
	"time"

	kafka "github.com/segmentio/kafka-go"
	"github.com/segmentio/kafka-go/protocol"
	"github.com/segmentio/kafka-go/protocol/metadata"
	"github.com/segmentio/kafka-go/protocol/produce"

	"verif/engine/seqx"
)

// partition counts around the thresholds of the cache (128, 256) and well inside its classes
var writerCounts = []int{1, 12, 127, 128, 129, 200, 256, 257, 300}

var writerKinds = []string{"Hash", "ReferenceHash", "CRC32Balancer", "Murmur2Balancer", "RoundRobin", "LeastBytes", "recording"}

type childResult struct {
	Key string `json:"key"`
	Sig string `json:"sig,omitempty"`
	Msg string `json:"msg,omitempty"`
}

const childMark = "C13RESULT "

func writerCases(s *seqx.Suite, thorough bool) {
	s.Begin("writer-supplied-partition-lists")
	exe, err := os.Executable()
	if err != nil {
		s.T.Fatal(err)
	}
	var seqs [][]int
	for _, a := range writerCounts {
		seqs = append(seqs, []int{a})
	}
	for _, a := range writerCounts {
		for _, b := range writerCounts {
			seqs = append(seqs, []int{a, b})
		}
	}
	if thorough {
		for _, a := range writerCounts {
			for _, b := range writerCounts {
				for _, c := range writerCounts {
					seqs = append(seqs, []int{a, b, c})
				}
			}
		}
	}
	for _, sq := range seqs {
		for _, kind := range writerKinds {
			if s.TimeUp() {
				return
			}
			var parts []string
			for _, n := range sq {
				parts = append(parts, strconv.Itoa(n))
			}
			spec := kind + ";" + strings.Join(parts, ",")
			s.Case(spec, "Writer with "+kind+", topics of "+strings.Join(parts, " then ")+" partitions in one process", func() (string, *seqx.Viol) {
				ctx, cancel := context.WithTimeout(context.Background(), 5*time.Minute) // watchdog only; the child runs on virtual time
				defer cancel()
				cmd := exec.CommandContext(ctx, exe, "-test.run=^TestWriterChild$", "-test.count=1", "-test.timeout=0")
				cmd.Env = append(os.Environ(), "C13_CHILD="+spec)
				out, err := cmd.CombinedOutput()
				for _, l := range bytes.Split(out, []byte("\n")) {
					if bytes.HasPrefix(l, []byte(childMark)) {
						var r childResult
						if json.Unmarshal(l[len(childMark):], &r) == nil {
							if r.Sig != "" {
								return r.Key, &seqx.Viol{Sig: r.Sig, Msg: r.Msg}
							}
							return r.Key, nil
						}
					}
				}
				tail := string(out)
				if len(tail) > 1500 {
					tail = tail[len(tail)-1500:]
				}
				return "child-failed", &seqx.Viol{Sig: "writer-child-failed", Msg: fmt.Sprintf("the process running %q ended without a verdict (%v): %s", spec, err, tail)}
			})
		}
	}
}

// wcluster answers metadata requests from its topic table and records where every produced record went.
type wcluster struct {
	mu     sync.Mutex
	topics map[string]int
	routed map[string][]int // topic/value -> partitions of the produce requests that carried it
}

func (c *wcluster) RoundTrip(ctx context.Context, addr net.Addr, req kafka.Request) (kafka.Response, error) {
	switch r := req.(type) {
	case *metadata.Request:
		res := &metadata.Response{Brokers: []metadata.ResponseBroker{{NodeID: 1, Host: "b1", Port: 9092}}, ControllerID: 1}
		c.mu.Lock()
		defer c.mu.Unlock()
		for _, name := range r.TopicNames {
			n, ok := c.topics[name]
			t := metadata.ResponseTopic{Name: name}
			if !ok {
				t.ErrorCode = int16(kafka.UnknownTopicOrPartition)
			}
			for p := 0; p < n; p++ {
				t.Partitions = append(t.Partitions, metadata.ResponsePartition{PartitionIndex: int32(p), LeaderID: 1, ReplicaNodes: []int32{1}, IsrNodes: []int32{1}})
			}
			res.Topics = append(res.Topics, t)
		}
		return res, nil
	case *produce.Request:
		res := &produce.Response{}
		for _, t := range r.Topics {
			rt := produce.ResponseTopic{Topic: t.Topic}
			for _, p := range t.Partitions {
				for p.RecordSet.Records != nil {
					rec, err := p.RecordSet.Records.ReadRecord()
					if err != nil {
						if err == io.EOF {
							break
						}
						return nil, err
					}
					var v []byte
					if rec.Value != nil {
						v, _ = protocol.ReadAll(rec.Value)
					}
					c.mu.Lock()
					k := t.Topic + "/" + string(v)
					c.routed[k] = append(c.routed[k], int(p.Partition))
					c.mu.Unlock()
				}
				rp := produce.ResponsePartition{Partition: p.Partition, LogAppendTime: -1}
				c.mu.Lock()
				if n := c.topics[t.Topic]; int(p.Partition) < 0 || int(p.Partition) >= n {
					rp.ErrorCode = int16(kafka.UnknownTopicOrPartition)
					rp.BaseOffset = -1
				}
				c.mu.Unlock()
				rt.Partitions = append(rt.Partitions, rp)
			}
			res.Topics = append(res.Topics, rt)
		}
		return res, nil
	}
	return nil, fmt.Errorf("c13 fake cluster: unsupported request %T", req)
}

// recording is a user Balancer that keeps a copy of every list it is offered and picks the last element.
type recording struct {
	mu    sync.Mutex
	lists [][]int
}

func (b *recording) Balance(msg kafka.Message, partitions ...int) int {
	b.mu.Lock()
	defer b.mu.Unlock()
	b.lists = append(b.lists, append([]int(nil), partitions...))
	if len(partitions) == 0 {
		return 0
	}
	return partitions[len(partitions)-1]
}

// membership wraps a built-in balancer and notes when it returns a partition that is not in the list it was offered.
type membership struct {
	inner kafka.Balancer
	mu    sync.Mutex
	bad   string
}

func (b *membership) Balance(msg kafka.Message, partitions ...int) int {
	p := b.inner.Balance(msg, partitions...)
	if !inList(p, partitions) {
		b.mu.Lock()
		if b.bad == "" {
			b.bad = fmt.Sprintf("returned %d for key %q, which is not among the %d partitions it was offered", p, msg.Key, len(partitions))
		}
		b.mu.Unlock()
	}
	return p
}

func (b *membership) take() string {
	b.mu.Lock()
	defer b.mu.Unlock()
	s := b.bad
	b.bad = ""
	return s
}

func refFor(kind string) func(key []byte, n int) int {
	switch kind {
	case "Hash":
		return refSaramaHash
	case "ReferenceHash":
		return refSaramaReference
	case "CRC32Balancer":
		return refRdkafka
	case "Murmur2Balancer":
		return refJava
	}
	return nil
}

// keysCovering returns, for every partition 0..n-1, the first key "k<i>" the reference maps to it.
func keysCovering(ref func([]byte, int) int, n int) []string {
	keys := make([]string, n)
	left := n
	for i := 0; left > 0; i++ {
		k := "k" + strconv.Itoa(i)
		p := ref([]byte(k), n)
		if keys[p] == "" {
			keys[p] = k
			left--
		}
	}
	return keys
}

func TestWriterChild(t *testing.T) {
	spec := os.Getenv("C13_CHILD")
	if spec == "" {
		t.Skip("only runs as the child process of a writer-supplied-partition-lists case")
	}
	kind, list, _ := strings.Cut(spec, ";")
	var seq []int
	for _, f := range strings.Split(list, ",") {
		n, err := strconv.Atoi(f)
		if err != nil || n < 1 {
			t.Fatalf("bad case %q", spec)
		}
		seq = append(seq, n)
	}
	var res childResult
	synctest.Test(t, func(t *testing.T) { res = runWriterCase(kind, seq) })
	b, _ := json.Marshal(res)
	fmt.Printf("\n%s%s\n", childMark, b)
}

func runWriterCase(kind string, seq []int) (res childResult) {
	res.Key = fmt.Sprintf("%s %v", kind, seq)
	fail := func(sig, format string, a ...any) {
		if res.Sig == "" {
			res.Sig, res.Msg = sig, fmt.Sprintf(format, a...)
		}
	}
	c := &wcluster{topics: map[string]int{}, routed: map[string][]int{}}
	var member *membership
	newWriter := func(b kafka.Balancer) *kafka.Writer {
		if _, user := b.(*recording); !user {
			member = &membership{inner: b}
			b = member
		}
		return &kafka.Writer{Addr: kafka.TCP("b1:9092"), Balancer: b, Transport: c, BatchSize: 1, BatchTimeout: 10 * time.Millisecond,
			MaxAttempts: 1, RequiredAcks: kafka.RequireOne, WriteTimeout: 3 * time.Second, ReadTimeout: 3 * time.Second}
	}
	// balancers without per-topic state serve the whole sequence through one Writer
	var shared *kafka.Writer
	rec := &recording{}
	switch kind {
	case "Hash":
		shared = newWriter(&kafka.Hash{})
	case "ReferenceHash":
		shared = newWriter(&kafka.ReferenceHash{})
	case "CRC32Balancer":
		shared = newWriter(kafka.CRC32Balancer{})
	case "Murmur2Balancer":
		shared = newWriter(kafka.Murmur2Balancer{})
	case "recording":
		shared = newWriter(rec)
	}
	if shared != nil {
		defer shared.Close()
	}
	before := func(step int) string {
		if step == 0 {
			return "the first topic of the process"
		}
		return fmt.Sprintf("after topics of %v partitions in the same process", seq[:step])
	}
	routedTo := func(topic, value string) (int, bool) {
		c.mu.Lock()
		defer c.mu.Unlock()
		l := c.routed[topic+"/"+value]
		if len(l) != 1 {
			return len(l), false
		}
		return l[0], true
	}
	for step, n := range seq {
		topic := fmt.Sprintf("s%d-p%d", step, n)
		c.mu.Lock()
		c.topics[topic] = n
		c.mu.Unlock()
		switch kind {
		case "Hash", "ReferenceHash", "CRC32Balancer", "Murmur2Balancer":
			keys := keysCovering(refFor(kind), n)
			msgs := make([]kafka.Message, n)
			for p, k := range keys {
				msgs[p] = kafka.Message{Topic: topic, Key: []byte(k), Value: []byte("m" + strconv.Itoa(p))}
			}
			err := shared.WriteMessages(context.Background(), msgs...)
			for p, k := range keys {
				got, ok := routedTo(topic, "m"+strconv.Itoa(p))
				if !ok {
					fail("writer-not-produced", "Writer with %s, topic of %d partitions (%s): the record with key %q appeared in %d produce requests (WriteMessages: %v)", kind, n, before(step), k, got, err)
				} else if got != p {
					fail("writer-mismatch:"+kind, "Writer with %s, topic of %d partitions (%s): key %q was produced to partition %d, the reference client gives %d", kind, n, before(step), k, got, p)
				}
			}
		case "recording":
			rec.mu.Lock()
			rec.lists = nil
			rec.mu.Unlock()
			err := shared.WriteMessages(context.Background(), kafka.Message{Topic: topic, Key: []byte("a"), Value: []byte("m0")}, kafka.Message{Topic: topic, Value: []byte("m1")})
			rec.mu.Lock()
			lists := rec.lists
			rec.mu.Unlock()
			if len(lists) != 2 {
				fail("writer-balance-calls", "Writer called the Balancer %d times for 2 messages (topic of %d partitions, %s; WriteMessages: %v)", len(lists), n, before(step), err)
			}
			for _, l := range lists {
				if len(l) != n {
					fail("writer-offered-list", "the Balancer was offered %d partitions for a topic of %d partitions (%s)", len(l), n, before(step))
					continue
				}
				for i, p := range l {
					if p != i {
						fail("writer-offered-list", "the Balancer was offered a list of %d partitions for a topic of %d partitions (%s) whose element %d is %d, want the contiguous 0..%d", len(l), n, before(step), i, p, n-1)
						break
					}
				}
			}
			for i := 0; i < 2 && i < len(lists); i++ {
				l := lists[i] // Balance is called once per message, in message order
				want := 0
				if len(l) > 0 {
					want = l[len(l)-1]
				}
				if got, ok := routedTo(topic, "m"+strconv.Itoa(i)); !ok {
					fail("writer-not-produced", "Writer with a user Balancer, topic of %d partitions (%s): record %d appeared in %d produce requests (WriteMessages: %v)", n, before(step), i, got, err)
				} else if got != want {
					fail("writer-ignored-balancer", "the Balancer chose partition %d for record %d of a topic of %d partitions (%s), it was produced to partition %d", want, i, n, before(step), got)
				}
			}
		case "RoundRobin":
			w := newWriter(&kafka.RoundRobin{})
			msgs := make([]kafka.Message, n+1)
			for i := range msgs {
				msgs[i] = kafka.Message{Topic: topic, Value: []byte("m" + strconv.Itoa(i))}
			}
			err := w.WriteMessages(context.Background(), msgs...)
			w.Close()
			for i := range msgs {
				got, ok := routedTo(topic, "m"+strconv.Itoa(i))
				if !ok {
					fail("writer-not-produced", "Writer with RoundRobin, topic of %d partitions (%s): record %d appeared in %d produce requests (WriteMessages: %v)", n, before(step), i, got, err)
				} else if got != i%n {
					fail("writer-roundrobin-sequence", "Writer with RoundRobin, topic of %d partitions (%s): record %d of the call was produced to partition %d, want %d", n, before(step), i, got, i%n)
				}
			}
		case "LeastBytes":
			w := newWriter(&kafka.LeastBytes{})
			msgs := make([]kafka.Message, n+n/2+1)
			for i := range msgs {
				msgs[i] = kafka.Message{Topic: topic, Value: []byte("m" + strconv.Itoa(i) + strings.Repeat("x", []int{3, 0, 5}[i%3]))}
			}
			err := w.WriteMessages(context.Background(), msgs...)
			w.Close()
			sum := make([]int, n)
			for i := range msgs {
				v := string(msgs[i].Value)
				got, ok := routedTo(topic, v)
				if !ok {
					fail("writer-not-produced", "Writer with LeastBytes, topic of %d partitions (%s): record %d appeared in %d produce requests (WriteMessages: %v)", n, before(step), i, got, err)
					continue
				}
				if got < 0 || got >= n {
					fail("writer-leastbytes-not-offered", "Writer with LeastBytes, topic of %d partitions (%s): record %d was produced to partition %d", n, before(step), i, got)
					continue
				}
				mn := sum[0]
				for _, b := range sum {
					mn = min(mn, b)
				}
				if sum[got] != mn {
					fail("writer-leastbytes-not-min", "Writer with LeastBytes, topic of %d partitions (%s): record %d was produced to partition %d holding %d bytes while the minimum is %d", n, before(step), i, got, sum[got], mn)
				}
				sum[got] += len(v)
			}
		default:
			fail("bad-case", "unknown balancer %q", kind)
		}
		if member != nil {
			if bad := member.take(); bad != "" {
				fail("writer-not-offered:"+kind, "Writer with %s, topic of %d partitions (%s): the balancer %s", kind, n, before(step), bad)
			}
		}
	}
	return res
}
