// Package c14: group balancers over exhaustively enumerated small groups, with
// the iteration order of every map they range over chosen by the enumerator
// (vhook.Perm, injected by the overlay's map-range rewrite).
package c14

import (
	"fmt"
	"os"
	"sort"
	"strings"
	"testing"

	kafka "github.com/segmentio/kafka-go"
	"github.com/segmentio/kafka-go/zzverif/vhook"

	"verif/engine/seqx"
)

type group struct {
	members []kafka.GroupMember
	parts   []kafka.Partition
}

func (g group) String() string {
	var sb strings.Builder
	for _, m := range g.members {
		fmt.Fprintf(&sb, "%s%v@%s ", m.ID, m.Topics, string(m.UserData))
	}
	sb.WriteString("| ")
	for _, p := range g.parts {
		fmt.Fprintf(&sb, "%s/%d@%s ", p.Topic, p.ID, p.Leader.Rack)
	}
	return sb.String()
}

var permTab = map[int][][]int{}

func perms(n int) [][]int {
	if p, ok := permTab[n]; ok {
		return p
	}
	var p [][]int
	if n <= 4 {
		p = seqx.Perms(n)
	} else {
		id := make([]int, n)
		rev := make([]int, n)
		rot := make([]int, n)
		for i := range id {
			id[i], rev[i], rot[i] = i, n-1-i, (i+1)%n
		}
		p = [][]int{id, rev, rot}
	}
	permTab[n] = p
	return p
}

// check evaluates the oracle for one balancer result.
func check(kind string, g group, res kafka.GroupMemberAssignments) *seqx.Viol {
	subs := map[string][]string{} // topic -> member ids subscribing
	byID := map[string]kafka.GroupMember{}
	for _, m := range g.members {
		byID[m.ID] = m
		for _, t := range m.Topics {
			subs[t] = append(subs[t], m.ID)
		}
	}
	partsOf := map[string][]kafka.Partition{}
	for _, p := range g.parts {
		partsOf[p.Topic] = append(partsOf[p.Topic], p)
	}
	// nothing for unknown members / unsubscribed topics / unknown partitions; each at most once
	owner := map[string]map[int][]string{}
	for mid, byTopic := range res {
		if _, ok := byID[mid]; !ok {
			return &seqx.Viol{Sig: kind + ":unknown-member", Msg: fmt.Sprintf("assignment for unknown member %q", mid)}
		}
		for t, ps := range byTopic {
			sub := false
			for _, mt := range byID[mid].Topics {
				sub = sub || mt == t
			}
			if !sub && len(ps) > 0 {
				return &seqx.Viol{Sig: kind + ":not-subscribed", Msg: fmt.Sprintf("member %s got partitions %v of topic %s it does not subscribe to", mid, ps, t)}
			}
			for _, p := range ps {
				if owner[t] == nil {
					owner[t] = map[int][]string{}
				}
				owner[t][p] = append(owner[t][p], mid)
			}
		}
	}
	for t, m := range owner {
		known := map[int]bool{}
		for _, p := range partsOf[t] {
			known[p.ID] = true
		}
		for p := range m {
			if !known[p] {
				return &seqx.Viol{Sig: kind + ":unknown-partition", Msg: fmt.Sprintf("partition %s/%d does not exist but was assigned", t, p)}
			}
		}
	}
	for t, mids := range subs {
		load := map[string]int{}
		for _, p := range partsOf[t] {
			o := owner[t][p.ID]
			if len(o) != 1 {
				return &seqx.Viol{Sig: fmt.Sprintf("%s:assigned-%d-times", kind, min(len(o), 2)), Msg: fmt.Sprintf("partition %s/%d assigned to %d members %v", t, p.ID, len(o), o)}
			}
			load[o[0]]++
		}
		lo, hi := 1<<30, -1
		for _, mid := range mids {
			l := load[mid]
			lo, hi = min(lo, l), max(hi, l)
		}
		if hi-lo > 1 {
			return &seqx.Viol{Sig: kind + ":uneven", Msg: fmt.Sprintf("topic %s: loads of subscribers differ by %d (%v)", t, hi-lo, load)}
		}
		sorted := append([]string(nil), mids...)
		sort.Strings(sorted)
		listed := partsOf[t]
		switch kind {
		case "range":
			// member i (sorted by id) gets a contiguous run of the listed partitions
			posOf := map[int]int{}
			for i, p := range listed {
				posOf[p.ID] = i
			}
			for _, mid := range sorted {
				ps := res[mid][t]
				for i := 1; i < len(ps); i++ {
					if posOf[ps[i]] != posOf[ps[i-1]]+1 {
						return &seqx.Viol{Sig: "range:not-contiguous", Msg: fmt.Sprintf("topic %s member %s got %v, not a contiguous run of the listed partitions", t, mid, ps)}
					}
				}
			}
		case "roundrobin":
			k := len(sorted)
			for mi, mid := range sorted {
				ps := res[mid][t]
				var want []int
				for i, p := range listed {
					if i%k == mi {
						want = append(want, p.ID)
					}
				}
				if fmt.Sprint(ps) != fmt.Sprint(want) {
					return &seqx.Viol{Sig: "roundrobin:not-kth", Msg: fmt.Sprintf("topic %s member %s (index %d of %d) got %v, want every %d-th listed partition %v", t, mid, mi, k, ps, k, want)}
				}
			}
		case "rack":
			perMember := len(listed) / len(mids)
			ledIn := map[string]int{}
			for _, p := range listed {
				ledIn[p.Leader.Rack]++
			}
			membersIn := map[string]int{}
			for _, mid := range mids {
				membersIn[string(byID[mid].UserData)]++
			}
			inRack := map[string]int{}
			for _, p := range listed {
				o := owner[t][p.ID][0]
				if string(byID[o].UserData) == p.Leader.Rack {
					inRack[p.Leader.Rack]++
				}
			}
			for z, led := range ledIn {
				if z == "" {
					continue
				}
				want := min(led, membersIn[z]*perMember)
				if inRack[z] < want {
					return &seqx.Viol{Sig: "rack:affinity-lost", Msg: fmt.Sprintf("topic %s rack %s: %d partitions led there, %d members there, floor(P/M)=%d, but only %d stay in-rack (want >= %d)", t, z, led, membersIn[z], perMember, inRack[z], want)}
				}
			}
		}
	}
	return nil
}

func canon(res kafka.GroupMemberAssignments) string {
	var keys []string
	for k := range res {
		keys = append(keys, k)
	}
	sort.Strings(keys)
	var sb strings.Builder
	for _, k := range keys {
		var ts []string
		for t := range res[k] {
			ts = append(ts, t)
		}
		sort.Strings(ts)
		for _, t := range ts {
			if len(res[k][t]) > 0 {
				fmt.Fprintf(&sb, "%s:%s%v ", k, t, res[k][t])
			}
		}
	}
	return sb.String()
}

// shape is the outcome key: balancer + multiset of per-member loads
func shape(kind string, res kafka.GroupMemberAssignments) string {
	var l []int
	for _, bt := range res {
		n := 0
		for _, ps := range bt {
			n += len(ps)
		}
		l = append(l, n)
	}
	sort.Ints(l)
	return fmt.Sprintf("%s%v", kind, l)
}

func balancers() map[string]kafka.GroupBalancer {
	return map[string]kafka.GroupBalancer{"range": kafka.RangeGroupBalancer{}, "roundrobin": kafka.RoundRobinGroupBalancer{}, "rack": kafka.RackAffinityGroupBalancer{}}
}

func runWithOrders(bound int, s *seqx.Suite, kind string, b kafka.GroupBalancer, g group) (string, *seqx.Viol) {
	var first *seqx.Viol
	key := ""
	ref := ""
	n := seqx.AllChoices(bound, func(c *seqx.Chooser) {
		f := func(n int) []int {
			ps := perms(n)
			return ps[c.Choose(len(ps))]
		}
		vhook.Perm.Store(&f)
		res := b.AssignGroups(g.members, g.parts)
		vhook.Perm.Store(nil)
		if key == "" {
			key = shape(kind, res)
			ref = canon(res)
		}
		if v := check(kind, g, res); v != nil && first == nil {
			v.Msg += fmt.Sprintf(" [map orders %v]", c.Trace)
			first = v
		}
		if kind != "rack" && canon(res) != ref && first == nil {
			first = &seqx.Viol{Sig: kind + ":map-order-dependent", Msg: "result depends on map iteration order"}
		}
	})
	s.Add("assign_calls", n)
	return key, first
}

func TestCheck(t *testing.T) {
	s := seqx.New(t)
	thorough := os.Getenv("VERIF_TIER") == "thorough"
	maxM, maxP := 3, 5
	racks := []string{"a", "b", ""}
	bound := 2
	if thorough {
		maxM, maxP = 4, 6
		racks = []string{"a", "b", "c", ""}
		bound = 3
	}
	bs := balancers()

	// 1. single topic, racks: RackAffinity (all member racks x all leader racks), all map orders up to `bound` non-default orders
	s.Begin("rack-affinity-1topic")
	for m := 1; m <= maxM && !s.TimeUp(); m++ {
		for p := 0; p <= maxP; p++ {
			mr := make([]int, m)
			for {
				pr := make([]int, p)
				for {
					g := group{}
					for i := 0; i < m; i++ {
						g.members = append(g.members, kafka.GroupMember{ID: fmt.Sprintf("m%d", i), Topics: []string{"t"}, UserData: []byte(racks[mr[i]])})
					}
					for i := 0; i < p; i++ {
						g.parts = append(g.parts, kafka.Partition{Topic: "t", ID: i, Leader: kafka.Broker{ID: i, Rack: racks[pr[i]]}})
					}
					id := fmt.Sprintf("m%v p%v", mr, pr)
					s.Case(id, g.String(), func() (string, *seqx.Viol) { return runWithOrders(bound, s, "rack", bs["rack"], g) })
					if !inc(pr, len(racks)) {
						break
					}
				}
				if !inc(mr, len(racks)) {
					break
				}
			}
		}
	}

	// 2. all three balancers: 1-2 topics, every subscription pattern, every listing order of members, three listing orders of partitions
	s.Begin("subscriptions-and-orders")
	subsets := [][]string{{"t"}, {"u"}, {"t", "u"}, {}}
	mm := 3
	pp := 3
	if thorough {
		mm, pp = 4, 4
	}
	for m := 1; m <= mm && !s.TimeUp(); m++ {
		sub := make([]int, m)
		for {
			for pt := 0; pt <= pp; pt++ {
				for pu := 0; pu <= pp; pu += max(1, pp) { // u has 0 or pp partitions
					base := group{}
					for i := 0; i < m; i++ {
						base.members = append(base.members, kafka.GroupMember{ID: fmt.Sprintf("m%d", i), Topics: subsets[sub[i]], UserData: []byte(racks[i%2])})
					}
					for i := 0; i < pt; i++ {
						base.parts = append(base.parts, kafka.Partition{Topic: "t", ID: i, Leader: kafka.Broker{Rack: racks[i%len(racks)]}})
					}
					for i := 0; i < pu; i++ {
						base.parts = append(base.parts, kafka.Partition{Topic: "u", ID: i, Leader: kafka.Broker{Rack: racks[(i+1)%len(racks)]}})
					}
					for _, kind := range []string{"range", "roundrobin", "rack"} {
						kind := kind
						id := fmt.Sprintf("%s sub%v t%d u%d", kind, sub, pt, pu)
						s.Case(id, base.String(), func() (string, *seqx.Viol) {
							key, v := runWithOrders(1, s, kind, bs[kind], base)
							if v != nil {
								return key, v
							}
							if kind == "rack" {
								return key, nil
							}
							ref := canon(bs[kind].AssignGroups(base.members, base.parts))
							// listing order of members must not matter
							for _, pm := range perms(m) {
								g := group{parts: base.parts}
								for _, i := range pm {
									g.members = append(g.members, base.members[i])
								}
								res := bs[kind].AssignGroups(g.members, g.parts)
								if v := check(kind, g, res); v != nil {
									return key, v
								}
								if canon(res) != ref {
									return key, &seqx.Viol{Sig: kind + ":member-order-dependent", Msg: fmt.Sprintf("listing members as %v changes the assignment: %s vs %s", pm, canon(res), ref)}
								}
							}
							// other listing orders of partitions: oracle only
							for _, variant := range []string{"rev", "interleave"} {
								g := group{members: base.members}
								switch variant {
								case "rev":
									for i := len(base.parts) - 1; i >= 0; i-- {
										g.parts = append(g.parts, base.parts[i])
									}
								case "interleave":
									for i := 0; i < len(base.parts); i += 2 {
										g.parts = append(g.parts, base.parts[i])
									}
									for i := 1; i < len(base.parts); i += 2 {
										g.parts = append(g.parts, base.parts[i])
									}
								}
								if v := check(kind, g, bs[kind].AssignGroups(g.members, g.parts)); v != nil {
									v.Msg += " [partitions listed " + variant + "]"
									return key, v
								}
							}
							return key, nil
						})
					}
				}
			}
			if !inc(sub, len(subsets)) {
				break
			}
		}
	}

	// 3. two topics with racks for RackAffinity (cross-topic bookkeeping)
	s.Begin("rack-affinity-2topics")
	for m := 1; m <= 2 && !s.TimeUp(); m++ {
		mr := make([]int, m)
		for {
			for pt := 0; pt <= 3; pt++ {
				pr := make([]int, pt+2)
				for {
					g := group{}
					for i := 0; i < m; i++ {
						g.members = append(g.members, kafka.GroupMember{ID: fmt.Sprintf("m%d", i), Topics: []string{"t", "u"}, UserData: []byte(racks[mr[i]])})
					}
					for i := 0; i < pt; i++ {
						g.parts = append(g.parts, kafka.Partition{Topic: "t", ID: i, Leader: kafka.Broker{Rack: racks[pr[i]]}})
					}
					for i := 0; i < 2; i++ {
						g.parts = append(g.parts, kafka.Partition{Topic: "u", ID: i, Leader: kafka.Broker{Rack: racks[pr[pt+i]]}})
					}
					id := fmt.Sprintf("m%v pt%d %v", mr, pt, pr)
					s.Case(id, g.String(), func() (string, *seqx.Viol) { return runWithOrders(bound, s, "rack", bs["rack"], g) })
					if !inc(pr, len(racks)) {
						break
					}
				}
			}
			if !inc(mr, len(racks)) {
				break
			}
		}
	}
	s.Finish()
}

// inc advances a mixed-radix counter; false when it wraps around.
func inc(a []int, radix int) bool {
	for i := len(a) - 1; i >= 0; i-- {
		a[i]++
		if a[i] < radix {
			return true
		}
		a[i] = 0
	}
	return false
}
