// Package c15: the real kafka.ConsumerGroup against the fake coordinator under
// the explorer: every order of coordinator answers (ok / error codes / dropped
// connection), partition-count changes, function exits, Close and virtual-time
// ticks within the deviation bound. Oracle on the recorded timeline: never two
// live generations, functions' contexts cancelled as soon as the generation
// ends, heartbeats at the configured interval, LeaveGroup on Close, join back-off.
package c15

import (
	"context"
	"fmt"
	"os"
	"sort"
	"strings"
	"sync"
	"testing"
	"time"

	kafka "github.com/segmentio/kafka-go"
	"github.com/segmentio/kafka-go/protocol"
	"github.com/segmentio/kafka-go/protocol/leavegroup"
	"github.com/segmentio/kafka-go/protocol/syncgroup"

	"verif/engine/fk"
	"verif/engine/qx"
)

const (
	hbInterval  = time.Second
	joinBackoff = 2 * time.Second
)

type fnRec struct {
	Gen       int32
	Name      string
	StartSeq  int
	CancelSeq int
	EndSeq    int
	StartAt   time.Duration
	CancelAt  time.Duration
	EndAt     time.Duration
	CtxErr    string
}

type nextRec struct {
	Seq    int
	At     time.Duration
	Gen    int32
	Member string
	Err    string
}

type scn struct {
	name    string
	gens    int  // generations the application consumes before closing
	earlyFn bool // a second function that returns when told to
	slowFn  bool // the waiting function needs an explicit step to wind down after its context is cancelled
	watch   bool
	fine    bool
	faults  map[protocol.ApiKey][]string
	bound   int
}

func (sc *scn) scenario() *qx.Scenario {
	cfg := qx.Config{Fine: sc.fine, Horizon: 120 * time.Second, Quantum: 7 * time.Second, Grace: 10 * time.Second, MaxSteps: 700}
	if sc.fine {
		cfg.Files = []string{"consumergroup.go"}
	}
	return &qx.Scenario{Name: sc.name, Cfg: cfg, Body: func(x *qx.Exec) *qx.Outcome {
		c := fk.New(1)
		c.AddTopic("t", 2, nil)
		c.OnEvent = x.Notify
		cg, err := kafka.NewConsumerGroup(kafka.ConsumerGroupConfig{ID: "g", Brokers: []string{"b1:9092"}, Dialer: &kafka.Dialer{DialFunc: c.Dial, Timeout: 3 * time.Second},
			Topics: []string{"t"}, HeartbeatInterval: hbInterval, SessionTimeout: 6 * time.Second, RebalanceTimeout: 6 * time.Second, JoinGroupBackoff: joinBackoff,
			Timeout: 3 * time.Second, WatchPartitionChanges: sc.watch, PartitionWatchInterval: 2 * time.Second, StartOffset: kafka.FirstOffset})
		if err != nil {
			panic(err)
		}
		var mu sync.Mutex
		seq := 0
		tick := func() int { seq++; return seq }
		var fns []*fnRec
		var nexts []nextRec
		var closeStartSeq, closeEndSeq int
		var closeStartAt time.Duration
		closed := false
		exitCh := map[int32]chan struct{}{}
		windDown := map[int32]chan struct{}{}
		closeGate := make(chan struct{}, 1)
		closeWanted := false
		appDone := false
		x.Go("app", func() {
			for i := 0; i < sc.gens; i++ {
				gen, err := cg.Next(context.Background())
				mu.Lock()
				nr := nextRec{Seq: tick(), At: x.Now()}
				if err != nil {
					nr.Err = err.Error()
					nexts = append(nexts, nr)
					mu.Unlock()
					if strings.Contains(nr.Err, "closed") {
						break
					}
					i-- // errors do not count as generations
					if len(nexts) > 12 {
						break
					}
					continue
				}
				nr.Gen, nr.Member = gen.ID, gen.MemberID
				nexts = append(nexts, nr)
				start := func(name string, body func(ctx context.Context)) {
					r := &fnRec{Gen: gen.ID, Name: name}
					fns = append(fns, r)
					gen.Start(func(ctx context.Context) {
						mu.Lock()
						r.StartSeq, r.StartAt = tick(), x.Now()
						mu.Unlock()
						body(ctx)
						mu.Lock()
						r.EndSeq, r.EndAt = tick(), x.Now()
						mu.Unlock()
						x.Notify()
					})
				}
				mu.Unlock()
				start("waiter", func(ctx context.Context) {
					<-ctx.Done()
					cerr := ""
					if e := ctx.Err(); e != nil { // never call into kafka-go while holding the harness mutex
						cerr = e.Error()
					}
					mu.Lock()
					for _, r := range fns {
						if r.Gen == gen.ID && r.Name == "waiter" && r.CancelSeq == 0 {
							r.CancelSeq, r.CancelAt = tick(), x.Now()
							r.CtxErr = cerr
						}
					}
					var rel chan struct{}
					if sc.slowFn {
						rel = make(chan struct{})
						windDown[gen.ID] = rel
					}
					mu.Unlock()
					if rel != nil {
						x.Notify()
						<-rel
					}
				})
				if sc.earlyFn {
					ch := make(chan struct{})
					mu.Lock()
					exitCh[gen.ID] = ch
					mu.Unlock()
					x.Notify()
					start("early", func(ctx context.Context) {
						select {
						case <-ch:
						case <-ctx.Done():
						}
						mu.Lock()
						delete(exitCh, gen.ID)
						mu.Unlock()
					})
				}
			}
			mu.Lock()
			appDone = true
			mu.Unlock()
		})
		x.Go("closer", func() {
			<-closeGate
			mu.Lock()
			closeStartSeq, closeStartAt = tick(), x.Now()
			mu.Unlock()
			cg.Close()
			mu.Lock()
			closeEndSeq = tick()
			closed = true
			mu.Unlock()
		})
		added := false
		stale := ""
		x.SetEnv(func() []qx.Action {
			var acts []qx.Action
			// Decisions are taken when every goroutine is blocked: a generation whose heartbeat was answered with an
			// error (or whose watched topic was reported gone) in an earlier step has had all the time it needs to
			// cancel the contexts of its functions. Virtual time alone cannot show this when the next event falls
			// on the same instant.
			if !sc.fine {
				mu.Lock()
				for _, f := range fns {
					if f.Name == "waiter" && f.StartSeq > 0 && f.CancelSeq == 0 && stale == "" {
						if w := endedBecause(c, f.Gen); w != "" {
							stale = fmt.Sprintf("generation %d ended (%s) but the context of its function was still not cancelled when the client had come to rest", f.Gen, w)
						}
					}
				}
				mu.Unlock()
			}
			ps := c.Pending()
			for _, e := range ps {
				e := e
				acts = append(acts, qx.Action{Label: fmt.Sprintf("ans#%d(api%d):ok", e.Seq, e.Key), Do: func() { c.Answer(e, "") }})
			}
			mu.Lock()
			if !closeWanted {
				label := "close"
				if appDone {
					label = "close(app done)"
				}
				acts = append(acts, qx.Action{Label: label, Do: func() { mu.Lock(); closeWanted = true; mu.Unlock(); closeGate <- struct{}{} }})
			}
			var gids []int
			for g := range exitCh {
				gids = append(gids, int(g))
			}
			sort.Ints(gids)
			for _, g := range gids {
				ch := exitCh[int32(g)]
				g := g
				acts = append(acts, qx.Action{Label: fmt.Sprintf("early-fn-of-gen%d-returns", g), Do: func() {
					mu.Lock()
					delete(exitCh, int32(g))
					mu.Unlock()
					close(ch)
				}})
			}
			var wg []int
			for g := range windDown {
				wg = append(wg, int(g))
			}
			sort.Ints(wg)
			for _, g := range wg {
				ch := windDown[int32(g)]
				g := g
				acts = append(acts, qx.Action{Label: fmt.Sprintf("waiter-of-gen%d-returns", g), Do: func() {
					mu.Lock()
					delete(windDown, int32(g))
					mu.Unlock()
					close(ch)
				}})
			}
			mu.Unlock()
			if sc.watch && !added {
				acts = append(acts, qx.Action{Label: "add-partition", Do: func() {
					added = true
					c.Lock()
					t := c.Topics["t"]
					t.Parts = append(t.Parts, &fk.Partition{Topic: "t", ID: len(t.Parts), Leader: 1, Replicas: []int{1}})
					c.Unlock()
				}})
			}
			for _, e := range ps {
				e := e
				for _, f := range sc.faults[e.Key] {
					f := f
					acts = append(acts, qx.Action{Label: fmt.Sprintf("ans#%d(api%d):%s", e.Seq, e.Key, f), Do: func() { c.Answer(e, f) }})
				}
			}
			return acts
		})
		st := x.Run()
		if !closed {
			go cg.Close()
		}
		mu.Lock()
		defer mu.Unlock()
		o := &qx.Outcome{}
		viol := func(sig, msg string) {
			if o.Violation == "" {
				o.Violation, o.Sig = msg, sig
			}
		}
		var kb strings.Builder
		fmt.Fprintf(&kb, "%s;", st)
		for _, n := range nexts {
			if n.Err != "" {
				fmt.Fprintf(&kb, "E(%s) ", short(n.Err))
			} else {
				fmt.Fprintf(&kb, "G%d ", n.Gen)
			}
		}
		// (a) one live generation at a time
		for _, n := range nexts {
			if n.Err != "" {
				continue
			}
			for _, f := range fns {
				if f.Gen < n.Gen && f.StartSeq > 0 && (f.EndSeq == 0 || f.EndSeq > n.Seq) {
					viol("two-live-generations", fmt.Sprintf("Next returned generation %d (seq %d) while function %q of generation %d was still running (end seq %d)", n.Gen, n.Seq, f.Name, f.Gen, f.EndSeq))
				}
			}
		}
		if stale != "" {
			viol("late-cancellation", stale)
		}
		// (b) prompt cancellation: cause time == cancel time (virtual clock, event level only)
		c.Lock()
		g := c.Groups["g"]
		type cause struct {
			at   time.Duration
			what string
		}
		causes := map[int32][]cause{}
		// the connection of each generation: the one its SyncGroup request travelled on
		genConn := map[int32]int{}
		genSyncSeq := map[int32]int{}
		for _, e := range c.Journal {
			if r, ok := e.Msg.(*syncgroup.Request); ok {
				genConn[r.GenerationID] = e.Conn
				genSyncSeq[r.GenerationID] = e.Seq
			}
		}
		for gid, conn := range genConn {
			for _, e := range c.Journal {
				if e.Conn != conn {
					continue
				}
				switch {
				case e.Key == protocol.Heartbeat && strings.HasPrefix(e.Answer, "err:"):
					causes[gid] = append(causes[gid], cause{e.AnsweredAt, "heartbeat " + e.Answer})
				case e.Key == protocol.Metadata && e.Answer == "err:3" && e.Seq > genSyncSeq[gid]:
					// (a metadata request after the generation was formed is the watcher's, not the join's)
					// the watched topic is gone: its partition count changed (to none)
					causes[gid] = append(causes[gid], cause{e.AnsweredAt, "partition watcher: unknown topic"})
				case e.Answer == "drop" || strings.HasPrefix(e.Answer, "cut:") || e.Answer == "conn-dropped":
					if e.Key == protocol.Heartbeat || e.Key == protocol.Metadata {
						causes[gid] = append(causes[gid], cause{e.AnsweredAt, fmt.Sprintf("api %d %s", e.Key, e.Answer)})
					}
				}
			}
		}
		for _, f := range fns {
			if f.Name == "early" && f.EndSeq > 0 {
				causes[f.Gen] = append(causes[f.Gen], cause{f.EndAt, "function returned"})
			}
		}
		if closeStartSeq > 0 {
			for _, f := range fns {
				causes[f.Gen] = append(causes[f.Gen], cause{closeStartAt, "close"})
			}
		}
		if !sc.fine {
			for _, f := range fns {
				if f.Name != "waiter" || f.StartSeq == 0 {
					continue
				}
				var first *cause
				for i := range causes[f.Gen] {
					cz := &causes[f.Gen][i]
					if cz.at >= f.StartAt && (first == nil || cz.at < first.at) {
						first = cz
					}
				}
				// a context never cancelled although the end of the generation lies more than 10 s back is a
				// violation even when the scenario did not finish (it cannot: Next waits for that generation)
				never := first != nil && f.CancelSeq == 0 && x.Now()-first.at > 10*time.Second
				if first != nil && (((f.CancelSeq == 0 || f.CancelAt > first.at) && st == qx.StDone) || never) {
					viol("late-cancellation", fmt.Sprintf("generation %d ended at %v (%s) but its function's context was cancelled at %v (0 = never)", f.Gen, first.at, first.what, f.CancelAt))
				}
			}
		}
		// (c) heartbeats at the interval while the generation lives
		var hbs []*fk.Entry
		for _, e := range c.Journal {
			if e.Key == protocol.Heartbeat {
				hbs = append(hbs, e)
			}
		}
		for i := 1; i < len(hbs); i++ {
			a, b := hbs[i-1], hbs[i]
			if hbGen(a) == hbGen(b) && a.Conn == b.Conn && a.AnsweredAt == a.At && a.Answer == "ok" && b.At-a.At != hbInterval {
				viol("heartbeat-interval", fmt.Sprintf("generation %d: heartbeats at %v and %v, interval is %v", hbGen(a), a.At, b.At, hbInterval))
			}
		}
		// every generation handed out gets its first heartbeat one interval after the join completed, unless it ended before
		// (d) LeaveGroup on Close with the member id the application saw last
		if closed && st == qx.StDone {
			// the client's current member id: the one of the last generation handed out, unless a later
			// error made the group give the membership up (it then tries to leave and forgets the id)
			lastMember := ""
			for _, n := range nexts {
				if n.Member != "" {
					lastMember = n.Member
				} else if n.Err != "" && !strings.Contains(n.Err, "closed") {
					lastMember = ""
				}
			}
			left := false
			var leaves []string
			for _, e := range c.Journal {
				if r, ok := e.Msg.(*leavegroup.Request); ok {
					leaves = append(leaves, r.MemberID)
					left = left || r.MemberID == lastMember
				}
			}
			stillMember := g != nil && g.Members[lastMember] != nil
			// the leave needs a fresh connection and a coordinator lookup: only demanded when the
			// brokers answered everything the client sent after Close was called
			brokersFine := true
			for _, e := range c.Journal {
				// any failure other than a rebalance signal makes the group give its membership up on its own
				// (it tries to leave and forgets the member id), which the application cannot observe
				if e.Answer != "ok" && e.Answer != "err:27" {
					brokersFine = false
				}
				limit := 3 * time.Second
				if e.Key == protocol.JoinGroup || e.Key == protocol.SyncGroup {
					limit = 9 * time.Second // Timeout + rebalance/session timeout
				}
				if e.AnsweredAt-e.At >= limit {
					brokersFine = false // answered after the client's timeout: the client saw a failure
				}
			}
			if lastMember != "" && !left && stillMember && brokersFine {
				viol("no-leave-on-close", fmt.Sprintf("Close returned but no LeaveGroup for member %q reached the coordinator (leaves: %v)", lastMember, leaves))
			}
			fmt.Fprintf(&kb, "closed leaves=%d ", len(leaves))
			// nothing after Close returned
		}
		// (e) join back-off
		var joins []*fk.Entry
		for _, e := range c.Journal {
			if e.Key == protocol.JoinGroup || e.Key == protocol.SyncGroup || e.Key == protocol.OffsetFetch || e.Key == protocol.FindCoordinator {
				joins = append(joins, e)
			}
		}
		for i, e := range joins {
			if strings.HasPrefix(e.Answer, "err:") && e.Answer != "err:27" {
				for _, n := range joins[i+1:] {
					if n.Key == protocol.JoinGroup {
						if n.At-e.AnsweredAt < joinBackoff && !(closeStartSeq > 0) {
							viol("no-join-backoff", fmt.Sprintf("request api %d failed with %s at %v, the next JoinGroup was sent at %v, back-off is %v", e.Key, e.Answer, e.AnsweredAt, n.At, joinBackoff))
						}
						break
					}
				}
			}
		}
		fmt.Fprintf(&kb, "hb=%d joins=%d", len(hbs), len(joins))
		c.Unlock()
		if st != qx.StDone {
			viol("hang:"+string(st), fmt.Sprintf("application or Close did not finish within the horizon (nexts %v)", kb.String()))
		}
		_ = closeEndSeq
		o.Key = kb.String()
		o.Obs = map[string]any{"nexts": nexts, "fns": fns}
		return o
	}}
}

func short(s string) string {
	if len(s) > 24 {
		return s[:24]
	}
	return s
}

// endedBecause names an answer, already delivered, that ends generation gen: a heartbeat answered with an error
// code, or the partition watcher's poll answered with UnknownTopicOrPartition.
func endedBecause(c *fk.Cluster, gen int32) string {
	c.Lock()
	defer c.Unlock()
	conn, syncSeq := -1, -1
	for _, e := range c.Journal {
		if r, ok := e.Msg.(*syncgroup.Request); ok && r.GenerationID == gen {
			conn, syncSeq = e.Conn, e.Seq
		}
	}
	if conn < 0 {
		return ""
	}
	for _, e := range c.Journal {
		if e.Conn != conn || e.Seq < syncSeq {
			continue
		}
		if e.Key == protocol.Heartbeat && strings.HasPrefix(e.Answer, "err:") && hbGen(e) == gen {
			return "heartbeat " + e.Answer
		}
		if e.Key == protocol.Metadata && e.Answer == "err:3" {
			return "partition watcher: unknown topic"
		}
	}
	return ""
}

func hbGen(e *fk.Entry) int32 {
	if r, ok := e.Msg.(interface{ GetGen() int32 }); ok {
		return r.GetGen()
	}
	return genOf(e)
}

func suite(tier string) []qx.SuiteItem {
	b := 3
	if tier == "thorough" {
		b = 4
	}
	hbF := []string{"err:27", "err:22", "err:25", "drop"}
	scs := []*scn{
		{name: "two-generations-heartbeat-faults", gens: 2, faults: map[protocol.ApiKey][]string{protocol.Heartbeat: hbF}, bound: b},
		{name: "heartbeat-other-error-codes", gens: 2, faults: map[protocol.ApiKey][]string{protocol.Heartbeat: {"err:16", "err:15", "err:14", "err:7", "err:30"}}, bound: b},
		{name: "early-function-exit", gens: 2, earlyFn: true, faults: map[protocol.ApiKey][]string{protocol.Heartbeat: {"err:27"}}, bound: b},
		{name: "join-sync-faults", gens: 1, faults: map[protocol.ApiKey][]string{protocol.JoinGroup: {"err:15", "err:25", "drop"}, protocol.SyncGroup: {"err:27", "err:22", "drop"}, protocol.OffsetFetch: {"err:15", "drop"}, protocol.FindCoordinator: {"err:15"}, protocol.LeaveGroup: {"drop", "err:25"}}, bound: b},
		{name: "partition-watcher", gens: 2, watch: true, faults: map[protocol.ApiKey][]string{protocol.Metadata: {"err:5", "err:3", "drop"}, protocol.Heartbeat: {"err:27"}}, bound: b},
		{name: "slow-function-heartbeat-faults", gens: 2, slowFn: true, faults: map[protocol.ApiKey][]string{protocol.Heartbeat: {"err:27", "drop"}}, bound: b},
		{name: "slow-function-early-exit", gens: 2, slowFn: true, earlyFn: true, faults: map[protocol.ApiKey][]string{protocol.Heartbeat: {"err:27"}}, bound: b},
		{name: "fine-start-vs-close", gens: 1, earlyFn: true, fine: true, faults: map[protocol.ApiKey][]string{protocol.Heartbeat: {"err:27"}}, bound: b - 1},
	}
	var items []qx.SuiteItem
	for _, s := range scs {
		items = append(items, qx.SuiteItem{Scn: s.scenario(), Bound: s.bound})
	}
	return items
}

func TestCheck(t *testing.T) {
	qx.RunSuite(t, suite(os.Getenv("VERIF_TIER")))
}
