// Package c15: the real kafka.ConsumerGroup against the fake coordinator under
// the explorer: every order of coordinator answers (ok / error codes / dropped
// connection), partition-count changes, function exits, Close and virtual-time
// ticks within the deviation bound. Oracle on the recorded timeline: never two
// live generations, functions' contexts cancelled as soon as the generation
// ends, heartbeats at the configured interval, LeaveGroup on Close, join back-off.
// Plus scripted histories of generation endings: every sequence (up to length
// 3, thorough 4) of ways in which successive generation attempts of one group
// end; after each the group must start its next attempt in bounded time.
package c15

import (
	"context"
	"fmt"
	"os"
	"sort"
	"strings"
	"sync"
	"testing"
	"time"

	kafka "github.com/segmentio/kafka-go"
	"github.com/segmentio/kafka-go/protocol"
	"github.com/segmentio/kafka-go/protocol/leavegroup"
	"github.com/segmentio/kafka-go/protocol/syncgroup"

	"verif/engine/fk"
	"verif/engine/qx"
	"verif/engine/seqx"
)

const (
	hbInterval  = time.Second
	joinBackoff = 2 * time.Second
)

type fnRec struct {
	Gen       int32
	Name      string
	StartSeq  int
	CancelSeq int
	EndSeq    int
	StartAt   time.Duration
	CancelAt  time.Duration
	EndAt     time.Duration
	CtxErr    string
}

type nextRec struct {
	Seq    int
	At     time.Duration
	Gen    int32
	Member string
	Err    string
}

type scn struct {
	name    string
	gens    int  // generations the application consumes before closing
	earlyFn bool // a second function that returns when told to
	slowFn  bool // the waiting function needs an explicit step to wind down after its context is cancelled
	watch   bool
	fine    bool
	faults  map[protocol.ApiKey][]string
	bound   int
	// history, when set, scripts the coordinator: the k-th generation attempt of the group's lifetime is ended
	// by history[k] (see endings), every other request is answered normally, and once the history has been
	// played and one more generation has been handed out the group is closed. The scripted answers are the
	// default choices; the only deviation offered is Close at any decision point.
	history []ending
}

// ending is one way a generation attempt of a consumer group ends: the answer ans given to the first request
// of kind key that the client sends in that attempt.
type ending struct {
	name     string
	key      protocol.ApiKey
	ans      string
	reported bool // the failure is one that Next reports (join/sync/offset-fetch/find-coordinator); a failed heartbeat just ends the generation
}

// the alphabet of generation endings (one per class of outcome the group's run loop distinguishes: plain
// failure before / while / after joining, rebalance signal on join / sync / heartbeat, other heartbeat
// failure, lost connection)
var endings = []ending{
	{"join:err15", protocol.JoinGroup, "err:15", true},
	{"join:err27", protocol.JoinGroup, "err:27", true},
	{"join:drop", protocol.JoinGroup, "drop", true},
	{"sync:err22", protocol.SyncGroup, "err:22", true},
	{"sync:err27", protocol.SyncGroup, "err:27", true},
	{"hb:err27", protocol.Heartbeat, "err:27", false},
	{"hb:err25", protocol.Heartbeat, "err:25", false},
	{"hb:drop", protocol.Heartbeat, "drop", false},
	{"find:err15", protocol.FindCoordinator, "err:15", true},
	{"offsets:err16", protocol.OffsetFetch, "err:16", true},
}

// rejoinBound: a group whose generation attempt has ended starts the next attempt (coordinator lookup, then
// JoinGroup) at once or after the join back-off; with brokers that answer at once nothing else takes time, so
// back-off plus one request timeout is generous.
const rejoinBound = joinBackoff + 3*time.Second

const histName = "generation-ending-histories"

func (sc *scn) scenario() *qx.Scenario {
	cfg := qx.Config{Fine: sc.fine, Horizon: 120 * time.Second, Quantum: 7 * time.Second, Grace: 10 * time.Second, MaxSteps: 700}
	if sc.fine {
		cfg.Files = []string{"consumergroup.go"}
	}
	if sc.history != nil {
		cfg.NoTick = true // time passes by the scripted "wait" action only
		cfg.MaxSteps = 400
	}
	return &qx.Scenario{Name: sc.name, Cfg: cfg, Body: func(x *qx.Exec) *qx.Outcome {
		c := fk.New(1)
		c.AddTopic("t", 2, nil)
		c.OnEvent = x.Notify
		cg, err := kafka.NewConsumerGroup(kafka.ConsumerGroupConfig{ID: "g", Brokers: []string{"b1:9092"}, Dialer: &kafka.Dialer{DialFunc: c.Dial, Timeout: 3 * time.Second},
			Topics: []string{"t"}, HeartbeatInterval: hbInterval, SessionTimeout: 6 * time.Second, RebalanceTimeout: 6 * time.Second, JoinGroupBackoff: joinBackoff,
			Timeout: 3 * time.Second, WatchPartitionChanges: sc.watch, PartitionWatchInterval: 2 * time.Second, StartOffset: kafka.FirstOffset})
		if err != nil {
			panic(err)
		}
		var mu sync.Mutex
		seq := 0
		tick := func() int { seq++; return seq }
		var fns []*fnRec
		var nexts []nextRec
		var closeStartSeq, closeEndSeq int
		var closeStartAt time.Duration
		closed := false
		exitCh := map[int32]chan struct{}{}
		windDown := map[int32]chan struct{}{}
		closeGate := make(chan struct{}, 1)
		closeWanted := false
		appDone := false
		ngens := sc.gens
		if sc.history != nil {
			ngens = 99 // until the group is closed
		}
		x.Go("app", func() {
			for i := 0; i < ngens; i++ {
				gen, err := cg.Next(context.Background())
				mu.Lock()
				nr := nextRec{Seq: tick(), At: x.Now()}
				if err != nil {
					nr.Err = err.Error()
					nexts = append(nexts, nr)
					mu.Unlock()
					if strings.Contains(nr.Err, "closed") {
						break
					}
					i-- // errors do not count as generations
					if len(nexts) > 12 {
						break
					}
					continue
				}
				nr.Gen, nr.Member = gen.ID, gen.MemberID
				nexts = append(nexts, nr)
				start := func(name string, body func(ctx context.Context)) {
					r := &fnRec{Gen: gen.ID, Name: name}
					fns = append(fns, r)
					gen.Start(func(ctx context.Context) {
						mu.Lock()
						r.StartSeq, r.StartAt = tick(), x.Now()
						mu.Unlock()
						body(ctx)
						mu.Lock()
						r.EndSeq, r.EndAt = tick(), x.Now()
						mu.Unlock()
						x.Notify()
					})
				}
				mu.Unlock()
				start("waiter", func(ctx context.Context) {
					<-ctx.Done()
					cerr := ""
					if e := ctx.Err(); e != nil { // never call into kafka-go while holding the harness mutex
						cerr = e.Error()
					}
					mu.Lock()
					for _, r := range fns {
						if r.Gen == gen.ID && r.Name == "waiter" && r.CancelSeq == 0 {
							r.CancelSeq, r.CancelAt = tick(), x.Now()
							r.CtxErr = cerr
						}
					}
					var rel chan struct{}
					if sc.slowFn {
						rel = make(chan struct{})
						windDown[gen.ID] = rel
					}
					mu.Unlock()
					if rel != nil {
						x.Notify()
						<-rel
					}
				})
				if sc.earlyFn {
					ch := make(chan struct{})
					mu.Lock()
					exitCh[gen.ID] = ch
					mu.Unlock()
					x.Notify()
					start("early", func(ctx context.Context) {
						select {
						case <-ch:
						case <-ctx.Done():
						}
						mu.Lock()
						delete(exitCh, gen.ID)
						mu.Unlock()
					})
				}
			}
			mu.Lock()
			appDone = true
			mu.Unlock()
		})
		x.Go("closer", func() {
			<-closeGate
			mu.Lock()
			closeStartSeq, closeStartAt = tick(), x.Now()
			mu.Unlock()
			cg.Close()
			mu.Lock()
			closeEndSeq = tick()
			closed = true
			mu.Unlock()
		})
		added := false
		stale := ""
		// Decisions are taken when every goroutine is blocked: a generation whose heartbeat was answered with an
		// error (or whose watched topic was reported gone) in an earlier step has had all the time it needs to
		// cancel the contexts of its functions. Virtual time alone cannot show this when the next event falls
		// on the same instant.
		checkStale := func() {
			if !sc.fine {
				mu.Lock()
				for _, f := range fns {
					if f.Name == "waiter" && f.StartSeq > 0 && f.CancelSeq == 0 && stale == "" {
						if w := endedBecause(c, f.Gen); w != "" {
							stale = fmt.Sprintf("generation %d ended (%s) but the context of its function was still not cancelled when the client had come to rest", f.Gen, w)
						}
					}
				}
				mu.Unlock()
			}
		}
		// state of the scripted history
		hIdx := 0                     // next ending to inject
		hReports := 0                 // failures among the endings injected so far that Next has to report
		var hEndAt []time.Duration    // when each ending was delivered
		var hResumeAt []time.Duration // when the first request of the attempt following each ending arrived
		closeReason := ""
		histEnv := func() []qx.Action {
			var acts []qx.Action
			checkStale()
			ps := c.Pending()
			mu.Lock()
			nerr := 0
			finalRunning := false
			for _, n := range nexts {
				if n.Err != "" && !strings.Contains(n.Err, "closed") {
					nerr++
				}
			}
			if len(nexts) > 0 && nexts[len(nexts)-1].Err == "" {
				for _, f := range fns {
					if f.Gen == nexts[len(nexts)-1].Gen && f.Name == "waiter" && f.StartSeq > 0 && f.CancelSeq == 0 {
						finalRunning = true
					}
				}
			}
			cw := closeWanted
			mu.Unlock()
			// The next ending is armed once Next has reported the failure of the previous one: whatever the client
			// sends before that (its attempt to leave the group after a failure: coordinator lookup, LeaveGroup)
			// still belongs to the attempt that failed.
			armed := nerr >= hReports
			if armed && !cw && len(hResumeAt) < len(hEndAt) {
				for _, e := range ps {
					if e.Key == protocol.FindCoordinator || e.Key == protocol.JoinGroup {
						hResumeAt = append(hResumeAt, e.At)
						break
					}
				}
			}
			doClose := func(why string) func() {
				return func() {
					mu.Lock()
					closeWanted = true
					mu.Unlock()
					closeReason = why
					closeGate <- struct{}{}
				}
			}
			injected := false
			for _, e := range ps {
				e := e
				ans := ""
				if hIdx < len(sc.history) && armed && !cw && !injected && e.Key == sc.history[hIdx].key {
					ans = sc.history[hIdx].ans
					injected = true
				}
				label := "ok"
				if ans != "" {
					label = ans
				}
				acts = append(acts, qx.Action{Label: fmt.Sprintf("ans#%d(api%d):%s", e.Seq, e.Key, label), Do: func() {
					if ans != "" {
						if sc.history[hIdx].reported {
							hReports++
						}
						hIdx++
						hEndAt = append(hEndAt, x.Now())
					}
					c.Answer(e, ans)
				}})
			}
			if len(ps) == 0 && !cw {
				switch {
				case hIdx == len(sc.history) && finalRunning:
					// the history has been played and the generation that follows it is running
					acts = append(acts, qx.Action{Label: "close(history played)", Do: doClose("played")})
				case len(hResumeAt) < len(hEndAt) && x.Now()-hEndAt[len(hEndAt)-1] > rejoinBound:
					// the group has come to a standstill: see what Close does in that state
					acts = append(acts, qx.Action{Label: "close(no new attempt)", Do: doClose("standstill")})
				}
			}
			if len(acts) == 0 && x.Now() < cfg.Horizon {
				acts = append(acts, qx.Action{Label: "wait", Do: x.Tick})
			}
			if !cw && !(len(acts) > 0 && strings.HasPrefix(acts[0].Label, "close")) {
				acts = append(acts, qx.Action{Label: "close", Do: doClose("deviation")})
			}
			return acts
		}
		x.SetEnv(func() []qx.Action {
			if sc.history != nil {
				return histEnv()
			}
			var acts []qx.Action
			checkStale()
			ps := c.Pending()
			for _, e := range ps {
				e := e
				acts = append(acts, qx.Action{Label: fmt.Sprintf("ans#%d(api%d):ok", e.Seq, e.Key), Do: func() { c.Answer(e, "") }})
			}
			mu.Lock()
			if !closeWanted {
				label := "close"
				if appDone {
					label = "close(app done)"
				}
				acts = append(acts, qx.Action{Label: label, Do: func() { mu.Lock(); closeWanted = true; mu.Unlock(); closeGate <- struct{}{} }})
			}
			var gids []int
			for g := range exitCh {
				gids = append(gids, int(g))
			}
			sort.Ints(gids)
			for _, g := range gids {
				ch := exitCh[int32(g)]
				g := g
				acts = append(acts, qx.Action{Label: fmt.Sprintf("early-fn-of-gen%d-returns", g), Do: func() {
					mu.Lock()
					delete(exitCh, int32(g))
					mu.Unlock()
					close(ch)
				}})
			}
			var wg []int
			for g := range windDown {
				wg = append(wg, int(g))
			}
			sort.Ints(wg)
			for _, g := range wg {
				ch := windDown[int32(g)]
				g := g
				acts = append(acts, qx.Action{Label: fmt.Sprintf("waiter-of-gen%d-returns", g), Do: func() {
					mu.Lock()
					delete(windDown, int32(g))
					mu.Unlock()
					close(ch)
				}})
			}
			mu.Unlock()
			if sc.watch && !added {
				acts = append(acts, qx.Action{Label: "add-partition", Do: func() {
					added = true
					c.Lock()
					t := c.Topics["t"]
					t.Parts = append(t.Parts, &fk.Partition{Topic: "t", ID: len(t.Parts), Leader: 1, Replicas: []int{1}})
					c.Unlock()
				}})
			}
			for _, e := range ps {
				e := e
				for _, f := range sc.faults[e.Key] {
					f := f
					acts = append(acts, qx.Action{Label: fmt.Sprintf("ans#%d(api%d):%s", e.Seq, e.Key, f), Do: func() { c.Answer(e, f) }})
				}
			}
			return acts
		})
		st := x.Run()
		if !closed {
			go cg.Close()
		}
		mu.Lock()
		defer mu.Unlock()
		o := &qx.Outcome{}
		viol := func(sig, msg string) {
			if o.Violation == "" {
				o.Violation, o.Sig = msg, sig
			}
		}
		var kb strings.Builder
		fmt.Fprintf(&kb, "%s;", st)
		for _, n := range nexts {
			if n.Err != "" {
				fmt.Fprintf(&kb, "E(%s) ", short(n.Err))
			} else {
				fmt.Fprintf(&kb, "G%d ", n.Gen)
			}
		}
		// (a) one live generation at a time
		for _, n := range nexts {
			if n.Err != "" {
				continue
			}
			for _, f := range fns {
				if f.Gen < n.Gen && f.StartSeq > 0 && (f.EndSeq == 0 || f.EndSeq > n.Seq) {
					viol("two-live-generations", fmt.Sprintf("Next returned generation %d (seq %d) while function %q of generation %d was still running (end seq %d)", n.Gen, n.Seq, f.Name, f.Gen, f.EndSeq))
				}
			}
		}
		if stale != "" {
			viol("late-cancellation", stale)
		}
		// (b) prompt cancellation: cause time == cancel time (virtual clock, event level only)
		c.Lock()
		g := c.Groups["g"]
		// (h) histories of generation endings: after every ending the group starts its next attempt to join
		if sc.history != nil {
			njoin := 0
			for _, e := range c.Journal {
				if e.Key == protocol.JoinGroup {
					njoin++
				}
			}
			var played []string
			for _, h := range sc.history[:hIdx] {
				played = append(played, h.name)
			}
			fmt.Fprintf(&kb, "played=%d/%d close=%s ", hIdx, len(sc.history), closeReason)
			for k, t := range hEndAt {
				switch {
				case k < len(hResumeAt):
					if d := hResumeAt[k] - t; d > rejoinBound {
						viol("late-rejoin", fmt.Sprintf("history %v: attempt %d ended at %v (%s); the next attempt to join began %v later, the back-off is %v", played, k+1, t, sc.history[k].name, d, joinBackoff))
					}
				case closeStartSeq == 0 || closeStartAt-t > rejoinBound:
					viol("no-rejoin", fmt.Sprintf("history %v: attempt %d ended at %v (%s) and %d failure(s) were reported by Next, but no new attempt to join followed within %v (back-off %v): no FindCoordinator/JoinGroup reached the brokers after it (%d JoinGroup requests in all), Next yielded nothing more until the group was closed", played, k+1, t, sc.history[k].name, hReports, rejoinBound, joinBackoff, njoin))
				}
			}
			if st == qx.StDone && closeReason == "" {
				viol("history-not-played", fmt.Sprintf("the application finished although the group was never closed (history played: %v of %d)", played, len(sc.history)))
			}
		}
		type cause struct {
			at   time.Duration
			what string
		}
		causes := map[int32][]cause{}
		// the connection of each generation: the one its SyncGroup request travelled on
		genConn := map[int32]int{}
		genSyncSeq := map[int32]int{}
		for _, e := range c.Journal {
			if r, ok := e.Msg.(*syncgroup.Request); ok {
				genConn[r.GenerationID] = e.Conn
				genSyncSeq[r.GenerationID] = e.Seq
			}
		}
		for gid, conn := range genConn {
			for _, e := range c.Journal {
				if e.Conn != conn {
					continue
				}
				switch {
				case e.Key == protocol.Heartbeat && strings.HasPrefix(e.Answer, "err:"):
					causes[gid] = append(causes[gid], cause{e.AnsweredAt, "heartbeat " + e.Answer})
				case e.Key == protocol.Metadata && e.Answer == "err:3" && e.Seq > genSyncSeq[gid]:
					// (a metadata request after the generation was formed is the watcher's, not the join's)
					// the watched topic is gone: its partition count changed (to none)
					causes[gid] = append(causes[gid], cause{e.AnsweredAt, "partition watcher: unknown topic"})
				case e.Answer == "drop" || strings.HasPrefix(e.Answer, "cut:") || e.Answer == "conn-dropped":
					if e.Key == protocol.Heartbeat || e.Key == protocol.Metadata {
						causes[gid] = append(causes[gid], cause{e.AnsweredAt, fmt.Sprintf("api %d %s", e.Key, e.Answer)})
					}
				}
			}
		}
		for _, f := range fns {
			if f.Name == "early" && f.EndSeq > 0 {
				causes[f.Gen] = append(causes[f.Gen], cause{f.EndAt, "function returned"})
			}
		}
		if closeStartSeq > 0 {
			for _, f := range fns {
				causes[f.Gen] = append(causes[f.Gen], cause{closeStartAt, "close"})
			}
		}
		if !sc.fine {
			for _, f := range fns {
				if f.Name != "waiter" || f.StartSeq == 0 {
					continue
				}
				var first *cause
				for i := range causes[f.Gen] {
					cz := &causes[f.Gen][i]
					if cz.at >= f.StartAt && (first == nil || cz.at < first.at) {
						first = cz
					}
				}
				// a context never cancelled although the end of the generation lies more than 10 s back is a
				// violation even when the scenario did not finish (it cannot: Next waits for that generation)
				never := first != nil && f.CancelSeq == 0 && x.Now()-first.at > 10*time.Second
				if first != nil && (((f.CancelSeq == 0 || f.CancelAt > first.at) && st == qx.StDone) || never) {
					viol("late-cancellation", fmt.Sprintf("generation %d ended at %v (%s) but its function's context was cancelled at %v (0 = never)", f.Gen, first.at, first.what, f.CancelAt))
				}
			}
		}
		// (c) heartbeats at the interval while the generation lives
		var hbs []*fk.Entry
		for _, e := range c.Journal {
			if e.Key == protocol.Heartbeat {
				hbs = append(hbs, e)
			}
		}
		for i := 1; i < len(hbs); i++ {
			a, b := hbs[i-1], hbs[i]
			if hbGen(a) == hbGen(b) && a.Conn == b.Conn && a.AnsweredAt == a.At && a.Answer == "ok" && b.At-a.At != hbInterval {
				viol("heartbeat-interval", fmt.Sprintf("generation %d: heartbeats at %v and %v, interval is %v", hbGen(a), a.At, b.At, hbInterval))
			}
		}
		// every generation handed out gets its first heartbeat one interval after the join completed, unless it ended before
		// (d) LeaveGroup on Close with the member id the application saw last
		if closed && st == qx.StDone {
			// the client's current member id: the one of the last generation handed out, unless a later
			// error made the group give the membership up (it then tries to leave and forgets the id)
			lastMember := ""
			for _, n := range nexts {
				if n.Member != "" {
					lastMember = n.Member
				} else if n.Err != "" && !strings.Contains(n.Err, "closed") {
					lastMember = ""
				}
			}
			left := false
			var leaves []string
			for _, e := range c.Journal {
				if r, ok := e.Msg.(*leavegroup.Request); ok {
					leaves = append(leaves, r.MemberID)
					left = left || r.MemberID == lastMember
				}
			}
			stillMember := g != nil && g.Members[lastMember] != nil
			// the leave needs a fresh connection and a coordinator lookup: only demanded when the
			// brokers answered everything the client sent after Close was called
			brokersFine := true
			// what happened before the generation handed out last was formed is history: it says nothing about
			// the membership the group holds now
			lastSync := -1
			for _, n := range nexts {
				if n.Member != "" {
					lastSync = genSyncSeq[n.Gen]
				}
			}
			for _, e := range c.Journal {
				if e.Seq <= lastSync {
					continue
				}
				// any failure other than a rebalance signal makes the group give its membership up on its own
				// (it tries to leave and forgets the member id), which the application cannot observe
				if e.Answer != "ok" && e.Answer != "err:27" {
					brokersFine = false
				}
				limit := 3 * time.Second
				if e.Key == protocol.JoinGroup || e.Key == protocol.SyncGroup {
					limit = 9 * time.Second // Timeout + rebalance/session timeout
				}
				if e.AnsweredAt-e.At >= limit {
					brokersFine = false // answered after the client's timeout: the client saw a failure
				}
			}
			if lastMember != "" && !left && stillMember && brokersFine {
				viol("no-leave-on-close", fmt.Sprintf("Close returned but no LeaveGroup for member %q reached the coordinator (leaves: %v)", lastMember, leaves))
			}
			// The same from the coordinator's point of view (this also covers a group closed while it is not in a
			// generation): the member id given out by the last JoinGroup answered normally is the group's
			// current one as long as nothing but normal answers and rebalance signals (SyncGroup, Heartbeat)
			// followed; the coordinator must not still count it as a member once Close has returned. Only in the
			// scripted histories, where the environment never keeps a request waiting: which answer a client
			// still received before one of its deadlines is then not in doubt.
			var lastJoin *fk.Entry
			for _, e := range c.Journal {
				if sc.history != nil && e.Key == protocol.JoinGroup && e.Answer == "ok" {
					lastJoin = e
				}
			}
			if lastJoin != nil && g != nil {
				fine := true
				for _, e := range c.Journal {
					if e.Seq < lastJoin.Seq {
						continue
					}
					signal := e.Answer == "err:27" && (e.Key == protocol.SyncGroup || e.Key == protocol.Heartbeat)
					if e.Answer != "ok" && !signal {
						fine = false
					}
					limit := 3 * time.Second
					if e.Key == protocol.JoinGroup || e.Key == protocol.SyncGroup {
						limit = 9 * time.Second
					}
					if e.AnsweredAt-e.At >= limit {
						fine = false
					}
				}
				for _, id := range sortedMembers(g) {
					if m := g.Members[id]; fine && m.Conn == lastJoin.Conn {
						viol("no-leave-on-close", fmt.Sprintf("Close returned but the coordinator still counts %q (given out by the JoinGroup answered at %v, nothing but normal answers and rebalance signals since) as a member: no LeaveGroup for it reached the coordinator (leaves: %v)", id, lastJoin.AnsweredAt, leaves))
					}
				}
			}
			fmt.Fprintf(&kb, "closed leaves=%d ", len(leaves))
			// nothing after Close returned
		}
		// (e) join back-off
		var joins []*fk.Entry
		for _, e := range c.Journal {
			if e.Key == protocol.JoinGroup || e.Key == protocol.SyncGroup || e.Key == protocol.OffsetFetch || e.Key == protocol.FindCoordinator {
				joins = append(joins, e)
			}
		}
		for i, e := range joins {
			if strings.HasPrefix(e.Answer, "err:") && e.Answer != "err:27" {
				for _, n := range joins[i+1:] {
					if n.Key == protocol.JoinGroup {
						if n.At-e.AnsweredAt < joinBackoff && !(closeStartSeq > 0) {
							viol("no-join-backoff", fmt.Sprintf("request api %d failed with %s at %v, the next JoinGroup was sent at %v, back-off is %v", e.Key, e.Answer, e.AnsweredAt, n.At, joinBackoff))
						}
						break
					}
				}
			}
		}
		fmt.Fprintf(&kb, "hb=%d joins=%d", len(hbs), len(joins))
		c.Unlock()
		if st != qx.StDone {
			viol("hang:"+string(st), fmt.Sprintf("application or Close did not finish within the horizon (nexts %v)", kb.String()))
		}
		_ = closeEndSeq
		o.Key = kb.String()
		o.Obs = map[string]any{"nexts": nexts, "fns": fns}
		return o
	}}
}

func sortedMembers(g *fk.Group) []string {
	var ids []string
	for id := range g.Members {
		ids = append(ids, id)
	}
	sort.Strings(ids)
	return ids
}

func short(s string) string {
	if len(s) > 24 {
		return s[:24]
	}
	return s
}

// endedBecause names an answer, already delivered, that ends generation gen: a heartbeat answered with an error
// code, or the partition watcher's poll answered with UnknownTopicOrPartition.
func endedBecause(c *fk.Cluster, gen int32) string {
	c.Lock()
	defer c.Unlock()
	conn, syncSeq := -1, -1
	for _, e := range c.Journal {
		if r, ok := e.Msg.(*syncgroup.Request); ok && r.GenerationID == gen {
			conn, syncSeq = e.Conn, e.Seq
		}
	}
	if conn < 0 {
		return ""
	}
	for _, e := range c.Journal {
		if e.Conn != conn || e.Seq < syncSeq {
			continue
		}
		if e.Key == protocol.Heartbeat && strings.HasPrefix(e.Answer, "err:") && hbGen(e) == gen {
			return "heartbeat " + e.Answer
		}
		if e.Key == protocol.Metadata && e.Answer == "err:3" {
			return "partition watcher: unknown topic"
		}
	}
	return ""
}

func hbGen(e *fk.Entry) int32 {
	if r, ok := e.Msg.(interface{ GetGen() int32 }); ok {
		return r.GetGen()
	}
	return genOf(e)
}

func suite(tier string) []qx.SuiteItem {
	b := 3
	if tier == "thorough" {
		b = 4
	}
	hbF := []string{"err:27", "err:22", "err:25", "drop"}
	scs := []*scn{
		{name: "two-generations-heartbeat-faults", gens: 2, faults: map[protocol.ApiKey][]string{protocol.Heartbeat: hbF}, bound: b},
		{name: "heartbeat-other-error-codes", gens: 2, faults: map[protocol.ApiKey][]string{protocol.Heartbeat: {"err:16", "err:15", "err:14", "err:7", "err:30"}}, bound: b},
		{name: "early-function-exit", gens: 2, earlyFn: true, faults: map[protocol.ApiKey][]string{protocol.Heartbeat: {"err:27"}}, bound: b},
		{name: "join-sync-faults", gens: 1, faults: map[protocol.ApiKey][]string{protocol.JoinGroup: {"err:15", "err:25", "drop"}, protocol.SyncGroup: {"err:27", "err:22", "drop"}, protocol.OffsetFetch: {"err:15", "drop"}, protocol.FindCoordinator: {"err:15"}, protocol.LeaveGroup: {"drop", "err:25"}}, bound: b},
		{name: "partition-watcher", gens: 2, watch: true, faults: map[protocol.ApiKey][]string{protocol.Metadata: {"err:5", "err:3", "drop"}, protocol.Heartbeat: {"err:27"}}, bound: b},
		{name: "slow-function-heartbeat-faults", gens: 2, slowFn: true, faults: map[protocol.ApiKey][]string{protocol.Heartbeat: {"err:27", "drop"}}, bound: b},
		{name: "slow-function-early-exit", gens: 2, slowFn: true, earlyFn: true, faults: map[protocol.ApiKey][]string{protocol.Heartbeat: {"err:27"}}, bound: b},
		{name: "fine-start-vs-close", gens: 1, earlyFn: true, fine: true, faults: map[protocol.ApiKey][]string{protocol.Heartbeat: {"err:27"}}, bound: b - 1},
	}
	var items []qx.SuiteItem
	for _, s := range scs {
		items = append(items, qx.SuiteItem{Scn: s.scenario(), Bound: s.bound})
	}
	return items
}

// histories enumerates every sequence of generation endings up to length n (shorter ones first).
func histories(n int) [][]ending {
	var out [][]ending
	cur := [][]ending{nil}
	for l := 1; l <= n; l++ {
		var next [][]ending
		for _, h := range cur {
			for _, e := range endings {
				next = append(next, append(append([]ending(nil), h...), e))
			}
		}
		out = append(out, next...)
		cur = next
	}
	return out
}

func histID(h []ending) string {
	var names []string
	for _, e := range h {
		names = append(names, e.name)
	}
	return strings.Join(names, ",")
}

// TestCheck: the explorer's scenarios (every schedule within the deviation bound), then the scripted
// histories of generation endings: every sequence over the alphabet `endings` up to length 3 (thorough: 4),
// each played by the default schedule, the shorter ones (<= 2, thorough <= 3) also with Close at every
// decision point.
func TestCheck(t *testing.T) {
	tier := os.Getenv("VERIF_TIER")
	items := suite(tier)
	if rp := os.Getenv("VERIF_REPLAY"); rp != "" {
		if b, err := os.ReadFile(rp); err == nil && !strings.Contains(string(b), `"`+histName+`"`) {
			qx.RunSuite(t, items)
			return
		}
	}
	s := seqx.New(t)
	maxLen, devLen := 3, 2
	if tier == "thorough" {
		maxLen, devLen = 4, 3
	}
	s.Begin(histName)
	only := os.Getenv("VERIF_ONLY")
	for _, h := range histories(maxLen) {
		if only != "" && only != histName {
			break
		}
		if s.TimeUp() {
			break
		}
		h := h
		bound := 0
		if len(h) <= devLen {
			bound = 1
		}
		s.Case(histID(h), map[string]any{"history": histID(h), "close_deviations": bound}, func() (string, *seqx.Viol) {
			sc := &scn{name: histName, history: h}
			e := &qx.Explorer{T: t, Scn: sc.scenario(), Bound: bound, ReplayEvery: 13}
			st := e.Explore()
			s.Add("executions", st.Executions)
			s.Add("decision_steps", int(st.Steps))
			s.Add("replayed_for_determinism", st.Replayed)
			s.Add("nondeterministic_replays", st.NonDet)
			s.Add("leaks", st.Leaks)
			var keys []string
			for k := range st.Outcomes {
				keys = append(keys, k)
			}
			sort.Strings(keys)
			key := strings.Join(keys, " | ")
			if st.NonDet > 0 {
				return key, &seqx.Viol{Sig: "nondeterministic", Msg: fmt.Sprintf("history %s: %d executions did not replay identically", histID(h), st.NonDet)}
			}
			if len(st.Violations) > 0 {
				v := st.Violations[0]
				var sched []string
				for _, stp := range v.Result.Steps {
					sched = append(sched, stp.Label)
				}
				return key, &seqx.Viol{Sig: v.Result.Outcome.Sig, Msg: fmt.Sprintf("%s [history %s, %d deviation(s), schedule: %s]", v.Result.Outcome.Violation, histID(h), v.Bound, strings.Join(sched, " / "))}
			}
			return key, nil
		})
	}
	if s.Replay == nil {
		s.AddStats(qx.ExploreAll(t, items, s.Remaining())...)
	}
	s.Finish()
}
