package c15

import (
	"github.com/segmentio/kafka-go/protocol/heartbeat"

	"verif/engine/fk"
)

func genOf(e *fk.Entry) int32 {
	if r, ok := e.Msg.(*heartbeat.Request); ok {
		return r.GenerationID
	}
	return -1
}
