// Package c16: compression codecs. Every (codec, payload, write chunking, read
// buffer, history of the pooled objects) combination must round-trip exactly, be
// readable by the format's reference decoder, and read reference-encoded streams;
// concurrent use of one codec value is explored at the pool operations.
package c16

import (
	"bytes"
	"fmt"
	"io"
	"os"
	"sync"
	"testing"

	"github.com/segmentio/kafka-go/compress"
	"github.com/segmentio/kafka-go/compress/snappy"
	"github.com/segmentio/kafka-go/zzverif/vhook"
	"github.com/segmentio/kafka-go/zzverif/vsync"

	"verif/engine/qx"
	"verif/engine/refwire"
	"verif/engine/seqx"
)

type cvar struct {
	name     string
	codec    compress.Codec
	ref      int8
	unframed bool
}

func codecs() []cvar {
	return []cvar{
		{"gzip", compress.Gzip.Codec(), refwire.Gzip, false},
		{"snappy-framed", &snappy.Codec{}, refwire.Snappy, false},
		{"snappy-unframed", &snappy.Codec{Framing: snappy.Unframed}, refwire.Snappy, true},
		{"lz4", compress.Lz4.Codec(), refwire.Lz4, false},
		{"zstd", compress.Zstd.Codec(), refwire.Zstd, false},
	}
}

func payload(n int, pattern string) []byte {
	b := make([]byte, n)
	switch pattern {
	case "zeros":
	case "text":
		const t = "the quick brown fox jumps over the lazy dog; "
		for i := range b {
			b[i] = t[i%len(t)]
		}
	case "random":
		x := uint32(2463534242)
		for i := range b {
			x ^= x << 13
			x ^= x >> 17
			x ^= x << 5
			b[i] = byte(x)
		}
	}
	return b
}

func writeChunks(w io.Writer, data []byte, chunk int) error {
	for len(data) > 0 {
		n := chunk
		if n <= 0 || n > len(data) {
			n = len(data)
		}
		if _, err := w.Write(data[:n]); err != nil {
			return err
		}
		data = data[n:]
	}
	return nil
}

func readChunks(r io.Reader, buf int, limit int) ([]byte, error) {
	var out []byte
	b := make([]byte, buf)
	for {
		n, err := r.Read(b)
		out = append(out, b[:n]...)
		if err == io.EOF {
			return out, nil
		}
		if err != nil {
			return out, err
		}
		if limit > 0 && len(out) >= limit {
			return out, nil
		}
		if len(out) > 1<<22 {
			return out, fmt.Errorf("runaway output")
		}
	}
}

var hist = payload(8433, "text")

// history operations on the pooled objects of a codec
func runHistory(cv cvar, op string) {
	switch op {
	case "clean":
		var buf bytes.Buffer
		w := cv.codec.NewWriter(&buf)
		w.Write(hist)
		w.Close()
		r := cv.codec.NewReader(&buf)
		io.Copy(io.Discard, r)
		r.Close()
	case "error":
		// writer: closed after a failing sink; reader: corrupt/truncated input read until it errors
		w := cv.codec.NewWriter(failWriter{})
		w.Write(hist)
		w.Close()
		enc := refwire.Compress(cv.ref, hist, cv.unframed)
		bad := append([]byte{}, enc[:len(enc)/2]...)
		if len(bad) > 20 {
			bad[len(bad)-5] ^= 0xff
		}
		r := cv.codec.NewReader(bytes.NewReader(bad))
		readChunks(r, 64, 0)
		r.Close()
	case "error2":
		w := cv.codec.NewWriter(failWriter{})
		w.Write(hist)
		w.Close()
		w.Close()
	case "other":
		if cv.ref != refwire.Snappy {
			return
		}
		other := &snappy.Codec{Framing: snappy.Unframed}
		if cv.unframed {
			other = &snappy.Codec{}
		}
		var buf bytes.Buffer
		w := other.NewWriter(&buf)
		w.Write(hist)
		w.Close()
		r := other.NewReader(&buf)
		io.Copy(io.Discard, r)
		r.Close()
	case "half":
		var buf bytes.Buffer
		w := cv.codec.NewWriter(&buf)
		w.Write(hist[:4000]) // writer closed without writing everything it was meant to
		w.Close()
		enc := refwire.Compress(cv.ref, hist, cv.unframed)
		r := cv.codec.NewReader(bytes.NewReader(enc))
		b := make([]byte, 16)
		r.Read(b) // a small read leaves decoded data inside the reader
		r.Close()
	}
}

type failWriter struct{}

func (failWriter) Write(p []byte) (int, error) { return 0, fmt.Errorf("sink failed") }

func roundTrip(cv cvar, data []byte, wchunk, rbuf int) *seqx.Viol {
	var buf bytes.Buffer
	w := cv.codec.NewWriter(&buf)
	if err := writeChunks(w, data, wchunk); err != nil {
		return &seqx.Viol{Sig: cv.name + ":write-error", Msg: err.Error()}
	}
	if err := w.Close(); err != nil {
		return &seqx.Viol{Sig: cv.name + ":close-error", Msg: err.Error()}
	}
	enc := append([]byte{}, buf.Bytes()...)
	// 0. snappy: the stream has the framing the codec value was configured with (xerial blocks behind the
	// magic header, or one raw snappy block)
	if cv.ref == refwire.Snappy && len(data) > 0 {
		framed := len(enc) >= 8 && bytes.Equal(enc[:8], []byte{0x82, 'S', 'N', 'A', 'P', 'P', 'Y', 0})
		if framed == cv.unframed {
			return &seqx.Viol{Sig: cv.name + ":wrong-framing", Msg: fmt.Sprintf("the %s writer produced a stream that is framed=%v (starts %q)", cv.name, framed, head(enc))}
		}
	}
	// 1. the format's reference decoder reads our output
	dec, err := refwire.Decompress(cv.ref, enc)
	if err != nil || !bytes.Equal(dec, data) {
		return &seqx.Viol{Sig: cv.name + ":not-interoperable", Msg: fmt.Sprintf("output of the %s writer (%d bytes in, chunks of %d) is not decoded to the input by the reference decoder: err=%v, %d bytes out", cv.name, len(data), wchunk, err, len(dec))}
	}
	// 2. our reader reads our output
	r := cv.codec.NewReader(bytes.NewReader(enc))
	got, err := readChunks(r, rbuf, 0)
	r.Close()
	if err != nil || !bytes.Equal(got, data) {
		return &seqx.Viol{Sig: cv.name + ":roundtrip", Msg: fmt.Sprintf("%s round trip of %d bytes (write chunks %d, read buffer %d): err=%v, got %d bytes, first difference at %d, starts %q", cv.name, len(data), wchunk, rbuf, err, len(got), firstDiff(got, data), head(got))}
	}
	// 3. our reader reads the reference encoder's stream
	renc := refwire.Compress(cv.ref, data, cv.unframed)
	r = cv.codec.NewReader(bytes.NewReader(renc))
	got, err = readChunks(r, rbuf, 0)
	r.Close()
	if err != nil || !bytes.Equal(got, data) {
		return &seqx.Viol{Sig: cv.name + ":read-reference-stream", Msg: fmt.Sprintf("%s reader over a reference-encoded stream of %d bytes (read buffer %d): err=%v, got %d bytes, first difference at %d", cv.name, len(data), rbuf, err, len(got), firstDiff(got, data))}
	}
	// 4. two streams written at the same time (interleaved) by two writers of the codec do not mix
	if len(data) >= 100 && len(data) <= 40000 {
		var b1, b2 bytes.Buffer
		w1, w2 := cv.codec.NewWriter(&b1), cv.codec.NewWriter(&b2)
		d2 := append([]byte("second stream:"), data[:len(data)/2]...)
		half := len(data) / 2
		w1.Write(data[:half])
		w2.Write(d2[:len(d2)/2])
		w1.Write(data[half:])
		w2.Write(d2[len(d2)/2:])
		e1, e2 := w1.Close(), w2.Close()
		o1, err1 := refwire.Decompress(cv.ref, b1.Bytes())
		o2, err2 := refwire.Decompress(cv.ref, b2.Bytes())
		if e1 != nil || e2 != nil || err1 != nil || err2 != nil || !bytes.Equal(o1, data) || !bytes.Equal(o2, d2) {
			return &seqx.Viol{Sig: cv.name + ":interleaved-writers", Msg: fmt.Sprintf("two %s writers used at the same time: close errors %v/%v, reference decoder %v/%v, stream 1 holds %d bytes (want %d), stream 2 %d (want %d)", cv.name, e1, e2, err1, err2, len(o1), len(data), len(o2), len(d2))}
		}
	}
	return nil
}

func head(b []byte) string {
	if len(b) > 32 {
		b = b[:32]
	}
	return string(b)
}

func firstDiff(a, b []byte) int {
	for i := 0; i < len(a) && i < len(b); i++ {
		if a[i] != b[i] {
			return i
		}
	}
	if len(a) != len(b) {
		return min(len(a), len(b))
	}
	return -1
}

func TestCheck(t *testing.T) {
	s := seqx.New(t)
	thorough := os.Getenv("VERIF_TIER") == "thorough"
	items := concurrentItems(thorough)
	if s.Replay != nil {
		for _, it := range items {
			if it.Scn.Name == s.Replay.Scenario {
				qx.Replay(t, items, os.Getenv("VERIF_REPLAY"))
				return
			}
		}
	}
	sizes := []int{1, 2, 100, 32767, 32768, 32769, 65535, 65536, 65537, 100000}
	patterns := []string{"zeros", "text", "random"}
	histories := [][]string{{}}
	// "other": the pooled objects were last used by another codec value that shares the pools (snappy with the
	// other framing; a no-op for the other codecs)
	// "error2": as "error", but the writer whose Close failed is closed a second time (defer w.Close() after an
	// explicit Close)
	hops := []string{"clean", "error", "half", "other", "error2"}
	for _, a := range hops {
		histories = append(histories, []string{a})
		for _, b := range hops {
			histories = append(histories, []string{a, b})
		}
	}
	s.Begin("roundtrip-x-chunking-x-history")
	for _, cv := range codecs() {
		for _, n := range sizes {
			wchunks := []int{7, 1024, 32768, 0}
			rbufs := []int{16, 17, 4096, n + 10}
			if n <= 100 {
				wchunks = append(wchunks, 1)
				rbufs = append(rbufs, 1)
			}
			for _, pat := range patterns {
				data := payload(n, pat)
				for _, wc := range wchunks {
					for _, rb := range rbufs {
						for hi, h := range histories {
							// the full history alphabet on two payload sizes, the empty and one-step histories everywhere in thorough
							if hi > 0 && !(n == 100 || n == 32769) && !(thorough && hi <= 3) {
								continue
							}
							if hi > 0 && !thorough && (pat != "text" || (wc != 1024 && wc != 0)) {
								continue
							}
							if s.TimeUp() {
								break
							}
							cv, n, pat, wc, rb, h, data := cv, n, pat, wc, rb, h, data
							id := fmt.Sprintf("%s n=%d %s w=%d r=%d hist=%v", cv.name, n, pat, wc, rb, h)
							s.Case(id, id, func() (string, *seqx.Viol) {
								vsync.ResetPools()
								for _, op := range h {
									runHistory(cv, op)
								}
								v := roundTrip(cv, data, wc, rb)
								if v != nil && len(h) > 0 {
									v.Sig += ":after-history"
									v.Msg += fmt.Sprintf(" [pooled objects previously used for %v]", h)
								}
								return cv.name + ":" + fmt.Sprint(len(h)), v
							})
						}
					}
				}
			}
		}
	}
	sourceChunking(s, thorough)
	encodeSourceChunking(s, thorough)
	if s.Replay == nil {
		s.AddStats(qx.ExploreAll(t, items, s.Remaining())...)
	}
	s.Finish()
}

// two goroutines using one codec value at the same time: every interleaving at the pool operations
func concurrentItems(thorough bool) []qx.SuiteItem {
	bound := 3
	if thorough {
		bound = 4
	}
	var items []qx.SuiteItem
	for _, cv := range codecs() {
		cv := cv
		scn := &qx.Scenario{Name: "concurrent-" + cv.name, Cfg: qx.Config{Fine: true, NoTick: true, Kinds: []vhook.Kind{vhook.KPool, vhook.KLock, vhook.KUser}, MaxSteps: 400}}
		scn.Body = func(x *qx.Exec) *qx.Outcome {
			var mu sync.Mutex
			var viols []*seqx.Viol
			datas := [][]byte{payload(3000, "text"), payload(2900, "random")}
			for i := 0; i < 2; i++ {
				i := i
				x.Go(fmt.Sprintf("T%d", i), func() {
					for round := 0; round < 2; round++ {
						if v := roundTrip(cv, datas[i], 1024, 512); v != nil {
							mu.Lock()
							viols = append(viols, v)
							mu.Unlock()
						}
					}
				})
			}
			st := x.Run()
			o := &qx.Outcome{Key: string(st) + fmt.Sprint(vsync.PoolSizes())}
			if len(viols) > 0 {
				o.Violation = "concurrent use of one codec value: " + viols[0].Msg
				o.Sig = "concurrent:" + viols[0].Sig
			}
			return o
		}
		items = append(items, qx.SuiteItem{Scn: scn, Bound: bound})
	}
	return items
}
