package c16

// Source chunking: the property quantifies over every chunking of reads, which
// includes how the SOURCE of a decompressor hands out the compressed bytes (a
// network connection, a bufio window near its end, an io.LimitedReader over
// either): a Read of the source may return any non-empty prefix of what is left,
// and may return the last bytes together with io.EOF. The decoded bytes must not
// depend on it.

import (
	"bytes"
	"fmt"
	"io"
	"testing/iotest"

	"github.com/segmentio/kafka-go/zzverif/vsync"

	"verif/engine/refwire"
	"verif/engine/seqx"
)

// cutReader serves data in pieces: a Read never crosses the next cut point.
// With eofWithData the last piece is returned together with io.EOF.
type cutReader struct {
	data        []byte
	cuts        []int // increasing offsets inside data
	pos         int
	eofWithData bool
}

func (c *cutReader) Read(p []byte) (int, error) {
	if c.pos >= len(c.data) {
		return 0, io.EOF
	}
	if len(p) == 0 {
		return 0, nil
	}
	end := len(c.data)
	for _, k := range c.cuts {
		if k > c.pos {
			if k < end {
				end = k
			}
			break
		}
	}
	n := copy(p, c.data[c.pos:end])
	c.pos += n
	if c.pos >= len(c.data) && c.eofWithData {
		return n, io.EOF
	}
	return n, nil
}

// fixedReader serves at most c bytes per Read.
type fixedReader struct {
	r io.Reader
	c int
}

func (f *fixedReader) Read(p []byte) (int, error) {
	if len(p) > f.c {
		p = p[:f.c]
	}
	return f.r.Read(p)
}

type srcMode struct {
	name string
	mk   func(enc []byte) io.Reader
}

func namedSources() []srcMode {
	return []srcMode{
		{"onebyte", func(enc []byte) io.Reader { return iotest.OneByteReader(bytes.NewReader(enc)) }},
		{"half", func(enc []byte) io.Reader { return iotest.HalfReader(bytes.NewReader(enc)) }},
		{"data+eof", func(enc []byte) io.Reader { return iotest.DataErrReader(bytes.NewReader(enc)) }},
		{"onebyte,data+eof", func(enc []byte) io.Reader {
			return iotest.DataErrReader(iotest.OneByteReader(bytes.NewReader(enc)))
		}},
		{"chunks-of-3", func(enc []byte) io.Reader { return &fixedReader{bytes.NewReader(enc), 3} }},
		{"chunks-of-15", func(enc []byte) io.Reader { return &fixedReader{bytes.NewReader(enc), 15} }},
		{"chunks-of-17", func(enc []byte) io.Reader { return &fixedReader{bytes.NewReader(enc), 17} }},
	}
}

// how the decoded bytes are taken out of the decompressor
const (
	outWhole  = "whole"   // Read with a buffer larger than the payload
	outSmall  = "buf17"   // Read with a 17-byte buffer
	outCopyTo = "io.Copy" // io.Copy (WriteTo of the decompressor where it has one)
)

func decodeFrom(cv cvar, src io.Reader, out string, n int) ([]byte, error) {
	r := cv.codec.NewReader(src)
	defer r.Close()
	switch out {
	case outCopyTo:
		var b bytes.Buffer
		_, err := io.Copy(&b, r)
		return b.Bytes(), err
	case outSmall:
		return readChunks(r, 17, 0)
	}
	return readChunks(r, n+10, 0)
}

// splitPoints: every split point among the first 64 bytes and the last 8, a stride over the rest (all of
// them when all is set)
func splitPoints(l int, all bool, stride int) []int {
	var ks []int
	for k := 1; k < l; k++ {
		if all || k <= 64 || k >= l-8 || k%stride == 0 {
			ks = append(ks, k)
		}
	}
	return ks
}

func sourceChunking(s *seqx.Suite, thorough bool) {
	s.Begin("decode-x-source-chunking")
	// payload sizes: tiny, around the 16-byte xerial header, around the 32 KiB xerial block, multi-block
	sizes := []int{1, 2, 15, 16, 17, 100, 1000, 32767, 32768, 32769, 65537, 100000}
	patterns := []string{"zeros", "text", "random"}
	outs := []string{outWhole, outSmall, outCopyTo}
	check := func(cv cvar, stream string, data, enc []byte, desc string, mk func() io.Reader, out string, hist ...string) func() (string, *seqx.Viol) {
		return func() (string, *seqx.Viol) {
			vsync.ResetPools()
			desc := desc
			for _, op := range hist {
				runHistory(cv, op)
				desc += "; pooled reader previously used for: " + op
			}
			got, err := decodeFrom(cv, mk(), out, len(data))
			if err != nil || !bytes.Equal(got, data) {
				return cv.name + ":" + stream, &seqx.Viol{Sig: cv.name + ":source-chunking",
					Msg: fmt.Sprintf("%s reader over a valid %d-byte stream (%s, %d bytes of payload) whose source hands out the bytes as [%s], output taken by %s: err=%v, got %d bytes, first difference at %d (the same stream read from a source that returns everything at once decodes to the payload)",
						cv.name, len(enc), stream, len(data), desc, out, err, len(got), firstDiff(got, data))}
			}
			return cv.name + ":" + stream, nil
		}
	}
	for _, cv := range codecs() {
		for _, n := range sizes {
			for _, pat := range patterns {
				data := payload(n, pat)
				// two valid streams of the payload: the library writer's and the reference encoder's
				streams := []struct {
					name string
					enc  []byte
				}{{"written by the library", libraryStream(cv, data)}, {"reference-encoded", refwire.Compress(cv.ref, data, cv.unframed)}}
				for _, st := range streams {
					enc := st.enc
					// precondition (checked by the round-trip scenario as a property, here only a guard): the stream is valid
					if dec, err := refwire.Decompress(cv.ref, enc); err != nil || !bytes.Equal(dec, data) {
						continue
					}
					for _, out := range outs {
						if out != outWhole && !thorough && n > 1000 && pat != "text" {
							continue
						}
						for _, sm := range namedSources() {
							if s.TimeUp() {
								return
							}
							sm := sm
							id := fmt.Sprintf("%s n=%d %s %s src=%s out=%s", cv.name, n, pat, st.name, sm.name, out)
							s.Case(id, id, check(cv, st.name, data, enc, sm.name, func() io.Reader { return sm.mk(enc) }, out))
							// the same with a recycled reader that was closed in the middle of another stream
							if out == outWhole || thorough {
								id += " hist=half"
								s.Case(id, id, check(cv, st.name, data, enc, sm.name, func() io.Reader { return sm.mk(enc) }, out, "half"))
							}
						}
						// two Reads: every split point (see splitPoints); the last piece with and without io.EOF
						all := thorough && len(enc) <= 4096
						stride := max(1, len(enc)/24)
						if thorough {
							stride = max(1, len(enc)/192)
						}
						if out != outWhole {
							// the other ways of taking the output: the dense part only
							stride = len(enc) + 1
							all = false
						}
						for _, k := range splitPoints(len(enc), all, stride) {
							for _, eofData := range []bool{false, true} {
								if eofData && !(k <= 24 || k >= len(enc)-8) {
									continue
								}
								if s.TimeUp() {
									return
								}
								k, eofData := k, eofData
								desc := fmt.Sprintf("%d bytes, then %d bytes", k, len(enc)-k)
								if eofData {
									desc += " together with io.EOF"
								}
								id := fmt.Sprintf("%s n=%d %s %s split=%d eof=%v out=%s", cv.name, n, pat, st.name, k, eofData, out)
								s.Case(id, id, check(cv, st.name, data, enc, desc, func() io.Reader {
									return &cutReader{data: enc, cuts: []int{k}, eofWithData: eofData}
								}, out))
							}
						}
						// three Reads: every pair of split points among the first 24 bytes (header, first frame length)
						if out == outWhole && (n == 100 || n == 32769 || thorough) {
							lim := min(24, len(enc)-1)
							for k1 := 1; k1 <= lim; k1++ {
								for k2 := k1 + 1; k2 <= lim; k2++ {
									if s.TimeUp() {
										return
									}
									k1, k2 := k1, k2
									desc := fmt.Sprintf("%d bytes, then %d bytes, then %d bytes", k1, k2-k1, len(enc)-k2)
									id := fmt.Sprintf("%s n=%d %s %s split=%d,%d out=%s", cv.name, n, pat, st.name, k1, k2, out)
									s.Case(id, id, check(cv, st.name, data, enc, desc, func() io.Reader {
										return &cutReader{data: enc, cuts: []int{k1, k2}}
									}, out))
								}
							}
						}
					}
				}
			}
		}
	}
}

// libraryStream is the payload compressed by the library's writer (nil if it fails: the round-trip scenario
// reports that).
func libraryStream(cv cvar, data []byte) (enc []byte) {
	defer func() {
		if recover() != nil {
			enc = nil
		}
	}()
	vsync.ResetPools()
	var buf bytes.Buffer
	w := cv.codec.NewWriter(&buf)
	if _, err := w.Write(data); err != nil {
		return nil
	}
	if err := w.Close(); err != nil {
		return nil
	}
	return append([]byte{}, buf.Bytes()...)
}

// ---- how the payload reaches a compressor ----
//
// The property quantifies over every chunking of writes. A compressor is an io.Writer, and some of them are
// also an io.ReaderFrom (io.Copy(w, src) takes that path when src has no WriteTo; protocol's encoder does
// exactly that with the Bytes of a record): then the chunking of the writes is whatever the SOURCE returns
// from its Reads: any non-empty prefix of what is left, the last bytes possibly together with io.EOF.

// plainReader hides every method of a reader but Read (bytes.Reader has a WriteTo, which io.Copy prefers)
type plainReader struct{ r io.Reader }

func (p plainReader) Read(b []byte) (int, error) { return p.r.Read(b) }

func encoderSources() []srcMode {
	srcs := []srcMode{{"all at once", func(d []byte) io.Reader { return plainReader{bytes.NewReader(d)} }}}
	srcs = append(srcs, namedSources()...)
	for _, c := range []int{3, 15, 17} {
		c := c
		srcs = append(srcs, srcMode{fmt.Sprintf("chunks-of-%d,last one with io.EOF", c), func(d []byte) io.Reader {
			return iotest.DataErrReader(&fixedReader{bytes.NewReader(d), c})
		}})
	}
	return srcs
}

// ways of handing a payload to a compressor
const (
	inWrite    = "Write"
	inCopy     = "io.Copy(w, src)"
	inReadFrom = "w.ReadFrom(src)"
)

func encodeSourceChunking(s *seqx.Suite, thorough bool) {
	s.Begin("encode-x-source-chunking")
	sizes := []int{1, 2, 15, 16, 17, 100, 1000, 32767, 32768, 32769, 65537, 100000}
	patterns := []string{"zeros", "text", "random"}
	type way struct {
		in     string
		wchunk int // inWrite: size of the Write calls (0: one piece)
		src    *srcMode
		prefix bool // the first half goes in by one Write, the rest through the source (non-empty block buffer)
	}
	var ways []way
	for _, wc := range []int{0, 1, 3, 17, 1000} {
		ways = append(ways, way{in: inWrite, wchunk: wc})
	}
	for _, in := range []string{inCopy, inReadFrom} {
		for _, sm := range encoderSources() {
			sm := sm
			for _, prefix := range []bool{false, true} {
				ways = append(ways, way{in: in, src: &sm, prefix: prefix})
			}
		}
	}
	for _, cv := range codecs() {
		for _, n := range sizes {
			for _, pat := range patterns {
				if !thorough && n > 1000 && pat != "text" {
					continue
				}
				data := payload(n, pat)
				for _, wy := range ways {
					if wy.in == inWrite && wy.wchunk == 1 && n > 1000 && !thorough {
						continue
					}
					if wy.prefix && n < 2 {
						continue
					}
					if s.TimeUp() {
						return
					}
					cv, wy, data := cv, wy, data
					desc := wy.in
					if wy.in == inWrite {
						desc += fmt.Sprintf(" in pieces of %d bytes (0: one piece)", wy.wchunk)
					} else {
						desc += " with a source that hands out the bytes as [" + wy.src.name + "]"
						if wy.prefix {
							desc += " after the first half was written by one Write"
						}
					}
					id := fmt.Sprintf("%s n=%d %s %s", cv.name, n, pat, desc)
					s.Case(id, id, func() (string, *seqx.Viol) {
						vsync.ResetPools()
						key := cv.name + ":enc-source"
						fail := func(sig, f string, a ...any) (string, *seqx.Viol) {
							return key, &seqx.Viol{Sig: cv.name + ":encode-source:" + sig,
								Msg: fmt.Sprintf("%s writer given %d bytes by %s: ", cv.name, len(data), desc) + fmt.Sprintf(f, a...)}
						}
						var buf bytes.Buffer
						w := cv.codec.NewWriter(&buf)
						var count int64
						var err error
						switch wy.in {
						case inWrite:
							rest := data
							for len(rest) > 0 && err == nil {
								k := wy.wchunk
								if k <= 0 || k > len(rest) {
									k = len(rest)
								}
								var m int
								m, err = w.Write(rest[:k])
								count += int64(m)
								rest = rest[k:]
							}
						default:
							rest := data
							if wy.prefix {
								var m int
								m, err = w.Write(data[:len(data)/2])
								count += int64(m)
								rest = data[len(data)/2:]
							}
							if err == nil {
								var m int64
								if rf, ok := w.(io.ReaderFrom); ok && wy.in == inReadFrom {
									m, err = rf.ReadFrom(wy.src.mk(rest))
								} else {
									// no ReadFrom: io.Copy is what a caller has (for inReadFrom too)
									m, err = io.Copy(w, wy.src.mk(rest))
								}
								count += m
							}
						}
						cerr := w.Close()
						if wy.prefix && err != nil {
							// Write followed by ReadFrom on one writer is refused by some writers (pierrec lz4: ReadFrom
							// only as the first operation, "unhandled state"). The property speaks of partitions into
							// Write calls; a refusal that is REPORTED loses nothing silently: recorded as an outcome of
							// its own, not a violation. (Without the Write in front an error is a violation.)
							return key + ":write-then-readfrom-refused", nil
						}
						if err != nil || cerr != nil {
							return fail("error", "error %v, Close: %v", err, cerr)
						}
						enc := append([]byte{}, buf.Bytes()...)
						dec, derr := refwire.Decompress(cv.ref, enc)
						r := cv.codec.NewReader(bytes.NewReader(enc))
						got, gerr := readChunks(r, len(data)+10, 0)
						r.Close()
						if count != int64(len(data)) {
							return fail("short-count", "reported %d bytes taken and no error (Close: nil); the stream decodes to %d bytes (reference decoder, err=%v) / %d bytes (library reader, err=%v)", count, len(dec), derr, len(got), gerr)
						}
						if derr != nil || !bytes.Equal(dec, data) {
							return fail("lost-data", "no error, count %d, but the reference decoder gets %d bytes out of the stream (err=%v), first difference at %d", count, len(dec), derr, firstDiff(dec, data))
						}
						if gerr != nil || !bytes.Equal(got, data) {
							return fail("lost-data", "no error, count %d, but the library reader gets %d bytes out of the stream (err=%v), first difference at %d", count, len(got), gerr, firstDiff(got, data))
						}
						return key, nil
					})
				}
			}
		}
	}
}
