package c16

// Source chunking: the property quantifies over every chunking of reads, which
// includes how the SOURCE of a decompressor hands out the compressed bytes (a
// network connection, a bufio window near its end, an io.LimitedReader over
// either): a Read of the source may return any non-empty prefix of what is left,
// and may return the last bytes together with io.EOF. The decoded bytes must not
// depend on it.

import (
	"bytes"
	"fmt"
	"io"
	"testing/iotest"

	"github.com/segmentio/kafka-go/zzverif/vsync"

	"verif/engine/refwire"
	"verif/engine/seqx"
)

// cutReader serves data in pieces: a Read never crosses the next cut point.
// With eofWithData the last piece is returned together with io.EOF.
type cutReader struct {
	data        []byte
	cuts        []int // increasing offsets inside data
	pos         int
	eofWithData bool
}

func (c *cutReader) Read(p []byte) (int, error) {
	if c.pos >= len(c.data) {
		return 0, io.EOF
	}
	if len(p) == 0 {
		return 0, nil
	}
	end := len(c.data)
	for _, k := range c.cuts {
		if k > c.pos {
			if k < end {
				end = k
			}
			break
		}
	}
	n := copy(p, c.data[c.pos:end])
	c.pos += n
	if c.pos >= len(c.data) && c.eofWithData {
		return n, io.EOF
	}
	return n, nil
}

// fixedReader serves at most c bytes per Read.
type fixedReader struct {
	r io.Reader
	c int
}

func (f *fixedReader) Read(p []byte) (int, error) {
	if len(p) > f.c {
		p = p[:f.c]
	}
	return f.r.Read(p)
}

type srcMode struct {
	name string
	mk   func(enc []byte) io.Reader
}

func namedSources() []srcMode {
	return []srcMode{
		{"onebyte", func(enc []byte) io.Reader { return iotest.OneByteReader(bytes.NewReader(enc)) }},
		{"half", func(enc []byte) io.Reader { return iotest.HalfReader(bytes.NewReader(enc)) }},
		{"data+eof", func(enc []byte) io.Reader { return iotest.DataErrReader(bytes.NewReader(enc)) }},
		{"onebyte,data+eof", func(enc []byte) io.Reader {
			return iotest.DataErrReader(iotest.OneByteReader(bytes.NewReader(enc)))
		}},
		{"chunks-of-3", func(enc []byte) io.Reader { return &fixedReader{bytes.NewReader(enc), 3} }},
		{"chunks-of-15", func(enc []byte) io.Reader { return &fixedReader{bytes.NewReader(enc), 15} }},
		{"chunks-of-17", func(enc []byte) io.Reader { return &fixedReader{bytes.NewReader(enc), 17} }},
	}
}

// how the decoded bytes are taken out of the decompressor
const (
	outWhole  = "whole"   // Read with a buffer larger than the payload
	outSmall  = "buf17"   // Read with a 17-byte buffer
	outCopyTo = "io.Copy" // io.Copy (WriteTo of the decompressor where it has one)
)

func decodeFrom(cv cvar, src io.Reader, out string, n int) ([]byte, error) {
	r := cv.codec.NewReader(src)
	defer r.Close()
	switch out {
	case outCopyTo:
		var b bytes.Buffer
		_, err := io.Copy(&b, r)
		return b.Bytes(), err
	case outSmall:
		return readChunks(r, 17, 0)
	}
	return readChunks(r, n+10, 0)
}

// splitPoints: every split point among the first 64 bytes and the last 8, a stride over the rest (all of
// them when all is set)
func splitPoints(l int, all bool, stride int) []int {
	var ks []int
	for k := 1; k < l; k++ {
		if all || k <= 64 || k >= l-8 || k%stride == 0 {
			ks = append(ks, k)
		}
	}
	return ks
}

func sourceChunking(s *seqx.Suite, thorough bool) {
	s.Begin("decode-x-source-chunking")
	// payload sizes: tiny, around the 16-byte xerial header, around the 32 KiB xerial block, multi-block
	sizes := []int{1, 2, 15, 16, 17, 100, 1000, 32767, 32768, 32769, 65537, 100000}
	patterns := []string{"zeros", "text", "random"}
	outs := []string{outWhole, outSmall, outCopyTo}
	check := func(cv cvar, stream string, data, enc []byte, desc string, mk func() io.Reader, out string, hist ...string) func() (string, *seqx.Viol) {
		return func() (string, *seqx.Viol) {
			vsync.ResetPools()
			desc := desc
			for _, op := range hist {
				runHistory(cv, op)
				desc += "; pooled reader previously used for: " + op
			}
			got, err := decodeFrom(cv, mk(), out, len(data))
			if err != nil || !bytes.Equal(got, data) {
				return cv.name + ":" + stream, &seqx.Viol{Sig: cv.name + ":source-chunking",
					Msg: fmt.Sprintf("%s reader over a valid %d-byte stream (%s, %d bytes of payload) whose source hands out the bytes as [%s], output taken by %s: err=%v, got %d bytes, first difference at %d (the same stream read from a source that returns everything at once decodes to the payload)",
						cv.name, len(enc), stream, len(data), desc, out, err, len(got), firstDiff(got, data))}
			}
			return cv.name + ":" + stream, nil
		}
	}
	for _, cv := range codecs() {
		for _, n := range sizes {
			for _, pat := range patterns {
				data := payload(n, pat)
				// two valid streams of the payload: the library writer's and the reference encoder's
				streams := []struct {
					name string
					enc  []byte
				}{{"written by the library", libraryStream(cv, data)}, {"reference-encoded", refwire.Compress(cv.ref, data, cv.unframed)}}
				for _, st := range streams {
					enc := st.enc
					// precondition (checked by the round-trip scenario as a property, here only a guard): the stream is valid
					if dec, err := refwire.Decompress(cv.ref, enc); err != nil || !bytes.Equal(dec, data) {
						continue
					}
					for _, out := range outs {
						if out != outWhole && !thorough && n > 1000 && pat != "text" {
							continue
						}
						for _, sm := range namedSources() {
							if s.TimeUp() {
								return
							}
							sm := sm
							id := fmt.Sprintf("%s n=%d %s %s src=%s out=%s", cv.name, n, pat, st.name, sm.name, out)
							s.Case(id, id, check(cv, st.name, data, enc, sm.name, func() io.Reader { return sm.mk(enc) }, out))
							// the same with a recycled reader that was closed in the middle of another stream
							if out == outWhole || thorough {
								id += " hist=half"
								s.Case(id, id, check(cv, st.name, data, enc, sm.name, func() io.Reader { return sm.mk(enc) }, out, "half"))
							}
						}
						// two Reads: every split point (see splitPoints); the last piece with and without io.EOF
						all := thorough && len(enc) <= 4096
						stride := max(1, len(enc)/24)
						if thorough {
							stride = max(1, len(enc)/192)
						}
						if out != outWhole {
							// the other ways of taking the output: the dense part only
							stride = len(enc) + 1
							all = false
						}
						for _, k := range splitPoints(len(enc), all, stride) {
							for _, eofData := range []bool{false, true} {
								if eofData && !(k <= 24 || k >= len(enc)-8) {
									continue
								}
								if s.TimeUp() {
									return
								}
								k, eofData := k, eofData
								desc := fmt.Sprintf("%d bytes, then %d bytes", k, len(enc)-k)
								if eofData {
									desc += " together with io.EOF"
								}
								id := fmt.Sprintf("%s n=%d %s %s split=%d eof=%v out=%s", cv.name, n, pat, st.name, k, eofData, out)
								s.Case(id, id, check(cv, st.name, data, enc, desc, func() io.Reader {
									return &cutReader{data: enc, cuts: []int{k}, eofWithData: eofData}
								}, out))
							}
						}
						// three Reads: every pair of split points among the first 24 bytes (header, first frame length)
						if out == outWhole && (n == 100 || n == 32769 || thorough) {
							lim := min(24, len(enc)-1)
							for k1 := 1; k1 <= lim; k1++ {
								for k2 := k1 + 1; k2 <= lim; k2++ {
									if s.TimeUp() {
										return
									}
									k1, k2 := k1, k2
									desc := fmt.Sprintf("%d bytes, then %d bytes, then %d bytes", k1, k2-k1, len(enc)-k2)
									id := fmt.Sprintf("%s n=%d %s %s split=%d,%d out=%s", cv.name, n, pat, st.name, k1, k2, out)
									s.Case(id, id, check(cv, st.name, data, enc, desc, func() io.Reader {
										return &cutReader{data: enc, cuts: []int{k1, k2}}
									}, out))
								}
							}
						}
					}
				}
			}
		}
	}
}

// libraryStream is the payload compressed by the library's writer (nil if it fails: the round-trip scenario
// reports that).
func libraryStream(cv cvar, data []byte) (enc []byte) {
	defer func() {
		if recover() != nil {
			enc = nil
		}
	}()
	vsync.ResetPools()
	var buf bytes.Buffer
	w := cv.codec.NewWriter(&buf)
	if _, err := w.Write(data); err != nil {
		return nil
	}
	if err := w.Close(); err != nil {
		return nil
	}
	return append([]byte{}, buf.Bytes()...)
}
