// Package c17: every response the library reads is cut at every byte position
// (k bytes delivered, then EOF). The pending call must return an error (fetch
// may first return records that were completely received), never a panic, a
// hang past its deadline, or data presented as complete; the connection must not
// be used again (Conn: every later op fails; Transport: the next call dials anew).
package c17

import (
	"context"
	"fmt"
	"os"
	"strings"
	"testing"
	"time"

	kafka "github.com/segmentio/kafka-go"
	"github.com/segmentio/kafka-go/protocol"

	"verif/engine/bub"
	"verif/engine/fk"
	"verif/engine/refwire"
	"verif/engine/seqx"
	"verif/harness/clientops"
	"verif/harness/connops"
	"verif/harness/hx"
)

// layouts of topic t's log for the fetch cuts
type layout struct {
	name   string
	format int8
	codec  int8
}

func layouts(thorough bool) []layout {
	l := []layout{{"v2-none", 2, refwire.None}, {"v2-gzip", 2, refwire.Gzip}, {"v2-snappy", 2, refwire.Snappy}, {"v2-lz4", 2, refwire.Lz4}, {"v2-zstd", 2, refwire.Zstd},
		{"v1-none", 1, refwire.None}, {"v1-gzip", 1, refwire.Gzip}, {"v0-none", 0, refwire.None}}
	if thorough {
		l = append(l, layout{"v1-snappy", 1, refwire.Snappy}, layout{"v1-lz4", 1, refwire.Lz4}, layout{"v0-gzip", 0, refwire.Gzip})
	}
	return l
}

func applyLayout(c *fk.Cluster, ly layout) {
	p := c.Part("t", 0)
	var old []refwire.Batch
	for _, b := range p.Log {
		old = append(old, *b)
	}
	p.Log = nil
	for _, b := range old {
		nb := b
		nb.Format, nb.Codec = ly.format, ly.codec
		if ly.format < 2 {
			for i := range nb.Recs {
				nb.Recs[i].Headers = nil
			}
		}
		cp := nb
		p.Log = append(p.Log, &cp)
	}
}

func TestCheck(t *testing.T) {
	s := seqx.New(t)
	thorough := os.Getenv("VERIF_TIER") == "thorough"
	cops := connops.Ops()

	type variant struct {
		op  *connops.Op
		ly  *layout
		tag string
	}
	var vs []variant
	for i := range cops {
		o := &cops[i]
		if strings.HasPrefix(o.Name, "fetch-v") && o.ErrAt == "" {
			for _, ly := range layouts(thorough) {
				ly := ly
				if ly.format == 2 && o.Name == "fetch-v2" {
					continue // a broker down-converts v2 batches for fetch v2 clients
				}
				vs = append(vs, variant{o, &ly, o.Name + "/" + ly.name})
			}
			continue
		}
		if o.ErrAt != "" {
			continue
		}
		vs = append(vs, variant{o, nil, o.Name})
	}

	s.Begin("conn-response-cut-at-every-byte")
	for _, v := range vs {
		v := v
		mk := func() *fk.Cluster {
			c := connops.MkCluster(v.op, nil)
			if v.ly != nil {
				applyLayout(c, *v.ly)
			}
			return c
		}
		// reference run: response length and result
		var L int
		var ref, refErr string
		bub.Run(t, 0, func() {
			c := mk()
			conn, _ := hx.Conn(c, "t", 0)
			r, err := v.op.Run(conn)
			ref, refErr = r, hx.ErrString(err)
			for _, e := range c.Journal {
				if e.Key == v.op.Key {
					L = e.RespBytes
					break
				}
			}
			conn.Close()
		})
		if L == 0 {
			t.Fatalf("%s: no response length", v.tag)
		}
		for k := 0; k < L; k++ {
			if s.TimeUp() {
				break
			}
			k := k
			id := fmt.Sprintf("%s cut@%d/%d", v.tag, k, L)
			s.Case(id, id, func() (string, *seqx.Viol) {
				var viol *seqx.Viol
				key := ""
				br := bub.Run(t, 0, func() {
					c := mk()
					done := false
					c.Script = func(e *fk.Entry) string {
						if e.Key == v.op.Key && !done {
							done = true
							return fmt.Sprintf("cut:%d", k)
						}
						return ""
					}
					conn, _ := hx.Conn(c, "t", 0)
					defer conn.Close()
					r, err := v.op.Run(conn)
					e1 := hx.ErrString(err)
					key = v.op.Name + ":" + e1
					isFetch := v.op.Key == protocol.Fetch
					switch {
					case err == nil && !isFetch:
						viol = &seqx.Viol{Sig: "no-error:" + v.op.Name, Msg: fmt.Sprintf("%s returned (%q, nil) although only %d of %d response bytes arrived (complete response gives %q, %s)", v.op.Name, r, k, L, ref, refErr)}
					case err == nil && isFetch:
						viol = &seqx.Viol{Sig: "fetch-complete-on-cut:" + v.tag, Msg: fmt.Sprintf("%s: batch ended without error after %q although only %d of %d response bytes arrived", v.tag, r, k, L)}
					case isFetch && !strings.HasPrefix(ref, strings.SplitN(r, " close=", 2)[0]):
						viol = &seqx.Viol{Sig: "fetch-fabricated:" + v.tag, Msg: fmt.Sprintf("%s cut at %d: returned %q, not a prefix of the stored records %q", v.tag, k, r, ref)}
					}
					if viol == nil {
						if _, err2 := conn.ReadLastOffset(); err2 == nil {
							viol = &seqx.Viol{Sig: "reused-after-cut:" + v.op.Name, Msg: fmt.Sprintf("after %s failed with %s on a cut response, ReadLastOffset succeeded on the same Conn", v.op.Name, e1)}
						}
					}
				})
				if br.Panic != "" {
					return "panic", &seqx.Viol{Sig: "panic:" + v.op.Name, Msg: fmt.Sprintf("%s cut at %d/%d: %s", v.tag, k, L, firstLines(br.Panic, 12))}
				}
				if br.Elapsed > 11*time.Second && viol == nil {
					viol = &seqx.Viol{Sig: "slow:" + v.op.Name, Msg: fmt.Sprintf("%s cut at %d took %v of virtual time (deadline 10s)", v.tag, k, br.Elapsed)}
				}
				return key, viol
			})
		}
	}

	// Transport / Client path
	s.Begin("transport-response-cut-at-every-byte")
	for _, o := range clientops.Ops() {
		o := o
		lys := []*layout{nil}
		if o.Key == protocol.Fetch {
			lys = nil
			for _, ly := range layouts(thorough) {
				ly := ly
				lys = append(lys, &ly)
			}
		}
		for _, ly := range lys {
			ly := ly
			tag := o.Name
			if ly != nil {
				tag += "/" + ly.name
			}
			mk := func() *fk.Cluster {
				c := hx.NewCluster()
				if ly != nil {
					applyLayout(c, *ly)
				}
				return c
			}
			var L, nRef int
			var ref string
			bub.Run(t, 0, func() {
				c := mk()
				cl, tr := clientops.NewClient(c)
				r, err := o.Run(context.Background(), cl)
				ref = r + "|" + hx.ErrString(err)
				c.Lock()
				for _, e := range c.Journal {
					if e.Key == o.Key {
						L = e.RespBytes
						nRef++
					}
				}
				c.Unlock()
				tr.CloseIdleConnections()
			})
			if L == 0 {
				t.Fatalf("%s: no response length (%s)", tag, ref)
			}
			for k := 0; k < L; k++ {
				if s.TimeUp() {
					break
				}
				k := k
				id := fmt.Sprintf("%s cut@%d/%d", tag, k, L)
				s.Case(id, id, func() (string, *seqx.Viol) {
					var viol *seqx.Viol
					key := ""
					br := bub.Run(t, 0, func() {
						c := mk()
						nseen, cutConn := 0, -1
						c.Script = func(e *fk.Entry) string {
							if e.Key == o.Key {
								nseen++
								// the operation's own request is the nRef-th of its key (earlier ones are the transport's own)
								if nseen == nRef && cutConn < 0 {
									cutConn = e.Conn
									return fmt.Sprintf("cut:%d", k)
								}
							}
							return ""
						}
						cl, tr := clientops.NewClient(c)
						hang := func(what string) {
							viol = &seqx.Viol{Sig: "hang:" + o.Name, Msg: fmt.Sprintf("Client %s %s did not return within a minute of virtual time (client timeout 5 s); %d of %d response bytes had arrived", o.Name, what, k, L)}
						}
						r, err, hung := runOp(&o, cl)
						if hung {
							key = o.Name + ":hang"
							hang("(the call whose response was cut)")
							return
						}
						defer tr.CloseIdleConnections()
						key = o.Name + ":" + hx.ErrString(err)
						if cutConn < 0 {
							key += ":not-injected"
							return
						}
						if err == nil && strings.Count(r, "<nil>") < strings.Count(ref, "<nil>")-1 {
							// the failure is reported inside the result (per-partition error), as C19 requires for split requests
							key += ":partial-error"
						} else if err == nil {
							viol = &seqx.Viol{Sig: "no-error:" + o.Name, Msg: fmt.Sprintf("Client %s returned (%q, nil) although only %d of %d response bytes arrived (complete: %q)", o.Name, r, k, L, ref)}
							return
						}
						// the cut connection must not carry any further request, and the client must get back to
						// the complete answer on a new connection (the transport may serve a cached refresh error first)
						got := ""
						for try := 0; try < 8; try++ {
							r2, err2, hung2 := runOp(&o, cl)
							if hung2 {
								key += ":then-hang"
								hang("(a later call, after the cut)")
								return
							}
							got = r2 + "|" + hx.ErrString(err2)
							if got == ref || (o.Key == protocol.Produce || o.Key == protocol.JoinGroup || o.Key == protocol.CreateTopics || o.Key == protocol.DeleteTopics) && err2 == nil {
								got = ref
								break
							}
							time.Sleep(3 * time.Second)
						}
						c.Lock()
						for _, e := range c.Journal {
							if e.Conn == cutConn && e.Answer == "" {
								viol = &seqx.Viol{Sig: "conn-reused:" + o.Name, Msg: fmt.Sprintf("a request (api %d) was sent on the connection whose response had been cut", e.Key)}
							}
						}
						c.Unlock()
						if viol == nil && got != ref {
							viol = &seqx.Viol{Sig: "no-recovery:" + o.Name, Msg: fmt.Sprintf("after a cut response Client %s did not get back to the complete answer within 24 virtual seconds: %q, want %q", o.Name, got, ref)}
						}
					})
					if br.Panic != "" {
						return "panic", &seqx.Viol{Sig: "panic:" + o.Name, Msg: fmt.Sprintf("%s cut at %d/%d: %s", tag, k, L, firstLines(br.Panic, 12))}
					}
					if br.Elapsed > 40*time.Second && viol == nil {
						viol = &seqx.Viol{Sig: "slow:" + o.Name, Msg: fmt.Sprintf("%s cut at %d took %v of virtual time (client timeout 5s)", tag, k, br.Elapsed)}
					}
					return key, viol
				})
			}
		}
	}
	s.Finish()
}

// runOp runs a Client operation with a watchdog on the virtual clock: a call that does not return within a minute
// (the Client's own timeout is 5 s) blocks beyond its deadline. The caller must then leave the bubble at once.
func runOp(o *clientops.Op, cl *kafka.Client) (r string, err error, hung bool) {
	done := make(chan struct{})
	go func() {
		r, err = o.Run(context.Background(), cl)
		close(done)
	}()
	select {
	case <-done:
		return r, err, false
	case <-time.After(time.Minute):
		return "", nil, true
	}
}

func firstLines(s string, n int) string {
	l := strings.Split(s, "\n")
	if len(l) > n {
		l = l[:n]
	}
	return strings.Join(l, " | ")
}

var _ = kafka.Message{}
