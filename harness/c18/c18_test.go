// Package c18: with SASL configured nothing but ApiVersions / SaslHandshake /
// SaslAuthenticate (or raw auth tokens) is written to a connection before the
// broker accepted the exchange; every failure placed at any step makes the dial /
// round trip fail and the connection closed; the exchange succeeds exactly when
// the credentials are right. Dialer->Conn and Transport, handshake v0 (raw) and v1.
package c18

import (
	"context"
	"fmt"
	"os"
	"strings"
	"testing"
	"time"

	kafka "github.com/segmentio/kafka-go"
	"github.com/segmentio/kafka-go/protocol"
	"github.com/segmentio/kafka-go/sasl"
	"github.com/segmentio/kafka-go/sasl/plain"
	"github.com/segmentio/kafka-go/sasl/scram"

	"verif/engine/bub"
	"verif/engine/fk"
	"verif/engine/seqx"
	"verif/harness/clientops"
	"verif/harness/hx"
)

func mech(name, user, pass string) sasl.Mechanism {
	switch name {
	case "PLAIN":
		return plain.Mechanism{Username: user, Password: pass}
	case "SCRAM-SHA-256":
		m, err := scram.Mechanism(scram.SHA256, user, pass)
		if err != nil {
			panic(err)
		}
		return m
	default:
		m, err := scram.Mechanism(scram.SHA512, user, pass)
		if err != nil {
			panic(err)
		}
		return m
	}
}

func TestCheck(t *testing.T) {
	s := seqx.New(t)
	thorough := os.Getenv("VERIF_TIER") == "thorough"
	users := map[string]string{"alice": "secret", "a=b,c": "p,w=d", "usér": "päss"}
	type cred struct {
		name, user, pass string
		ok               bool
	}
	creds := []cred{{"right", "alice", "secret", true}, {"wrong-password", "alice", "nope", false}, {"unknown-user", "mallory", "secret", false},
		{"escaped-right", "a=b,c", "p,w=d", true}, {"escaped-wrong", "a=b,c", "p,w=x", false}, {"unicode-right", "usér", "päss", true}}
	mechs := []string{"PLAIN", "SCRAM-SHA-256", "SCRAM-SHA-512"}
	// failure placements: script answer for the n-th request of an api key (0 = none)
	type fault struct {
		name   string
		key    protocol.ApiKey
		nth    int
		ans    string
		raw    string // RawAuthFault for handshake v0
		inband bool
		mechs  []string // broker-side accepted mechanisms (nil = all)
	}
	faults := []fault{{name: "none"},
		{name: "apiversions-dropped", key: protocol.ApiVersions, nth: 1, ans: "drop"},
		{name: "handshake-unsupported-mechanism", mechs: []string{"GSSAPI"}},
		{name: "handshake-error", key: protocol.SaslHandshake, nth: 1, ans: "err:34"},
		{name: "handshake-dropped", key: protocol.SaslHandshake, nth: 1, ans: "drop"},
		{name: "auth1-error58", key: protocol.SaslAuthenticate, nth: 1, ans: "err:58"},
		{name: "auth1-error-1", key: protocol.SaslAuthenticate, nth: 1, ans: "err:-1"},
		{name: "auth1-error34", key: protocol.SaslAuthenticate, nth: 1, ans: "err:34"},
		{name: "auth1-error13", key: protocol.SaslAuthenticate, nth: 1, ans: "err:13"},
		{name: "auth1-dropped", key: protocol.SaslAuthenticate, nth: 1, ans: "drop"},
		{name: "auth1-garbled", key: protocol.SaslAuthenticate, nth: 1, ans: "garble"},
		{name: "auth2-error58", key: protocol.SaslAuthenticate, nth: 2, ans: "err:58"},
		{name: "auth2-error-1", key: protocol.SaslAuthenticate, nth: 2, ans: "err:-1"},
		{name: "auth2-dropped", key: protocol.SaslAuthenticate, nth: 2, ans: "drop"},
		{name: "auth2-garbled", key: protocol.SaslAuthenticate, nth: 2, ans: "garble"},
		{name: "auth2-cut", key: protocol.SaslAuthenticate, nth: 2, ans: "cut:10"},
		{name: "raw-closed", raw: "close"},
		{name: "inband-errors", inband: true},
	}
	_ = thorough
	s.Begin("sasl-exchange-x-failure-placement")
	for _, m := range mechs {
		for _, cr := range creds {
			for _, hv := range []int16{0, 1} {
				for _, stack := range []string{"dialer", "transport"} {
					for _, f := range faults {
						m, cr, hv, stack, f := m, cr, hv, stack, f
						id := fmt.Sprintf("%s %s handshake-v%d %s fault=%s", m, cr.name, hv, stack, f.name)
						s.Case(id, id, func() (string, *seqx.Viol) {
							var v *seqx.Viol
							key := ""
							br := bub.Run(t, 0, func() {
								c := hx.NewCluster()
								c.SASL = &fk.SASLConfig{Mechanisms: mechs, Users: users, InBand: f.inband}
								if f.mechs != nil {
									c.SASL.Mechanisms = f.mechs
								}
								c.RawAuthFault = f.raw
								vs := hx.Versions(map[protocol.ApiKey]fk.VRange{protocol.SaslHandshake: {0, hv}})
								c.Versions = map[int]map[protocol.ApiKey]fk.VRange{1: vs, 2: vs}
								seen := map[protocol.ApiKey]int{}
								injected := f.key == 0 && f.raw == "" && f.mechs == nil && !f.inband
								c.Script = func(e *fk.Entry) string {
									seen[e.Key]++
									if f.key != 0 && e.Key == f.key && seen[e.Key] == f.nth {
										injected = true
										return f.ans
									}
									return ""
								}
								opErr, res, cleanup := runStack(c, stack, mech(m, cr.user, cr.pass))
								defer cleanup()
								key = fmt.Sprintf("%s:%v", stack, opErr == nil)
								c.Lock()
								defer c.Unlock()
								// 1. nothing but the authentication APIs before the verdict
								for _, e := range c.Journal {
									if e.Key == -1 || e.AuthDone {
										continue
									}
									switch e.Key {
									case protocol.ApiVersions, protocol.SaslHandshake, protocol.SaslAuthenticate:
									default:
										v = &seqx.Viol{Sig: "request-before-authentication", Msg: fmt.Sprintf("request api=%d v%d was written on connection %d before the broker accepted the SASL exchange", e.Key, e.Version, e.Conn)}
										return
									}
								}
								// 2. verdict
								authOK := false
								for _, a := range c.Auths {
									authOK = authOK || a.Success
								}
								faulty := f.name != "none" && f.name != "inband-errors" && injected || f.mechs != nil || (f.raw != "" && hv == 0)
								if strings.HasPrefix(f.name, "auth2-") {
									faulty = injected // PLAIN has a single round: the fault never fires
								}
								if m == "PLAIN" && (f.ans == "garble" || f.inband) {
									faulty = false // PLAIN's single server message is empty: nothing to garble
								}
								shouldSucceed := cr.ok && !faulty
								if stack == "transport" && cr.ok && faulty && opErr == nil {
									// the transport may retry on a new connection and authenticate properly there
									shouldSucceed = true
								}
								if shouldSucceed && opErr != nil {
									v = &seqx.Viol{Sig: "valid-credentials-rejected:" + stack, Msg: fmt.Sprintf("%s with the right credentials failed: %v", m, opErr)}
									return
								}
								if !shouldSucceed && opErr == nil && !(stack == "transport" && false) {
									v = &seqx.Viol{Sig: "failed-authentication-accepted:" + stack, Msg: fmt.Sprintf("%s (%s, fault %s, broker verdict ok=%v): the %s returned no error and went on (%q)", m, cr.name, f.name, authOK, stack, res)}
									return
								}
								// 3. on failure every connection that did not authenticate is closed by the client
								if opErr != nil {
									for i := range c.Conns {
										ok := false
										for _, a := range c.Auths {
											ok = ok || (a.Conn == i && a.Success)
										}
										if !ok && !c.ConnClosedLocked(i) {
											v = &seqx.Viol{Sig: "connection-left-open:" + stack, Msg: fmt.Sprintf("connection %d never authenticated but was not closed after the failure (%v)", i, opErr)}
											return
										}
									}
								}
							})
							if br.Panic != "" {
								return "panic", &seqx.Viol{Sig: "panic", Msg: br.Panic}
							}
							return key, v
						})
					}
				}
			}
		}
	}
	cutSweep(t, s, thorough)
	s.Finish()
}

// runStack dials (Dialer->Conn, then a metadata request) or runs a round trip (Transport, ListOffsets).
// cleanup (closing the transport's idle connections) is for the caller to run after its checks.
func runStack(c *fk.Cluster, stack string, m sasl.Mechanism) (opErr error, res string, cleanup func()) {
	cleanup = func() {}
	switch stack {
	case "dialer":
		d := &kafka.Dialer{DialFunc: c.Dial, SASLMechanism: m, Timeout: 5 * time.Second, ClientID: "verif"}
		conn, err := d.DialContext(context.Background(), "tcp", "b1:9092")
		opErr = err
		if err == nil {
			conn.SetDeadline(time.Now().Add(5 * time.Second))
			ps, perr := conn.ReadPartitions("t")
			res = fmt.Sprint(len(ps), hx.ErrString(perr))
			conn.Close()
		}
	case "transport":
		cl, tr := clientops.NewClient(c)
		tr.SASL = m
		cleanup = tr.CloseIdleConnections
		r, err := cl.ListOffsets(context.Background(), &kafka.ListOffsetsRequest{Topics: map[string][]kafka.OffsetRequest{"t": {kafka.LastOffsetOf(0)}}})
		opErr = err
		if err == nil {
			res = clientops.FmtListOffsets(r)
		}
	}
	return
}
