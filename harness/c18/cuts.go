package c18

import (
	"fmt"
	"testing"
	"time"

	"github.com/segmentio/kafka-go/protocol"

	"verif/engine/bub"
	"verif/engine/fk"
	"verif/engine/seqx"
	"verif/harness/hx"
)

// The stream ends inside a broker answer of the authentication exchange.
//
// For every stack (Dialer->Conn, Transport), handshake version (0: raw tokens behind a bare 4-byte length, 1: framed
// SaslAuthenticate), mechanism (PLAIN with the empty answer Kafka sends, PLAIN with a broker that sends a token along
// with its acceptance, SCRAM-SHA-256/512) and every connection the fault-free run opens, the broker ends the stream
// after k bytes of the j-th answer it gives before the exchange of that connection is complete: ApiVersions,
// SaslHandshake and every authenticate answer (framed response or raw length + token), for EVERY k from 0 to one
// byte short of the whole answer (so: inside the size prefix, right after it, inside the header / the token length /
// the token, before the last byte). The credentials are right: without the cut the exchange succeeds.
//
// The broker only shuts down its sending side (half-close; with close=full it closes the connection): it keeps
// reading, so whatever the client writes afterwards is journaled. Oracle (C18): the exchange of that connection
// never completed, so (1) nothing but ApiVersions / SaslHandshake / SaslAuthenticate / raw tokens is written on it
// afterwards, (2) the dial fails with an error (a Transport may succeed, but only through another connection that
// authenticated completely), (3) the client closes the connection.
type exchAnswer struct {
	conn    int
	framed  bool
	ordinal int // framed: n-th framed request of the connection (from 1); raw: round (from 1)
	key     protocol.ApiKey
	size    int
}

func (a exchAnswer) String() string {
	if a.framed {
		return fmt.Sprintf("conn%d answer-%d(%s)", a.conn, a.ordinal, a.key)
	}
	return fmt.Sprintf("conn%d raw-answer-%d", a.conn, a.ordinal)
}

type cutMech struct {
	name, mech  string
	plainAnswer []byte
}

var cutMechs = []cutMech{
	{"PLAIN", "PLAIN", nil},
	{"PLAIN+token", "PLAIN", []byte("accepted")},
	{"SCRAM-SHA-256", "SCRAM-SHA-256", nil},
	{"SCRAM-SHA-512", "SCRAM-SHA-512", nil},
}

func cutCluster(cm cutMech, hv int16) *fk.Cluster {
	c := hx.NewCluster()
	c.SASL = &fk.SASLConfig{Mechanisms: []string{"PLAIN", "SCRAM-SHA-256", "SCRAM-SHA-512"}, Users: map[string]string{"alice": "secret"}, PlainAnswer: cm.plainAnswer}
	vs := hx.Versions(map[protocol.ApiKey]fk.VRange{protocol.SaslHandshake: {0, hv}})
	c.Versions = map[int]map[protocol.ApiKey]fk.VRange{1: vs, 2: vs}
	return c
}

// probe runs the fault-free exchange and lists the answers given on each connection before it was authenticated.
func probe(t *testing.T, cm cutMech, hv int16, stack string) (out []exchAnswer, err error) {
	br := bub.Run(t, 0, func() {
		c := cutCluster(cm, hv)
		opErr, _, cleanup := runStack(c, stack, mech(cm.mech, "alice", "secret"))
		defer cleanup()
		if opErr != nil {
			err = fmt.Errorf("fault-free run failed: %v", opErr)
			return
		}
		c.Lock()
		defer c.Unlock()
		framed, raw := map[int]int{}, map[int]int{}
		for _, e := range c.Journal {
			if e.Key == -1 {
				raw[e.Conn]++
				out = append(out, exchAnswer{conn: e.Conn, ordinal: raw[e.Conn], key: -1, size: e.RespBytes})
				continue
			}
			framed[e.Conn]++
			if !e.AuthDone {
				out = append(out, exchAnswer{conn: e.Conn, framed: true, ordinal: framed[e.Conn], key: e.Key, size: e.RespBytes})
			}
		}
	})
	if br.Panic != "" {
		err = fmt.Errorf("panic: %s", br.Panic)
	}
	return
}

func cutSweep(t *testing.T, s *seqx.Suite, thorough bool) {
	s.Begin("stream-ends-inside-an-answer-of-the-exchange")
	closes := []string{"half"}
	if thorough {
		closes = append(closes, "full")
	}
	for _, cm := range cutMechs {
		for _, hv := range []int16{0, 1} {
			for _, stack := range []string{"dialer", "transport"} {
				answers, perr := probe(t, cm, hv, stack)
				if perr != nil || len(answers) == 0 {
					id := fmt.Sprintf("%s handshake-v%d %s probe", cm.name, hv, stack)
					s.Case(id, id, func() (string, *seqx.Viol) {
						return "probe", &seqx.Viol{Sig: "cut-sweep-probe-failed", Msg: fmt.Sprintf("%s: %v (%d answers)", id, perr, len(answers))}
					})
					continue
				}
				for _, a := range answers {
					for _, cl := range closes {
						for k := 0; k < a.size; k++ {
							// quick: the long ApiVersions answer at its first and last bytes and every 8th position
							if !thorough && a.key == protocol.ApiVersions && k > 12 && k < a.size-4 && k%8 != 0 {
								continue
							}
							cm, hv, stack, a, cl, k := cm, hv, stack, a, cl, k
							id := fmt.Sprintf("%s handshake-v%d %s %s cut at %d of %d bytes close=%s", cm.name, hv, stack, a, k, a.size, cl)
							s.Case(id, id, func() (string, *seqx.Viol) { return cutCase(t, cm, hv, stack, a, cl, k, id) })
						}
					}
				}
			}
		}
	}
}

func cutCase(t *testing.T, cm cutMech, hv int16, stack string, a exchAnswer, cl string, k int, id string) (key string, v *seqx.Viol) {
	br := bub.Run(t, 0, func() {
		c := cutCluster(cm, hv)
		c.HalfCloseOnCut = cl == "half"
		injected, gotSize := false, -1
		framed := map[int]int{}
		c.Script = func(e *fk.Entry) string {
			framed[e.Conn]++
			if a.framed && !injected && e.Conn == a.conn && framed[e.Conn] == a.ordinal && e.Key == a.key {
				injected = true
				return fmt.Sprintf("cut:%d", k)
			}
			return ""
		}
		c.RawAuthCut = func(conn, round int, frame []byte) int {
			if !a.framed && !injected && conn == a.conn && round == a.ordinal {
				injected, gotSize = true, len(frame)
				return k
			}
			return -1
		}
		opErr, res, cleanup := runStack(c, stack, mech(cm.mech, "alice", "secret"))
		defer cleanup()
		// let the goroutines of the client that are still running reach their next blocking point
		time.Sleep(time.Millisecond)
		key = fmt.Sprintf("%s:conn%d:%v", stack, a.conn, opErr == nil)
		c.Lock()
		defer c.Unlock()
		if !injected || (gotSize >= 0 && gotSize != a.size) {
			v = &seqx.Viol{Sig: "cut-not-injected", Msg: fmt.Sprintf("%s: the answer to cut was not seen as in the fault-free run (injected=%v, size %d)", id, injected, gotSize)}
			return
		}
		for _, e := range c.Journal {
			switch e.Key {
			case -1, protocol.ApiVersions, protocol.SaslHandshake, protocol.SaslAuthenticate:
				continue
			}
			if e.AfterCut {
				v = &seqx.Viol{Sig: "request-after-cut-exchange:" + stack, Msg: fmt.Sprintf("%s: request api=%d (%s) v%d was written on connection %d although the stream had ended after %d of the %d bytes of the broker's answer (%s): the authentication exchange of that connection never completed (the caller got: %v)", id, e.Key, e.Key, e.Version, e.Conn, k, a.size, a, opErr)}
				return
			}
			if !e.AuthDone {
				v = &seqx.Viol{Sig: "request-before-authentication", Msg: fmt.Sprintf("%s: request api=%d v%d was written on connection %d before the broker accepted the SASL exchange", id, e.Key, e.Version, e.Conn)}
				return
			}
		}
		otherOK := false
		for _, au := range c.Auths {
			otherOK = otherOK || (au.Success && !c.ConnCutLocked(au.Conn))
		}
		if opErr == nil && (stack == "dialer" || !otherOK) {
			v = &seqx.Viol{Sig: "cut-exchange-accepted:" + stack, Msg: fmt.Sprintf("%s: the %s returned no error and went on (%q) although the exchange was cut and no other connection authenticated", id, stack, res)}
			return
		}
		for i := range c.Conns {
			ok := false
			for _, au := range c.Auths {
				ok = ok || (au.Conn == i && au.Success)
			}
			if c.ConnCutLocked(i) && !c.ClientClosedLocked(i) {
				v = &seqx.Viol{Sig: "cut-connection-left-open:" + stack, Msg: fmt.Sprintf("%s: connection %d, whose exchange was cut, was not closed by the client (result: %v)", id, i, opErr)}
				return
			}
			if opErr != nil && !ok && !c.ConnClosedLocked(i) {
				v = &seqx.Viol{Sig: "connection-left-open:" + stack, Msg: fmt.Sprintf("%s: connection %d never authenticated but was not closed after the failure (%v)", id, i, opErr)}
				return
			}
		}
	})
	if br.Panic != "" {
		return "panic", &seqx.Viol{Sig: "panic", Msg: br.Panic}
	}
	return key, v
}
