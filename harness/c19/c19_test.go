// Package c19: offset and metadata queries against exhaustively enumerated small
// cluster states; every answer is compared with the fake cluster's state, and a
// failure concerning one partition must be reported on that partition only.
package c19

import (
	"context"
	"errors"
	"fmt"
	"os"
	"sort"
	"testing"
	"time"

	kafka "github.com/segmentio/kafka-go"
	"github.com/segmentio/kafka-go/protocol"
	"github.com/segmentio/kafka-go/protocol/listoffsets"

	"verif/engine/bub"
	"verif/engine/fk"
	"verif/engine/refwire"
	"verif/engine/seqx"
	"verif/harness/clientops"
	"verif/harness/hx"
)

type pstate struct {
	name       string
	start, end int64
	ts0        int64 // timestamp of the record at offset `start`; later records +10 each
}

var pstates = []pstate{{"empty", 0, 0, 0}, {"0-5", 0, 5, 1000}, {"3-9", 3, 9, 2000}}

func fill(p *fk.Partition, st pstate) {
	p.Log, p.Start, p.End = nil, st.start, st.start
	if st.end > st.start {
		b := &refwire.Batch{Format: 2, Base: st.start, Last: st.end - 1}
		for o := st.start; o < st.end; o++ {
			b.Recs = append(b.Recs, refwire.Rec{Offset: o, TS: st.ts0 + 10*(o-st.start), Value: []byte("v")})
		}
		p.Append(b)
	}
}

func mkCluster(states [3]int) *fk.Cluster {
	c := fk.New(3)
	c.Auto = true
	c.AddTopic("t", 3, func(p int) int { return p + 1 })
	c.AddTopic("u", 2, func(p int) int { return 3 - p })
	for i := 0; i < 3; i++ {
		fill(c.Part("t", i), pstates[states[i]])
	}
	fill(c.Part("u", 0), pstates[1])
	fill(c.Part("u", 1), pstates[2])
	return c
}

func TestCheck(t *testing.T) {
	s := seqx.New(t)
	thorough := os.Getenv("VERIF_TIER") == "thorough"
	ctx := context.Background()

	// A. Client.ListOffsets: every state x every non-empty subset of partitions x timestamp sets x fault
	s.Begin("client-listoffsets")
	tsSets := map[string][]int64{"first": {kafka.FirstOffset}, "last": {kafka.LastOffset}, "first+last": {kafka.FirstOffset, kafka.LastOffset}, "time": {1015}, "all": {kafka.FirstOffset, kafka.LastOffset, 2030}}
	var tsNames []string
	for k := range tsSets {
		tsNames = append(tsNames, k)
	}
	sort.Strings(tsNames)
	faults := []string{"none", "err:p0", "err:p1", "down:p1", "down:p2"}
	for s0 := 0; s0 < 3; s0++ {
		for s1 := 0; s1 < 3; s1++ {
			for s2 := 0; s2 < 3; s2++ {
				if !thorough && (s0+s1+s2)%2 == 1 {
					continue
				}
				for subset := 1; subset < 8; subset++ {
					for _, tn := range tsNames {
						for _, fault := range faults {
							states := [3]int{s0, s1, s2}
							subset, tn, fault := subset, tn, fault
							id := fmt.Sprintf("st%v parts%03b ts=%s fault=%s", states, subset, tn, fault)
							s.Case(id, id, func() (string, *seqx.Viol) {
								var v *seqx.Viol
								key := ""
								br := bub.Run(t, 0, func() {
									c := mkCluster(states)
									bad := -1
									switch fault {
									case "err:p0":
										bad = 0
										c.Part("t", 0).Err = 6
									case "err:p1":
										bad = 1
										c.Part("t", 1).Err = 6
									case "down:p1":
										bad = 1
										c.BrokerByID(2).Down = true
									case "down:p2":
										bad = 2
										c.BrokerByID(3).Down = true
									}
									cl, tr := clientops.NewClient(c)
									defer tr.CloseIdleConnections()
									req := &kafka.ListOffsetsRequest{Topics: map[string][]kafka.OffsetRequest{}}
									for p := 0; p < 3; p++ {
										if subset&(1<<p) == 0 {
											continue
										}
										for _, ts := range tsSets[tn] {
											req.Topics["t"] = append(req.Topics["t"], kafka.OffsetRequest{Partition: p, Timestamp: ts})
										}
									}
									res, err := cl.ListOffsets(ctx, req)
									if err != nil {
										key = "call-error"
										if bad < 0 || subset&(1<<bad) == 0 {
											v = &seqx.Viol{Sig: "listoffsets-call-failed", Msg: fmt.Sprintf("ListOffsets failed although no requested partition is faulty: %v", err)}
										} else if subset != 1<<bad {
											v = &seqx.Viol{Sig: "listoffsets-not-isolated", Msg: fmt.Sprintf("ListOffsets over partitions %03b failed as a whole (%s) because partition %d is faulty", subset, hx.ErrString(err), bad)}
										}
										return
									}
									got := map[int]kafka.PartitionOffsets{}
									for _, po := range res.Topics["t"] {
										got[po.Partition] = po
									}
									for p := 0; p < 3; p++ {
										po, ok := got[p]
										if subset&(1<<p) == 0 {
											if ok {
												v = &seqx.Viol{Sig: "listoffsets-extra-partition", Msg: fmt.Sprintf("partition %d was not requested but is in the response", p)}
											}
											continue
										}
										if !ok {
											v = &seqx.Viol{Sig: "listoffsets-missing-partition", Msg: fmt.Sprintf("requested partition %d is missing from the response", p)}
											return
										}
										if p == bad {
											if po.Error == nil {
												v = &seqx.Viol{Sig: "listoffsets-error-lost", Msg: fmt.Sprintf("partition %d is faulty (%s) but reported without error: %+v", p, fault, po)}
												return
											}
											key += fmt.Sprintf("p%d:err ", p)
											continue
										}
										if po.Error != nil {
											v = &seqx.Viol{Sig: "listoffsets-error-spread", Msg: fmt.Sprintf("healthy partition %d reported error %v (fault %s)", p, po.Error, fault)}
											return
										}
										part := c.Part("t", p)
										wantFirst, wantLast := int64(-1), int64(-1)
										wantOffs := map[int64]bool{}
										for _, ts := range tsSets[tn] {
											switch ts {
											case kafka.FirstOffset:
												wantFirst = part.Start
											case kafka.LastOffset:
												wantLast = part.End
											default:
												o, _ := part.OffsetFor(ts)
												wantOffs[o] = true
											}
										}
										// Offsets maps each found offset to the REQUESTED timestamp (documented design of Merge); only offsets are compared
										gotOffs := map[int64]bool{}
										for o := range po.Offsets {
											gotOffs[o] = true
										}
										if po.FirstOffset != wantFirst || po.LastOffset != wantLast || fmt.Sprint(gotOffs) != fmt.Sprint(wantOffs) {
											v = &seqx.Viol{Sig: "listoffsets-wrong-value", Msg: fmt.Sprintf("partition t/%d (%s, fault %s elsewhere): got first=%d last=%d offsets=%v, cluster holds first=%d last=%d offsets=%v", p, pstates[states[p]].name, fault, po.FirstOffset, po.LastOffset, po.Offsets, wantFirst, wantLast, wantOffs)}
											return
										}
										key += fmt.Sprintf("p%d:%d/%d ", p, po.FirstOffset, po.LastOffset)
									}
								})
								if br.Panic != "" {
									return "panic", &seqx.Viol{Sig: "panic", Msg: br.Panic}
								}
								return key, v
							})
						}
					}
				}
			}
		}
	}

	// A2. one of the sub-requests a ListOffsets call is split into fails (error code or lost connection) while
	// its siblings - other timestamps of the same partition, other partitions - succeed: the partitions the
	// failed sub-request covered report an error, all others their exact values
	s.Begin("client-listoffsets-one-subrequest-fails")
	for _, tn := range []string{"first+last", "all"} {
		for k := 0; k < 9; k++ {
			for _, ans := range []string{"err:6", "err:43", "drop"} {
				tn, k, ans := tn, k, ans
				id := fmt.Sprintf("ts=%s subrequest#%d answered %s", tn, k, ans)
				s.Case(id, id, func() (string, *seqx.Viol) {
					var v *seqx.Viol
					key := ""
					br := bub.Run(t, 0, func() {
						c := mkCluster([3]int{1, 2, 1})
						seen := 0
						badParts := map[int]bool{}
						c.Script = func(e *fk.Entry) string {
							r, ok := e.Msg.(*listoffsets.Request)
							if !ok {
								return ""
							}
							seen++
							if seen-1 != k {
								return ""
							}
							for _, tp := range r.Topics {
								for _, pp := range tp.Partitions {
									badParts[int(pp.Partition)] = true
								}
							}
							return ans
						}
						cl, tr := clientops.NewClient(c)
						defer tr.CloseIdleConnections()
						req := &kafka.ListOffsetsRequest{Topics: map[string][]kafka.OffsetRequest{}}
						for p := 0; p < 3; p++ {
							for _, ts := range tsSets[tn] {
								req.Topics["t"] = append(req.Topics["t"], kafka.OffsetRequest{Partition: p, Timestamp: ts})
							}
						}
						res, err := cl.ListOffsets(ctx, req)
						if len(badParts) == 0 {
							key = "not-injected"
							return
						}
						if err != nil {
							key = "call-error"
							v = &seqx.Viol{Sig: "listoffsets-not-isolated", Msg: fmt.Sprintf("ListOffsets failed as a whole (%s) because sub-request #%d (partitions %v) was answered %s", hx.ErrString(err), k, badParts, ans)}
							return
						}
						for _, po := range res.Topics["t"] {
							part := c.Part("t", po.Partition)
							if badParts[po.Partition] {
								key += fmt.Sprintf("p%d:err=%v ", po.Partition, po.Error != nil)
								if po.Error == nil {
									v = &seqx.Viol{Sig: "listoffsets-error-lost", Msg: fmt.Sprintf("a sub-request covering partition %d was answered %s, but the partition is reported without error: first=%d last=%d offsets=%v", po.Partition, ans, po.FirstOffset, po.LastOffset, po.Offsets)}
									return
								}
								continue
							}
							if po.Error != nil || po.FirstOffset != part.Start || po.LastOffset != part.End {
								v = &seqx.Viol{Sig: "listoffsets-error-spread", Msg: fmt.Sprintf("partition %d (no sub-request of it failed) reports first=%d last=%d error=%v; the cluster holds %d..%d", po.Partition, po.FirstOffset, po.LastOffset, po.Error, part.Start, part.End)}
								return
							}
							key += fmt.Sprintf("p%d:ok ", po.Partition)
						}
					})
					if br.Panic != "" {
						return "panic", &seqx.Viol{Sig: "panic", Msg: br.Panic}
					}
					return key, v
				})
			}
		}
	}

	// B. Conn queries and Seek against a reference model
	s.Begin("conn-offsets-and-seek")
	for si, st := range pstates {
		st, si := st, si
		offs := map[int64]bool{-1: true, 0: true, 1: true, st.start - 1: true, st.start: true, st.start + 1: true, st.end - 1: true, st.end: true, st.end + 1: true}
		var ol []int64
		for o := range offs {
			ol = append(ol, o)
		}
		sort.Slice(ol, func(i, j int) bool { return ol[i] < ol[j] })
		for _, tsq := range []int64{st.ts0 - 5, st.ts0, st.ts0 + 15, st.ts0 + 1000} {
			tsq := tsq
			id := fmt.Sprintf("%s read-offsets ts=%d", st.name, tsq)
			s.Case(id, id, func() (string, *seqx.Viol) {
				var v *seqx.Viol
				bub.Run(t, 0, func() {
					c := mkCluster([3]int{si, si, si})
					conn, _ := hx.Conn(c, "t", 0)
					defer conn.Close()
					part := c.Part("t", 0)
					f, e1 := conn.ReadFirstOffset()
					l, e2 := conn.ReadLastOffset()
					a, b, e3 := conn.ReadOffsets()
					o, e4 := conn.ReadOffset(time.UnixMilli(tsq))
					wo, _ := part.OffsetFor(tsq)
					if e1 != nil || e2 != nil || e3 != nil || e4 != nil || f != part.Start || l != part.End || a != part.Start || b != part.End || o != wo {
						v = &seqx.Viol{Sig: "conn-offsets-wrong", Msg: fmt.Sprintf("partition %s: first=%d(%v) last=%d(%v) offsets=%d,%d(%v) at(%d)=%d(%v); cluster: start=%d end=%d at=%d", st.name, f, e1, l, e2, a, b, e3, tsq, o, e4, part.Start, part.End, wo)}
					}
				})
				return st.name, v
			})
		}
		// a failure concerning the partition is reported by the query it hit, and does not alter what later
		// queries on the same connection report
		type query struct {
			name string
			run  func(conn *kafka.Conn, part *fk.Partition) (string, string, error) // got, want
		}
		queries := []query{
			{"first", func(conn *kafka.Conn, part *fk.Partition) (string, string, error) {
				o, err := conn.ReadFirstOffset()
				return fmt.Sprint(o), fmt.Sprint(part.Start), err
			}},
			{"last", func(conn *kafka.Conn, part *fk.Partition) (string, string, error) {
				o, err := conn.ReadLastOffset()
				return fmt.Sprint(o), fmt.Sprint(part.End), err
			}},
			{"offsets", func(conn *kafka.Conn, part *fk.Partition) (string, string, error) {
				a, b, err := conn.ReadOffsets()
				return fmt.Sprint(a, b), fmt.Sprint(part.Start, part.End), err
			}},
			{"at", func(conn *kafka.Conn, part *fk.Partition) (string, string, error) {
				o, err := conn.ReadOffset(time.UnixMilli(st.ts0 + 15))
				wo, _ := part.OffsetFor(st.ts0 + 15)
				return fmt.Sprint(o), fmt.Sprint(wo), err
			}},
			{"seek-end", func(conn *kafka.Conn, part *fk.Partition) (string, string, error) {
				o, err := conn.Seek(0, kafka.SeekEnd)
				return fmt.Sprint(o), fmt.Sprint(part.End), err
			}},
		}
		for qi := range queries {
			for _, code := range []int16{6, 3, 5} {
				qi, code := qi, code
				id := fmt.Sprintf("%s %s answered with error %d, then every query", st.name, queries[qi].name, code)
				s.Case(id, id, func() (string, *seqx.Viol) {
					var v *seqx.Viol
					bub.Run(t, 0, func() {
						c := mkCluster([3]int{si, si, si})
						injected := false
						c.Script = func(e *fk.Entry) string {
							if e.Key == protocol.ListOffsets && !injected {
								injected = true
								return fmt.Sprintf("err:%d", code)
							}
							return ""
						}
						conn, _ := hx.Conn(c, "t", 0)
						defer conn.Close()
						part := c.Part("t", 0)
						_, _, err := queries[qi].run(conn, part)
						var ke kafka.Error
						if !errors.As(err, &ke) || int16(ke) != code {
							v = &seqx.Viol{Sig: "partition-error-not-reported", Msg: fmt.Sprintf("%s answered with error code %d returned %v", queries[qi].name, code, err)}
							return
						}
						for _, q := range queries {
							got, want, err := q.run(conn, part)
							if err != nil || got != want {
								v = &seqx.Viol{Sig: "query-after-partition-error:" + q.name, Msg: fmt.Sprintf("after %s was answered with error code %d, %s on the same connection returned (%s, %v); the cluster holds %s", queries[qi].name, code, q.name, got, err, want)}
								return
							}
						}
					})
					return st.name + ":after-error", v
				})
			}
		}
		for _, whence := range []int{kafka.SeekStart, kafka.SeekAbsolute, kafka.SeekEnd, kafka.SeekCurrent} {
			for _, dc := range []int{0, kafka.SeekDontCheck} {
				for _, o := range ol {
					whence, dc, o := whence, dc, o
					id := fmt.Sprintf("%s seek whence=%d dontcheck=%v off=%d", st.name, whence, dc != 0, o)
					s.Case(id, id, func() (string, *seqx.Viol) {
						var v *seqx.Viol
						key := ""
						bub.Run(t, 0, func() {
							c := mkCluster([3]int{si, si, si})
							conn, _ := hx.Conn(c, "t", 0)
							defer conn.Close()
							cur := int64(0)
							if whence == kafka.SeekCurrent {
								// establish a known current offset first
								cur = st.start
								if _, err := conn.Seek(cur, kafka.SeekAbsolute|kafka.SeekDontCheck); err != nil {
									v = &seqx.Viol{Sig: "seek-setup", Msg: err.Error()}
									return
								}
							}
							got, err := conn.Seek(o, whence|dc)
							var want int64
							switch whence {
							case kafka.SeekStart:
								want = st.start + o
							case kafka.SeekAbsolute:
								want = o
							case kafka.SeekEnd:
								want = st.end - o
							case kafka.SeekCurrent:
								want = cur + o
							}
							checked := dc == 0 || whence == kafka.SeekStart || whence == kafka.SeekEnd
							inRange := want >= st.start && want <= st.end
							if whence == kafka.SeekCurrent && dc == 0 && o == 0 {
								inRange = true // seeking to the current offset is a no-op
							}
							switch {
							case checked && !inRange:
								key = "out-of-range"
								if err == nil {
									v = &seqx.Viol{Sig: "seek-range-unchecked", Msg: fmt.Sprintf("Seek(%d, whence %d) on partition [%d,%d] returned %d without error, target %d is out of range", o, whence, st.start, st.end, got, want)}
								}
							default:
								key = "ok"
								if err != nil || got != want {
									v = &seqx.Viol{Sig: "seek-wrong", Msg: fmt.Sprintf("Seek(%d, whence %d, dontcheck=%v) on partition [%d,%d] (current %d) returned (%d, %v), want %d", o, whence, dc != 0, st.start, st.end, cur, got, err, want)}
								} else if co, cw := conn.Offset(); cw != kafka.SeekAbsolute && want >= 0 || (cw == kafka.SeekAbsolute && co != want) {
									v = &seqx.Viol{Sig: "seek-offset-not-stored", Msg: fmt.Sprintf("after Seek to %d, Offset() reports (%d, whence %d)", want, co, cw)}
								}
							}
						})
						return key, v
					})
				}
			}
		}
	}

	// C. committed offsets, metadata, partitions
	s.Begin("committed-offsets-and-metadata")
	commits := []map[fk.TP]int64{{}, {{"t", 0}: 4}, {{"t", 0}: 4, {"t", 2}: 0, {"u", 1}: 7}}
	for ci, cm := range commits {
		ci, cm := ci, cm
		for _, fault := range []string{"none", "unknown-partition"} {
			fault := fault
			id := fmt.Sprintf("commits#%d fault=%s", ci, fault)
			s.Case(id, id, func() (string, *seqx.Viol) {
				var v *seqx.Viol
				bub.Run(t, 0, func() {
					c := mkCluster([3]int{1, 2, 0})
					for tp, o := range cm {
						c.SetCommitted("g", tp.Topic, tp.Part, o)
					}
					c.SetCommitted("other", "t", 1, 99)
					cl, tr := clientops.NewClient(c)
					defer tr.CloseIdleConnections()
					// OffsetFetch
					r, err := cl.OffsetFetch(ctx, &kafka.OffsetFetchRequest{GroupID: "g", Topics: map[string][]int{"t": {0, 1, 2}, "u": {0, 1}}})
					if err != nil || r.Error != nil {
						v = &seqx.Viol{Sig: "offsetfetch-failed", Msg: fmt.Sprint(err, r)}
						return
					}
					for topic, ps := range r.Topics {
						for _, p := range ps {
							want, ok := cm[fk.TP{Topic: topic, Part: p.Partition}]
							if !ok {
								want = -1
							}
							if p.CommittedOffset != want || p.Error != nil {
								v = &seqx.Viol{Sig: "offsetfetch-wrong", Msg: fmt.Sprintf("OffsetFetch %s/%d = %d (%v), coordinator holds %d", topic, p.Partition, p.CommittedOffset, p.Error, want)}
								return
							}
						}
					}
					if len(r.Topics["t"]) != 3 || len(r.Topics["u"]) != 2 {
						v = &seqx.Viol{Sig: "offsetfetch-shape", Msg: fmt.Sprint(r.Topics)}
						return
					}
					// ConsumerOffsets
					co, err := cl.ConsumerOffsets(ctx, kafka.TopicAndGroup{Topic: "t", GroupId: "g"})
					if err != nil {
						v = &seqx.Viol{Sig: "consumeroffsets-failed", Msg: err.Error()}
						return
					}
					for p := 0; p < 3; p++ {
						want, ok := cm[fk.TP{Topic: "t", Part: p}]
						if !ok {
							want = -1
						}
						if co[p] != want {
							v = &seqx.Viol{Sig: "consumeroffsets-wrong", Msg: fmt.Sprintf("ConsumerOffsets t/%d = %d, coordinator holds %d", p, co[p], want)}
							return
						}
					}
					// OffsetCommit: one valid and (optionally) one unknown partition
					creq := &kafka.OffsetCommitRequest{GroupID: "g", GenerationID: -1, Topics: map[string][]kafka.OffsetCommit{"t": {{Partition: 1, Offset: 6}}, "u": {{Partition: 0, Offset: 2}}}}
					if fault == "unknown-partition" {
						creq.Topics["t"] = append(creq.Topics["t"], kafka.OffsetCommit{Partition: 9, Offset: 1})
					}
					cr, err := cl.OffsetCommit(ctx, creq)
					if err != nil {
						v = &seqx.Viol{Sig: "offsetcommit-failed", Msg: err.Error()}
						return
					}
					for topic, ps := range cr.Topics {
						for _, p := range ps {
							if (p.Partition == 9) != (p.Error != nil) {
								v = &seqx.Viol{Sig: "offsetcommit-error-placement", Msg: fmt.Sprintf("OffsetCommit %s/%d error=%v", topic, p.Partition, p.Error)}
								return
							}
						}
					}
					c.Lock()
					g := c.Groups["g"]
					o1, o2 := g.Offsets[fk.TP{Topic: "t", Part: 1}], g.Offsets[fk.TP{Topic: "u", Part: 0}]
					oth := c.Groups["other"].Offsets[fk.TP{Topic: "t", Part: 1}]
					c.Unlock()
					if o1 != 6 || o2 != 2 || oth != 99 {
						v = &seqx.Viol{Sig: "offsetcommit-not-recorded", Msg: fmt.Sprintf("after OffsetCommit the coordinator holds t/1=%d u/0=%d (want 6, 2), other group t/1=%d (want 99)", o1, o2, oth)}
						return
					}
					// Metadata and ReadPartitions
					md, err := cl.Metadata(ctx, &kafka.MetadataRequest{Topics: []string{"t", "u"}})
					if err != nil {
						v = &seqx.Viol{Sig: "metadata-failed", Msg: err.Error()}
						return
					}
					if md.Controller.ID != c.Controller || len(md.Brokers) != 3 {
						v = &seqx.Viol{Sig: "metadata-wrong", Msg: fmt.Sprintf("controller %d brokers %d", md.Controller.ID, len(md.Brokers))}
						return
					}
					for _, tp := range md.Topics {
						ct := c.Topics[tp.Name]
						if ct == nil || len(tp.Partitions) != len(ct.Parts) || tp.Error != nil {
							v = &seqx.Viol{Sig: "metadata-wrong", Msg: fmt.Sprintf("topic %s: %d partitions err=%v", tp.Name, len(tp.Partitions), tp.Error)}
							return
						}
						for _, p := range tp.Partitions {
							cp := ct.Parts[p.ID]
							if p.Leader.ID != cp.Leader || len(p.Replicas) != len(cp.Replicas) || p.Replicas[0].ID != cp.Replicas[0] || p.Topic != tp.Name {
								v = &seqx.Viol{Sig: "metadata-wrong", Msg: fmt.Sprintf("%s/%d leader %d replicas %v, cluster has leader %d replicas %v", tp.Name, p.ID, p.Leader.ID, p.Replicas, cp.Leader, cp.Replicas)}
								return
							}
						}
					}
					conn, _ := hx.Conn(c, "t", 0)
					defer conn.Close()
					ps, err := conn.ReadPartitions("t", "u")
					if err != nil || len(ps) != 5 {
						v = &seqx.Viol{Sig: "readpartitions-wrong", Msg: fmt.Sprint(len(ps), err)}
						return
					}
					for _, p := range ps {
						cp := c.Part(p.Topic, p.ID)
						if cp == nil || p.Leader.ID != cp.Leader || p.Leader.Host != c.BrokerByID(cp.Leader).Host {
							v = &seqx.Viol{Sig: "readpartitions-wrong", Msg: fmt.Sprintf("%s/%d leader %+v", p.Topic, p.ID, p.Leader)}
							return
						}
					}
				})
				return fmt.Sprint(ci, fault), v
			})
		}
	}
	s.Finish()
}
