// Package c19: offset and metadata queries against exhaustively enumerated small
// cluster states; every answer is compared with the fake cluster's state, and a
// failure concerning one partition must be reported on that partition only.
// Multi-topic queries are issued over every request shape of a small alphabet
// (1-3 topics x differing partition lists, see shapeCases).
package c19

import (
	"context"
	"errors"
	"fmt"
	"os"
	"sort"
	"testing"
	"time"

	kafka "github.com/segmentio/kafka-go"
	"github.com/segmentio/kafka-go/protocol"
	"github.com/segmentio/kafka-go/protocol/listoffsets"
	"github.com/segmentio/kafka-go/protocol/offsetcommit"
	"github.com/segmentio/kafka-go/protocol/offsetfetch"
	"github.com/segmentio/kafka-go/zzverif/vhook"

	"verif/engine/bub"
	"verif/engine/fk"
	"verif/engine/refwire"
	"verif/engine/seqx"
	"verif/harness/clientops"
	"verif/harness/hx"
)

type pstate struct {
	name       string
	start, end int64
	ts0        int64 // timestamp of the record at offset `start`; later records +10 each
}

var pstates = []pstate{{"empty", 0, 0, 0}, {"0-5", 0, 5, 1000}, {"3-9", 3, 9, 2000}}

func fill(p *fk.Partition, st pstate) {
	p.Log, p.Start, p.End = nil, st.start, st.start
	if st.end > st.start {
		b := &refwire.Batch{Format: 2, Base: st.start, Last: st.end - 1}
		for o := st.start; o < st.end; o++ {
			b.Recs = append(b.Recs, refwire.Rec{Offset: o, TS: st.ts0 + 10*(o-st.start), Value: []byte("v")})
		}
		p.Append(b)
	}
}

func mkCluster(states [3]int) *fk.Cluster {
	c := fk.New(3)
	c.Auto = true
	c.AddTopic("t", 3, func(p int) int { return p + 1 })
	c.AddTopic("u", 2, func(p int) int { return 3 - p })
	for i := 0; i < 3; i++ {
		fill(c.Part("t", i), pstates[states[i]])
	}
	fill(c.Part("u", 0), pstates[1])
	fill(c.Part("u", 1), pstates[2])
	return c
}

func TestCheck(t *testing.T) {
	s := seqx.New(t)
	thorough := os.Getenv("VERIF_TIER") == "thorough"
	ctx := context.Background()

	// A. Client.ListOffsets: every state x every non-empty subset of partitions x timestamp sets x fault
	s.Begin("client-listoffsets")
	tsSets := map[string][]int64{"first": {kafka.FirstOffset}, "last": {kafka.LastOffset}, "first+last": {kafka.FirstOffset, kafka.LastOffset}, "time": {1015}, "all": {kafka.FirstOffset, kafka.LastOffset, 2030}}
	var tsNames []string
	for k := range tsSets {
		tsNames = append(tsNames, k)
	}
	sort.Strings(tsNames)
	faults := []string{"none", "err:p0", "err:p1", "down:p1", "down:p2"}
	for s0 := 0; s0 < 3; s0++ {
		for s1 := 0; s1 < 3; s1++ {
			for s2 := 0; s2 < 3; s2++ {
				if !thorough && (s0+s1+s2)%2 == 1 {
					continue
				}
				for subset := 1; subset < 8; subset++ {
					for _, tn := range tsNames {
						for _, fault := range faults {
							states := [3]int{s0, s1, s2}
							subset, tn, fault := subset, tn, fault
							id := fmt.Sprintf("st%v parts%03b ts=%s fault=%s", states, subset, tn, fault)
							s.Case(id, id, func() (string, *seqx.Viol) {
								var v *seqx.Viol
								key := ""
								br := bub.Run(t, 0, func() {
									c := mkCluster(states)
									bad := -1
									switch fault {
									case "err:p0":
										bad = 0
										c.Part("t", 0).Err = 6
									case "err:p1":
										bad = 1
										c.Part("t", 1).Err = 6
									case "down:p1":
										bad = 1
										c.BrokerByID(2).Down = true
									case "down:p2":
										bad = 2
										c.BrokerByID(3).Down = true
									}
									cl, tr := clientops.NewClient(c)
									defer tr.CloseIdleConnections()
									req := &kafka.ListOffsetsRequest{Topics: map[string][]kafka.OffsetRequest{}}
									for p := 0; p < 3; p++ {
										if subset&(1<<p) == 0 {
											continue
										}
										for _, ts := range tsSets[tn] {
											req.Topics["t"] = append(req.Topics["t"], kafka.OffsetRequest{Partition: p, Timestamp: ts})
										}
									}
									res, err := cl.ListOffsets(ctx, req)
									if err != nil {
										key = "call-error"
										if bad < 0 || subset&(1<<bad) == 0 {
											v = &seqx.Viol{Sig: "listoffsets-call-failed", Msg: fmt.Sprintf("ListOffsets failed although no requested partition is faulty: %v", err)}
										} else if subset != 1<<bad {
											v = &seqx.Viol{Sig: "listoffsets-not-isolated", Msg: fmt.Sprintf("ListOffsets over partitions %03b failed as a whole (%s) because partition %d is faulty", subset, hx.ErrString(err), bad)}
										}
										return
									}
									got := map[int]kafka.PartitionOffsets{}
									for _, po := range res.Topics["t"] {
										got[po.Partition] = po
									}
									for p := 0; p < 3; p++ {
										po, ok := got[p]
										if subset&(1<<p) == 0 {
											if ok {
												v = &seqx.Viol{Sig: "listoffsets-extra-partition", Msg: fmt.Sprintf("partition %d was not requested but is in the response", p)}
											}
											continue
										}
										if !ok {
											v = &seqx.Viol{Sig: "listoffsets-missing-partition", Msg: fmt.Sprintf("requested partition %d is missing from the response", p)}
											return
										}
										if p == bad {
											if po.Error == nil {
												v = &seqx.Viol{Sig: "listoffsets-error-lost", Msg: fmt.Sprintf("partition %d is faulty (%s) but reported without error: %+v", p, fault, po)}
												return
											}
											key += fmt.Sprintf("p%d:err ", p)
											continue
										}
										if po.Error != nil {
											v = &seqx.Viol{Sig: "listoffsets-error-spread", Msg: fmt.Sprintf("healthy partition %d reported error %v (fault %s)", p, po.Error, fault)}
											return
										}
										part := c.Part("t", p)
										wantFirst, wantLast := int64(-1), int64(-1)
										wantOffs := map[int64]bool{}
										for _, ts := range tsSets[tn] {
											switch ts {
											case kafka.FirstOffset:
												wantFirst = part.Start
											case kafka.LastOffset:
												wantLast = part.End
											default:
												o, _ := part.OffsetFor(ts)
												wantOffs[o] = true
											}
										}
										// Offsets maps each found offset to the REQUESTED timestamp (documented design of Merge); only offsets are compared
										gotOffs := map[int64]bool{}
										for o := range po.Offsets {
											gotOffs[o] = true
										}
										if po.FirstOffset != wantFirst || po.LastOffset != wantLast || fmt.Sprint(gotOffs) != fmt.Sprint(wantOffs) {
											v = &seqx.Viol{Sig: "listoffsets-wrong-value", Msg: fmt.Sprintf("partition t/%d (%s, fault %s elsewhere): got first=%d last=%d offsets=%v, cluster holds first=%d last=%d offsets=%v", p, pstates[states[p]].name, fault, po.FirstOffset, po.LastOffset, po.Offsets, wantFirst, wantLast, wantOffs)}
											return
										}
										key += fmt.Sprintf("p%d:%d/%d ", p, po.FirstOffset, po.LastOffset)
									}
								})
								if br.Panic != "" {
									return "panic", &seqx.Viol{Sig: "panic", Msg: br.Panic}
								}
								return key, v
							})
						}
					}
				}
			}
		}
	}

	// A2. one of the sub-requests a ListOffsets call is split into fails (error code or lost connection) while
	// its siblings - other timestamps of the same partition, other partitions - succeed: the partitions the
	// failed sub-request covered report an error, all others their exact values
	s.Begin("client-listoffsets-one-subrequest-fails")
	for _, tn := range []string{"first+last", "all"} {
		for k := 0; k < 9; k++ {
			for _, ans := range []string{"err:6", "err:43", "drop"} {
				tn, k, ans := tn, k, ans
				id := fmt.Sprintf("ts=%s subrequest#%d answered %s", tn, k, ans)
				s.Case(id, id, func() (string, *seqx.Viol) {
					var v *seqx.Viol
					key := ""
					br := bub.Run(t, 0, func() {
						c := mkCluster([3]int{1, 2, 1})
						seen := 0
						badParts := map[int]bool{}
						c.Script = func(e *fk.Entry) string {
							r, ok := e.Msg.(*listoffsets.Request)
							if !ok {
								return ""
							}
							seen++
							if seen-1 != k {
								return ""
							}
							for _, tp := range r.Topics {
								for _, pp := range tp.Partitions {
									badParts[int(pp.Partition)] = true
								}
							}
							return ans
						}
						cl, tr := clientops.NewClient(c)
						defer tr.CloseIdleConnections()
						req := &kafka.ListOffsetsRequest{Topics: map[string][]kafka.OffsetRequest{}}
						for p := 0; p < 3; p++ {
							for _, ts := range tsSets[tn] {
								req.Topics["t"] = append(req.Topics["t"], kafka.OffsetRequest{Partition: p, Timestamp: ts})
							}
						}
						res, err := cl.ListOffsets(ctx, req)
						if len(badParts) == 0 {
							key = "not-injected"
							return
						}
						if err != nil {
							key = "call-error"
							v = &seqx.Viol{Sig: "listoffsets-not-isolated", Msg: fmt.Sprintf("ListOffsets failed as a whole (%s) because sub-request #%d (partitions %v) was answered %s", hx.ErrString(err), k, badParts, ans)}
							return
						}
						for _, po := range res.Topics["t"] {
							part := c.Part("t", po.Partition)
							if badParts[po.Partition] {
								key += fmt.Sprintf("p%d:err=%v ", po.Partition, po.Error != nil)
								if po.Error == nil {
									v = &seqx.Viol{Sig: "listoffsets-error-lost", Msg: fmt.Sprintf("a sub-request covering partition %d was answered %s, but the partition is reported without error: first=%d last=%d offsets=%v", po.Partition, ans, po.FirstOffset, po.LastOffset, po.Offsets)}
									return
								}
								continue
							}
							if po.Error != nil || po.FirstOffset != part.Start || po.LastOffset != part.End {
								v = &seqx.Viol{Sig: "listoffsets-error-spread", Msg: fmt.Sprintf("partition %d (no sub-request of it failed) reports first=%d last=%d error=%v; the cluster holds %d..%d", po.Partition, po.FirstOffset, po.LastOffset, po.Error, part.Start, part.End)}
								return
							}
							key += fmt.Sprintf("p%d:ok ", po.Partition)
						}
					})
					if br.Panic != "" {
						return "panic", &seqx.Viol{Sig: "panic", Msg: br.Panic}
					}
					return key, v
				})
			}
		}
	}

	// B. Conn queries and Seek against a reference model
	s.Begin("conn-offsets-and-seek")
	for si, st := range pstates {
		st, si := st, si
		offs := map[int64]bool{-1: true, 0: true, 1: true, st.start - 1: true, st.start: true, st.start + 1: true, st.end - 1: true, st.end: true, st.end + 1: true}
		var ol []int64
		for o := range offs {
			ol = append(ol, o)
		}
		sort.Slice(ol, func(i, j int) bool { return ol[i] < ol[j] })
		for _, tsq := range []int64{st.ts0 - 5, st.ts0, st.ts0 + 15, st.ts0 + 1000} {
			tsq := tsq
			id := fmt.Sprintf("%s read-offsets ts=%d", st.name, tsq)
			s.Case(id, id, func() (string, *seqx.Viol) {
				var v *seqx.Viol
				bub.Run(t, 0, func() {
					c := mkCluster([3]int{si, si, si})
					conn, _ := hx.Conn(c, "t", 0)
					defer conn.Close()
					part := c.Part("t", 0)
					f, e1 := conn.ReadFirstOffset()
					l, e2 := conn.ReadLastOffset()
					a, b, e3 := conn.ReadOffsets()
					o, e4 := conn.ReadOffset(time.UnixMilli(tsq))
					wo, _ := part.OffsetFor(tsq)
					if e1 != nil || e2 != nil || e3 != nil || e4 != nil || f != part.Start || l != part.End || a != part.Start || b != part.End || o != wo {
						v = &seqx.Viol{Sig: "conn-offsets-wrong", Msg: fmt.Sprintf("partition %s: first=%d(%v) last=%d(%v) offsets=%d,%d(%v) at(%d)=%d(%v); cluster: start=%d end=%d at=%d", st.name, f, e1, l, e2, a, b, e3, tsq, o, e4, part.Start, part.End, wo)}
					}
				})
				return st.name, v
			})
		}
		// a failure concerning the partition is reported by the query it hit, and does not alter what later
		// queries on the same connection report
		type query struct {
			name string
			run  func(conn *kafka.Conn, part *fk.Partition) (string, string, error) // got, want
		}
		queries := []query{
			{"first", func(conn *kafka.Conn, part *fk.Partition) (string, string, error) {
				o, err := conn.ReadFirstOffset()
				return fmt.Sprint(o), fmt.Sprint(part.Start), err
			}},
			{"last", func(conn *kafka.Conn, part *fk.Partition) (string, string, error) {
				o, err := conn.ReadLastOffset()
				return fmt.Sprint(o), fmt.Sprint(part.End), err
			}},
			{"offsets", func(conn *kafka.Conn, part *fk.Partition) (string, string, error) {
				a, b, err := conn.ReadOffsets()
				return fmt.Sprint(a, b), fmt.Sprint(part.Start, part.End), err
			}},
			{"at", func(conn *kafka.Conn, part *fk.Partition) (string, string, error) {
				o, err := conn.ReadOffset(time.UnixMilli(st.ts0 + 15))
				wo, _ := part.OffsetFor(st.ts0 + 15)
				return fmt.Sprint(o), fmt.Sprint(wo), err
			}},
			{"seek-end", func(conn *kafka.Conn, part *fk.Partition) (string, string, error) {
				o, err := conn.Seek(0, kafka.SeekEnd)
				return fmt.Sprint(o), fmt.Sprint(part.End), err
			}},
		}
		for qi := range queries {
			for _, code := range []int16{6, 3, 5} {
				qi, code := qi, code
				id := fmt.Sprintf("%s %s answered with error %d, then every query", st.name, queries[qi].name, code)
				s.Case(id, id, func() (string, *seqx.Viol) {
					var v *seqx.Viol
					bub.Run(t, 0, func() {
						c := mkCluster([3]int{si, si, si})
						injected := false
						c.Script = func(e *fk.Entry) string {
							if e.Key == protocol.ListOffsets && !injected {
								injected = true
								return fmt.Sprintf("err:%d", code)
							}
							return ""
						}
						conn, _ := hx.Conn(c, "t", 0)
						defer conn.Close()
						part := c.Part("t", 0)
						_, _, err := queries[qi].run(conn, part)
						var ke kafka.Error
						if !errors.As(err, &ke) || int16(ke) != code {
							v = &seqx.Viol{Sig: "partition-error-not-reported", Msg: fmt.Sprintf("%s answered with error code %d returned %v", queries[qi].name, code, err)}
							return
						}
						for _, q := range queries {
							got, want, err := q.run(conn, part)
							if err != nil || got != want {
								v = &seqx.Viol{Sig: "query-after-partition-error:" + q.name, Msg: fmt.Sprintf("after %s was answered with error code %d, %s on the same connection returned (%s, %v); the cluster holds %s", queries[qi].name, code, q.name, got, err, want)}
								return
							}
						}
					})
					return st.name + ":after-error", v
				})
			}
		}
		for _, whence := range []int{kafka.SeekStart, kafka.SeekAbsolute, kafka.SeekEnd, kafka.SeekCurrent} {
			for _, dc := range []int{0, kafka.SeekDontCheck} {
				for _, o := range ol {
					whence, dc, o := whence, dc, o
					id := fmt.Sprintf("%s seek whence=%d dontcheck=%v off=%d", st.name, whence, dc != 0, o)
					s.Case(id, id, func() (string, *seqx.Viol) {
						var v *seqx.Viol
						key := ""
						bub.Run(t, 0, func() {
							c := mkCluster([3]int{si, si, si})
							conn, _ := hx.Conn(c, "t", 0)
							defer conn.Close()
							cur := int64(0)
							if whence == kafka.SeekCurrent {
								// establish a known current offset first
								cur = st.start
								if _, err := conn.Seek(cur, kafka.SeekAbsolute|kafka.SeekDontCheck); err != nil {
									v = &seqx.Viol{Sig: "seek-setup", Msg: err.Error()}
									return
								}
							}
							got, err := conn.Seek(o, whence|dc)
							var want int64
							switch whence {
							case kafka.SeekStart:
								want = st.start + o
							case kafka.SeekAbsolute:
								want = o
							case kafka.SeekEnd:
								want = st.end - o
							case kafka.SeekCurrent:
								want = cur + o
							}
							checked := dc == 0 || whence == kafka.SeekStart || whence == kafka.SeekEnd
							inRange := want >= st.start && want <= st.end
							if whence == kafka.SeekCurrent && dc == 0 && o == 0 {
								inRange = true // seeking to the current offset is a no-op
							}
							switch {
							case checked && !inRange:
								key = "out-of-range"
								if err == nil {
									v = &seqx.Viol{Sig: "seek-range-unchecked", Msg: fmt.Sprintf("Seek(%d, whence %d) on partition [%d,%d] returned %d without error, target %d is out of range", o, whence, st.start, st.end, got, want)}
								}
							default:
								key = "ok"
								if err != nil || got != want {
									v = &seqx.Viol{Sig: "seek-wrong", Msg: fmt.Sprintf("Seek(%d, whence %d, dontcheck=%v) on partition [%d,%d] (current %d) returned (%d, %v), want %d", o, whence, dc != 0, st.start, st.end, cur, got, err, want)}
								} else if co, cw := conn.Offset(); cw != kafka.SeekAbsolute && want >= 0 || (cw == kafka.SeekAbsolute && co != want) {
									v = &seqx.Viol{Sig: "seek-offset-not-stored", Msg: fmt.Sprintf("after Seek to %d, Offset() reports (%d, whence %d)", want, co, cw)}
								}
							}
						})
						return key, v
					})
				}
			}
		}
	}

	// C. committed offsets, metadata, partitions
	s.Begin("committed-offsets-and-metadata")
	commits := []map[fk.TP]int64{{}, {{"t", 0}: 4}, {{"t", 0}: 4, {"t", 2}: 0, {"u", 1}: 7}}
	for ci, cm := range commits {
		ci, cm := ci, cm
		for _, fault := range []string{"none", "unknown-partition"} {
			fault := fault
			id := fmt.Sprintf("commits#%d fault=%s", ci, fault)
			s.Case(id, id, func() (string, *seqx.Viol) {
				var v *seqx.Viol
				bub.Run(t, 0, func() {
					c := mkCluster([3]int{1, 2, 0})
					for tp, o := range cm {
						c.SetCommitted("g", tp.Topic, tp.Part, o)
					}
					c.SetCommitted("other", "t", 1, 99)
					cl, tr := clientops.NewClient(c)
					defer tr.CloseIdleConnections()
					// OffsetFetch
					r, err := cl.OffsetFetch(ctx, &kafka.OffsetFetchRequest{GroupID: "g", Topics: map[string][]int{"t": {0, 1, 2}, "u": {0, 1}}})
					if err != nil || r.Error != nil {
						v = &seqx.Viol{Sig: "offsetfetch-failed", Msg: fmt.Sprint(err, r)}
						return
					}
					for topic, ps := range r.Topics {
						for _, p := range ps {
							want, ok := cm[fk.TP{Topic: topic, Part: p.Partition}]
							if !ok {
								want = -1
							}
							if p.CommittedOffset != want || p.Error != nil {
								v = &seqx.Viol{Sig: "offsetfetch-wrong", Msg: fmt.Sprintf("OffsetFetch %s/%d = %d (%v), coordinator holds %d", topic, p.Partition, p.CommittedOffset, p.Error, want)}
								return
							}
						}
					}
					if len(r.Topics["t"]) != 3 || len(r.Topics["u"]) != 2 {
						v = &seqx.Viol{Sig: "offsetfetch-shape", Msg: fmt.Sprint(r.Topics)}
						return
					}
					// ConsumerOffsets
					co, err := cl.ConsumerOffsets(ctx, kafka.TopicAndGroup{Topic: "t", GroupId: "g"})
					if err != nil {
						v = &seqx.Viol{Sig: "consumeroffsets-failed", Msg: err.Error()}
						return
					}
					for p := 0; p < 3; p++ {
						want, ok := cm[fk.TP{Topic: "t", Part: p}]
						if !ok {
							want = -1
						}
						if co[p] != want {
							v = &seqx.Viol{Sig: "consumeroffsets-wrong", Msg: fmt.Sprintf("ConsumerOffsets t/%d = %d, coordinator holds %d", p, co[p], want)}
							return
						}
					}
					// OffsetCommit: one valid and (optionally) one unknown partition
					creq := &kafka.OffsetCommitRequest{GroupID: "g", GenerationID: -1, Topics: map[string][]kafka.OffsetCommit{"t": {{Partition: 1, Offset: 6}}, "u": {{Partition: 0, Offset: 2}}}}
					if fault == "unknown-partition" {
						creq.Topics["t"] = append(creq.Topics["t"], kafka.OffsetCommit{Partition: 9, Offset: 1})
					}
					cr, err := cl.OffsetCommit(ctx, creq)
					if err != nil {
						v = &seqx.Viol{Sig: "offsetcommit-failed", Msg: err.Error()}
						return
					}
					for topic, ps := range cr.Topics {
						for _, p := range ps {
							if (p.Partition == 9) != (p.Error != nil) {
								v = &seqx.Viol{Sig: "offsetcommit-error-placement", Msg: fmt.Sprintf("OffsetCommit %s/%d error=%v", topic, p.Partition, p.Error)}
								return
							}
						}
					}
					c.Lock()
					g := c.Groups["g"]
					o1, o2 := g.Offsets[fk.TP{Topic: "t", Part: 1}], g.Offsets[fk.TP{Topic: "u", Part: 0}]
					oth := c.Groups["other"].Offsets[fk.TP{Topic: "t", Part: 1}]
					c.Unlock()
					if o1 != 6 || o2 != 2 || oth != 99 {
						v = &seqx.Viol{Sig: "offsetcommit-not-recorded", Msg: fmt.Sprintf("after OffsetCommit the coordinator holds t/1=%d u/0=%d (want 6, 2), other group t/1=%d (want 99)", o1, o2, oth)}
						return
					}
					// Metadata and ReadPartitions
					md, err := cl.Metadata(ctx, &kafka.MetadataRequest{Topics: []string{"t", "u"}})
					if err != nil {
						v = &seqx.Viol{Sig: "metadata-failed", Msg: err.Error()}
						return
					}
					if md.Controller.ID != c.Controller || len(md.Brokers) != 3 {
						v = &seqx.Viol{Sig: "metadata-wrong", Msg: fmt.Sprintf("controller %d brokers %d", md.Controller.ID, len(md.Brokers))}
						return
					}
					for _, tp := range md.Topics {
						ct := c.Topics[tp.Name]
						if ct == nil || len(tp.Partitions) != len(ct.Parts) || tp.Error != nil {
							v = &seqx.Viol{Sig: "metadata-wrong", Msg: fmt.Sprintf("topic %s: %d partitions err=%v", tp.Name, len(tp.Partitions), tp.Error)}
							return
						}
						for _, p := range tp.Partitions {
							cp := ct.Parts[p.ID]
							if p.Leader.ID != cp.Leader || len(p.Replicas) != len(cp.Replicas) || p.Replicas[0].ID != cp.Replicas[0] || p.Topic != tp.Name {
								v = &seqx.Viol{Sig: "metadata-wrong", Msg: fmt.Sprintf("%s/%d leader %d replicas %v, cluster has leader %d replicas %v", tp.Name, p.ID, p.Leader.ID, p.Replicas, cp.Leader, cp.Replicas)}
								return
							}
						}
					}
					conn, _ := hx.Conn(c, "t", 0)
					defer conn.Close()
					ps, err := conn.ReadPartitions("t", "u")
					if err != nil || len(ps) != 5 {
						v = &seqx.Viol{Sig: "readpartitions-wrong", Msg: fmt.Sprint(len(ps), err)}
						return
					}
					for _, p := range ps {
						cp := c.Part(p.Topic, p.ID)
						if cp == nil || p.Leader.ID != cp.Leader || p.Leader.Host != c.BrokerByID(cp.Leader).Host {
							v = &seqx.Viol{Sig: "readpartitions-wrong", Msg: fmt.Sprintf("%s/%d leader %+v", p.Topic, p.ID, p.Leader)}
							return
						}
					}
				})
				return fmt.Sprint(ci, fault), v
			})
		}
	}
	shapeCases(t, s, thorough)
	seekSeqCases(t, s, thorough)
	s.Finish()
}

// D. request shapes. Every multi-topic, multi-partition query of the Client (OffsetFetch, ListOffsets,
// OffsetCommit, Metadata) and Conn.ReadPartitions over every request shape of a small alphabet: 1..3 topics,
// each with a partition list drawn from shapeLists (different lists, lengths and orders per topic, including a
// partition that does not exist), under every order in which the library may walk the request's topic map.
// The answer must cover exactly the topics and partitions asked for, each with the value the cluster holds
// for it, and the requests that reached the brokers must ask for what the caller asked for.
var shapeLists = [][]int{{0}, {1}, {0, 1, 2}, {2, 0}, {5}}
var shapeTopics = []string{"a", "b", "c"}

func shapeStart(ti, p int) int64 { return int64(10*ti + p) }
func shapeEnd(ti, p int) int64   { return shapeStart(ti, p) + int64(1+p+ti) }

// shapeCommitted: what group g has committed for a partition before the query (-1: nothing)
func shapeCommitted(ti, p int) int64 {
	if p > 2 || (ti+p)%3 == 2 {
		return -1
	}
	return int64(100*ti + 10*p + 1)
}

func mkShapeCluster() *fk.Cluster {
	c := fk.New(3)
	c.Auto = true
	for ti, name := range shapeTopics {
		ti := ti
		c.AddTopic(name, 3, func(p int) int { return (p+ti)%3 + 1 })
		for p := 0; p < 3; p++ {
			fill(c.Part(name, p), pstate{"", shapeStart(ti, p), shapeEnd(ti, p), int64(1000*(ti+1) + 100*p)})
			if o := shapeCommitted(ti, p); o >= 0 {
				c.SetCommitted("g", name, p, o)
			}
		}
	}
	c.SetCommitted("other", "a", 1, 99)
	return c
}

type shape struct {
	topics []string // in the order the lists were dealt
	lists  map[string][]int
}

func (sh shape) String() string {
	s := ""
	for _, t := range sh.topics {
		s += fmt.Sprintf("%s:%v ", t, sh.lists[t])
	}
	return s
}

// shapes with exactly k topics: every assignment of a list of the alphabet to each of the first k topics
func shapesOf(k int) []shape {
	var out []shape
	idx := make([]int, k)
	for {
		sh := shape{lists: map[string][]int{}}
		for i := 0; i < k; i++ {
			sh.topics = append(sh.topics, shapeTopics[i])
			sh.lists[shapeTopics[i]] = shapeLists[idx[i]]
		}
		out = append(out, sh)
		i := k - 1
		for ; i >= 0; i-- {
			idx[i]++
			if idx[i] < len(shapeLists) {
				break
			}
			idx[i] = 0
		}
		if i < 0 {
			return out
		}
	}
}

func sortedInts(l []int) string {
	c := append([]int(nil), l...)
	sort.Ints(c)
	return fmt.Sprint(c)
}

func topicIndex(name string) int {
	for i, n := range shapeTopics {
		if n == name {
			return i
		}
	}
	return -1
}

func shapeCases(t *testing.T, s *seqx.Suite, thorough bool) {
	ctx := context.Background()
	s.Begin("request-shapes")
	maxTopics, orders := 2, 2
	if thorough {
		maxTopics, orders = 3, 6
	}
	type shapeOp struct {
		name string
		run  func(c *fk.Cluster, cl *kafka.Client, sh shape) *seqx.Viol
	}
	ops := []shapeOp{
		{"offset-fetch", func(c *fk.Cluster, cl *kafka.Client, sh shape) *seqx.Viol {
			req := &kafka.OffsetFetchRequest{GroupID: "g", Topics: map[string][]int{}}
			for tn, l := range sh.lists {
				req.Topics[tn] = append([]int(nil), l...)
			}
			r, err := cl.OffsetFetch(ctx, req)
			if err != nil || r.Error != nil {
				return &seqx.Viol{Sig: "offsetfetch-failed", Msg: fmt.Sprintf("OffsetFetch %v failed: %v %+v", sh, err, r)}
			}
			sent := map[string][]int{}
			nreq := 0
			for _, e := range c.Journal {
				if w, ok := e.Msg.(*offsetfetch.Request); ok {
					nreq++
					for _, wt := range w.Topics {
						for _, p := range wt.PartitionIndexes {
							sent[wt.Name] = append(sent[wt.Name], int(p))
						}
					}
				}
			}
			wire := fmt.Sprintf(" (the request that reached the coordinator asked for %v)", sent)
			if len(r.Topics) != len(sh.lists) {
				return &seqx.Viol{Sig: "offsetfetch-shape", Msg: fmt.Sprintf("OffsetFetch %v reported topics %v", sh, r.Topics) + wire}
			}
			for _, tn := range sh.topics {
				l := sh.lists[tn]
				var got []int
				for _, p := range r.Topics[tn] {
					got = append(got, p.Partition)
					if want := shapeCommitted(topicIndex(tn), p.Partition); p.CommittedOffset != want || p.Error != nil {
						return &seqx.Viol{Sig: "offsetfetch-wrong", Msg: fmt.Sprintf("OffsetFetch %v: %s/%d = %d (%v), the coordinator holds %d", sh, tn, p.Partition, p.CommittedOffset, p.Error, want) + wire}
					}
				}
				if sortedInts(got) != sortedInts(l) {
					return &seqx.Viol{Sig: "offsetfetch-shape", Msg: fmt.Sprintf("OffsetFetch %v: topic %s reports partitions %v, asked for %v", sh, tn, got, l) + wire}
				}
			}
			for _, tn := range sh.topics {
				if nreq != 1 || len(sent) != len(sh.lists) || sortedInts(sent[tn]) != sortedInts(sh.lists[tn]) {
					return &seqx.Viol{Sig: "offsetfetch-request-altered", Msg: fmt.Sprintf("OffsetFetch was asked for %v; the request(s) that reached the coordinator (%d) asked for %v", sh, nreq, sent)}
				}
			}
			return nil
		}},
		{"list-offsets", func(c *fk.Cluster, cl *kafka.Client, sh shape) *seqx.Viol {
			req := &kafka.ListOffsetsRequest{Topics: map[string][]kafka.OffsetRequest{}}
			type want struct {
				tn string
				p  int
				ts int64
			}
			wantSent := map[want]int{}
			for tn, l := range sh.lists {
				for _, p := range l {
					at := int64(1000*(topicIndex(tn)+1) + 100*p + 10) // the second record, if the partition has one
					req.Topics[tn] = append(req.Topics[tn], kafka.FirstOffsetOf(p), kafka.LastOffsetOf(p), kafka.TimeOffsetOf(p, time.UnixMilli(at)))
					if p <= 2 {
						wantSent[want{tn, p, kafka.FirstOffset}]++
						wantSent[want{tn, p, kafka.LastOffset}]++
						wantSent[want{tn, p, at}]++
					}
				}
			}
			r, err := cl.ListOffsets(ctx, req)
			if err != nil {
				onlyUnknown := true
				for _, l := range sh.lists {
					for _, p := range l {
						onlyUnknown = onlyUnknown && p > 2
					}
				}
				if onlyUnknown {
					return nil // nothing but a partition that does not exist was asked for
				}
				return &seqx.Viol{Sig: "listoffsets-not-isolated", Msg: fmt.Sprintf("ListOffsets %v failed as a whole: %s", sh, hx.ErrString(err))}
			}
			sent := map[want]int{}
			for _, e := range c.Journal {
				if w, ok := e.Msg.(*listoffsets.Request); ok {
					for _, wt := range w.Topics {
						for _, wp := range wt.Partitions {
							if wp.Partition <= 2 {
								// (whether and where a partition that does not exist is asked about is the library's business)
								sent[want{wt.Topic, int(wp.Partition), wp.Timestamp}]++
							}
							if part := c.Part(wt.Topic, int(wp.Partition)); part != nil && part.Leader != e.Broker {
								return &seqx.Viol{Sig: "listoffsets-wrong-broker", Msg: fmt.Sprintf("ListOffsets %v: the query for %s/%d went to broker %d, its leader is %d", sh, wt.Topic, wp.Partition, e.Broker, part.Leader)}
							}
						}
					}
				}
			}
			if fmt.Sprint(sent) != fmt.Sprint(wantSent) {
				return &seqx.Viol{Sig: "listoffsets-request-altered", Msg: fmt.Sprintf("ListOffsets was asked for %v (first, last and one timestamp each); the brokers were asked for %v, expected %v", sh, sent, wantSent)}
			}
			if len(r.Topics) != len(sh.lists) {
				return &seqx.Viol{Sig: "listoffsets-shape", Msg: fmt.Sprintf("ListOffsets %v reported topics %v", sh, r.Topics)}
			}
			for _, tn := range sh.topics {
				l := sh.lists[tn]
				ti := topicIndex(tn)
				var got []int
				for _, po := range r.Topics[tn] {
					got = append(got, po.Partition)
					if po.Partition > 2 {
						if po.Error == nil {
							return &seqx.Viol{Sig: "listoffsets-error-lost", Msg: fmt.Sprintf("ListOffsets %v: %s/%d does not exist but is reported without error: %+v", sh, tn, po.Partition, po)}
						}
						continue
					}
					part := c.Part(tn, po.Partition)
					wo, _ := part.OffsetFor(int64(1000*(ti+1) + 100*po.Partition + 10))
					var offs []int64
					for o := range po.Offsets {
						offs = append(offs, o)
					}
					if po.Error != nil || po.FirstOffset != part.Start || po.LastOffset != part.End || len(offs) != 1 || offs[0] != wo {
						return &seqx.Viol{Sig: "listoffsets-wrong-value", Msg: fmt.Sprintf("ListOffsets %v: %s/%d reports first=%d last=%d offsets=%v error=%v; the cluster holds first=%d last=%d at-timestamp=%d", sh, tn, po.Partition, po.FirstOffset, po.LastOffset, po.Offsets, po.Error, part.Start, part.End, wo)}
					}
				}
				if sortedInts(got) != sortedInts(l) {
					return &seqx.Viol{Sig: "listoffsets-shape", Msg: fmt.Sprintf("ListOffsets %v: topic %s reports partitions %v, asked for %v", sh, tn, got, l)}
				}
			}
			return nil
		}},
		{"offset-commit", func(c *fk.Cluster, cl *kafka.Client, sh shape) *seqx.Viol {
			req := &kafka.OffsetCommitRequest{GroupID: "g", GenerationID: -1, Topics: map[string][]kafka.OffsetCommit{}}
			newOff := func(ti, p int) int64 { return int64(1000 + 100*ti + 10*p) }
			for tn, l := range sh.lists {
				for _, p := range l {
					req.Topics[tn] = append(req.Topics[tn], kafka.OffsetCommit{Partition: p, Offset: newOff(topicIndex(tn), p)})
				}
			}
			r, err := cl.OffsetCommit(ctx, req)
			if err != nil {
				return &seqx.Viol{Sig: "offsetcommit-failed", Msg: fmt.Sprintf("OffsetCommit %v failed: %v", sh, err)}
			}
			sent := map[string]string{}
			nreq := 0
			for _, e := range c.Journal {
				if w, ok := e.Msg.(*offsetcommit.Request); ok {
					nreq++
					for _, wt := range w.Topics {
						var l []string
						for _, wp := range wt.Partitions {
							l = append(l, fmt.Sprintf("%d=%d", wp.PartitionIndex, wp.CommittedOffset))
						}
						sort.Strings(l)
						sent[wt.Name] += fmt.Sprint(l)
					}
				}
			}
			wantSent := map[string]string{}
			for tn, l := range sh.lists {
				var w []string
				for _, p := range l {
					w = append(w, fmt.Sprintf("%d=%d", p, newOff(topicIndex(tn), p)))
				}
				sort.Strings(w)
				wantSent[tn] = fmt.Sprint(w)
			}
			if nreq != 1 || fmt.Sprint(sent) != fmt.Sprint(wantSent) {
				return &seqx.Viol{Sig: "offsetcommit-request-altered", Msg: fmt.Sprintf("OffsetCommit was asked to commit %v; the request(s) that reached the coordinator (%d) carried %v", wantSent, nreq, sent)}
			}
			if len(r.Topics) != len(sh.lists) {
				return &seqx.Viol{Sig: "offsetcommit-shape", Msg: fmt.Sprintf("OffsetCommit %v reported topics %v", sh, r.Topics)}
			}
			for _, tn := range sh.topics {
				l := sh.lists[tn]
				var got []int
				for _, p := range r.Topics[tn] {
					got = append(got, p.Partition)
					if (p.Partition > 2) != (p.Error != nil) {
						return &seqx.Viol{Sig: "offsetcommit-error-placement", Msg: fmt.Sprintf("OffsetCommit %v: %s/%d error=%v", sh, tn, p.Partition, p.Error)}
					}
				}
				if sortedInts(got) != sortedInts(l) {
					return &seqx.Viol{Sig: "offsetcommit-shape", Msg: fmt.Sprintf("OffsetCommit %v: topic %s reports partitions %v, asked for %v", sh, tn, got, l)}
				}
			}
			// the coordinator holds the new offsets for exactly the partitions named, everything else is untouched
			c.Lock()
			defer c.Unlock()
			g := c.Groups["g"]
			for ti, tn := range shapeTopics {
				for p := 0; p < 3; p++ {
					want := shapeCommitted(ti, p)
					for _, q := range sh.lists[tn] {
						if q == p {
							want = newOff(ti, p)
						}
					}
					got, ok := g.Offsets[fk.TP{Topic: tn, Part: p}]
					if !ok {
						got = -1
					}
					if got != want {
						return &seqx.Viol{Sig: "offsetcommit-not-recorded", Msg: fmt.Sprintf("after OffsetCommit %v the coordinator holds %s/%d=%d, expected %d", sh, tn, p, got, want)}
					}
				}
			}
			if oth := c.Groups["other"].Offsets[fk.TP{Topic: "a", Part: 1}]; oth != 99 {
				return &seqx.Viol{Sig: "offsetcommit-not-recorded", Msg: fmt.Sprintf("OffsetCommit for group g changed a/1 of another group to %d", oth)}
			}
			return nil
		}},
	}
	for k := 1; k <= maxTopics; k++ {
		for _, sh := range shapesOf(k) {
			for _, op := range ops {
				for ord := 0; ord < orders; ord++ {
					if ord > 0 && k == 1 || ord > 1 && k == 2 {
						continue // one topic has one order, two have two
					}
					sh, op, ord := sh, op, ord
					id := fmt.Sprintf("%s %vmap-order#%d", op.name, sh, ord)
					s.Case(id, id, func() (string, *seqx.Viol) {
						var v *seqx.Viol
						br := bub.Run(t, 0, func() {
							c := mkShapeCluster()
							cl, tr := clientops.NewClient(c)
							defer tr.CloseIdleConnections()
							// the order in which the library walks a map of n topics: the ord-th permutation
							// when the map has as many entries as the request has topics (any other map keeps
							// its canonical order)
							perm := func(n int) []int {
								ps := seqx.Perms(n)
								if n != len(sh.lists) || n > 5 {
									return ps[0]
								}
								return ps[ord%len(ps)]
							}
							vhook.Perm.Store(&perm)
							defer vhook.Perm.Store(nil)
							v = op.run(c, cl, sh)
						})
						if br.Panic != "" {
							return "panic", &seqx.Viol{Sig: "panic", Msg: br.Panic}
						}
						if v != nil {
							v.Msg += fmt.Sprintf(" [topic map walked in order #%d]", ord)
						}
						return fmt.Sprintf("%s/%d topics", op.name, len(sh.lists)), v
					})
				}
			}
		}
	}
	// topic-name lists: Metadata and ReadPartitions
	nameLists := [][]string{{"a"}, {"b"}, {"a", "b", "c"}, {"c", "a"}, {"zz"}, {"b", "zz"}}
	for _, names := range nameLists {
		names := names
		id := fmt.Sprintf("metadata+read-partitions %v", names)
		s.Case(id, id, func() (string, *seqx.Viol) {
			var v *seqx.Viol
			br := bub.Run(t, 0, func() {
				c := mkShapeCluster()
				cl, tr := clientops.NewClient(c)
				defer tr.CloseIdleConnections()
				md, err := cl.Metadata(ctx, &kafka.MetadataRequest{Topics: names})
				if err != nil {
					v = &seqx.Viol{Sig: "metadata-failed", Msg: fmt.Sprintf("Metadata %v: %v", names, err)}
					return
				}
				var got []string
				for _, tp := range md.Topics {
					got = append(got, tp.Name)
					ct := c.Topics[tp.Name]
					if ct == nil {
						if tp.Error == nil {
							v = &seqx.Viol{Sig: "metadata-wrong", Msg: fmt.Sprintf("Metadata %v: topic %s does not exist but is reported without error", names, tp.Name)}
							return
						}
						continue
					}
					if tp.Error != nil || len(tp.Partitions) != len(ct.Parts) {
						v = &seqx.Viol{Sig: "metadata-wrong", Msg: fmt.Sprintf("Metadata %v: topic %s: %d partitions err=%v", names, tp.Name, len(tp.Partitions), tp.Error)}
						return
					}
					for _, p := range tp.Partitions {
						if cp := c.Part(tp.Name, p.ID); cp == nil || p.Leader.ID != cp.Leader || p.Topic != tp.Name {
							v = &seqx.Viol{Sig: "metadata-wrong", Msg: fmt.Sprintf("Metadata %v: %s/%d leader %d", names, tp.Name, p.ID, p.Leader.ID)}
							return
						}
					}
				}
				sort.Strings(got)
				want := append([]string(nil), names...)
				sort.Strings(want)
				if fmt.Sprint(got) != fmt.Sprint(want) {
					v = &seqx.Viol{Sig: "metadata-shape", Msg: fmt.Sprintf("Metadata %v reported topics %v", names, got)}
					return
				}
				conn, _ := hx.Conn(c, "a", 0)
				defer conn.Close()
				ps, err := conn.ReadPartitions(names...)
				known := 0
				for _, n := range names {
					if c.Topics[n] != nil {
						known++
					}
				}
				if known < len(names) {
					// an unknown topic among the names: an error, or the partitions of the known ones only
					if err == nil && len(ps) != 3*known {
						v = &seqx.Viol{Sig: "readpartitions-wrong", Msg: fmt.Sprintf("ReadPartitions %v returned %d partitions without error", names, len(ps))}
					}
					return
				}
				if err != nil || len(ps) != 3*len(names) {
					v = &seqx.Viol{Sig: "readpartitions-wrong", Msg: fmt.Sprintf("ReadPartitions %v: %d partitions, %v", names, len(ps), err)}
					return
				}
				seen := map[string]bool{}
				for _, p := range ps {
					cp := c.Part(p.Topic, p.ID)
					k := fmt.Sprintf("%s/%d", p.Topic, p.ID)
					if cp == nil || seen[k] || p.Leader.ID != cp.Leader || c.Topics[p.Topic] == nil || fmt.Sprint(want) == "" {
						v = &seqx.Viol{Sig: "readpartitions-wrong", Msg: fmt.Sprintf("ReadPartitions %v: %s leader %+v", names, k, p.Leader)}
						return
					}
					seen[k] = true
					found := false
					for _, n := range names {
						found = found || n == p.Topic
					}
					if !found {
						v = &seqx.Viol{Sig: "readpartitions-wrong", Msg: fmt.Sprintf("ReadPartitions %v returned a partition of topic %s", names, p.Topic)}
						return
					}
				}
			})
			if br.Panic != "" {
				return "panic", &seqx.Viol{Sig: "panic", Msg: br.Panic}
			}
			return fmt.Sprint(len(names)), v
		})
	}
}
