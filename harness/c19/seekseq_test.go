package c19

import (
	"errors"
	"fmt"
	"sort"
	"testing"

	kafka "github.com/segmentio/kafka-go"

	"verif/engine/bub"
	"verif/engine/seqx"
	"verif/harness/hx"
)

// E. Conn.Seek sequences. Seek keeps a position on the connection, and two of its modes (SeekAbsolute,
// SeekCurrent) depend on it, so what one call reports depends on the calls before it. Every sequence of 1..2
// (thorough 3) Seek calls over a small alphabet, on partitions whose log start is zero, non-zero, and an empty
// partition with a non-zero start, is compared call by call with a reference model written from the doc comments
// of Seek/SeekStart/SeekAbsolute/SeekEnd/SeekCurrent/SeekDontCheck in conn.go:
//
//	SeekStart: first+offset   SeekAbsolute: offset   SeekEnd: last-offset   SeekCurrent: position+offset
//	the target must lie in [first,last] (first/last = what the broker holds) or the call fails with
//	OffsetOutOfRange and the position stays; SeekDontCheck lifts that check for SeekAbsolute and SeekCurrent only.
//
// Left open (both outcomes accepted, the position is the same either way): whether a checked SeekAbsolute to
// exactly the current position is range-checked. Not generated: SeekCurrent (or "offset = current position")
// before the connection has a concrete position, which the doc comments do not define.

type seekPart struct{ first, last int64 }

var seekParts = []seekPart{{100, 1000}, {0, 5}, {7, 7}}

type seekOp struct {
	off    int64
	cur    bool // the offset passed is the connection's current absolute position
	whence int
	dc     int
}

var whenceNames = map[int]string{kafka.SeekStart: "SeekStart", kafka.SeekAbsolute: "SeekAbsolute", kafka.SeekEnd: "SeekEnd", kafka.SeekCurrent: "SeekCurrent"}

func (o seekOp) String() string {
	a := fmt.Sprint(o.off)
	if o.cur {
		a = "<current position>"
	}
	w := whenceNames[o.whence]
	if o.dc != 0 {
		w += "|SeekDontCheck"
	}
	return fmt.Sprintf("Seek(%s, %s)", a, w)
}

// seekModel is the reference: the position of the connection (known=false: the connection has never been
// positioned, Offset() reports "start of the partition" symbolically).
type seekModel struct {
	p     seekPart
	pos   int64
	known bool
}

// step returns the offset actually passed, the expected result, whether OffsetOutOfRange is expected, and whether
// the outcome is left open (checked absolute seek to the current position that is out of range).
func (m *seekModel) step(o seekOp) (arg, want int64, oor, open bool) {
	arg = o.off
	if o.cur {
		arg = m.pos
	}
	checked := true
	switch o.whence {
	case kafka.SeekStart:
		want = m.p.first + arg
	case kafka.SeekAbsolute:
		want = arg
		checked = o.dc == 0
	case kafka.SeekEnd:
		want = m.p.last - arg
	case kafka.SeekCurrent:
		want = m.pos + arg
		checked = o.dc == 0
	}
	if checked && (want < m.p.first || want > m.p.last) {
		if o.whence == kafka.SeekAbsolute && m.known && want == m.pos {
			return arg, want, false, true
		}
		return arg, want, true, false
	}
	m.pos, m.known = want, true
	return arg, want, false, false
}

func seekAlphabet(p seekPart) []seekOp {
	set := map[int64]bool{0: true, 1: true, p.first: true, p.first + 1: true, p.last - p.first: true, p.last: true, p.last + 1: true}
	var offs []int64
	for o := range set {
		offs = append(offs, o)
	}
	sort.Slice(offs, func(i, j int) bool { return offs[i] < offs[j] })
	var ops []seekOp
	for _, w := range []int{kafka.SeekStart, kafka.SeekAbsolute, kafka.SeekEnd, kafka.SeekCurrent} {
		for _, dc := range []int{0, kafka.SeekDontCheck} {
			for _, o := range offs {
				ops = append(ops, seekOp{off: o, whence: w, dc: dc})
			}
			ops = append(ops, seekOp{cur: true, whence: w, dc: dc})
		}
	}
	return ops
}

func seekSeqCases(t *testing.T, s *seqx.Suite, thorough bool) {
	s.Begin("conn-seek-sequences")
	depth := 2
	if thorough {
		depth = 3
	}
	for _, p := range seekParts {
		p := p
		alpha := seekAlphabet(p)
		var rec func(prefix []seekOp, m seekModel)
		rec = func(prefix []seekOp, m seekModel) {
			if len(prefix) > 0 {
				seq := append([]seekOp(nil), prefix...)
				id := fmt.Sprintf("[%d,%d] %v", p.first, p.last, seq)
				s.Case(id, id, func() (string, *seqx.Viol) { return runSeekSeq(t, p, seq) })
			}
			if len(prefix) == depth {
				return
			}
			for _, o := range alpha {
				if !m.known && (o.cur || o.whence == kafka.SeekCurrent) {
					continue
				}
				m2 := m
				m2.step(o)
				rec(append(prefix, o), m2)
			}
		}
		rec(nil, seekModel{p: p})
	}
}

func runSeekSeq(t *testing.T, p seekPart, seq []seekOp) (string, *seqx.Viol) {
	var v *seqx.Viol
	key := ""
	br := bub.Run(t, 0, func() {
		c := mkCluster([3]int{1, 1, 1})
		part := c.Part("t", 0)
		part.Log, part.Start, part.End = nil, p.first, p.last
		conn, _ := hx.Conn(c, "t", 0)
		defer conn.Close()
		m := seekModel{p: p}
		hist := ""
		for _, o := range seq {
			before := "never positioned"
			if m.known {
				before = fmt.Sprintf("positioned at %d", m.pos)
			}
			arg, want, oor, open := m.step(o)
			got, err := conn.Seek(arg, o.whence|o.dc)
			call := fmt.Sprintf("%sSeek(%d, %s) on partition [%d,%d], connection %s", hist, arg, whenceTail(o), p.first, p.last, before)
			switch {
			case err != nil && !errors.Is(err, kafka.OffsetOutOfRange):
				v = &seqx.Viol{Sig: "seek-seq-failed", Msg: fmt.Sprintf("%s failed with %v", call, err)}
				return
			case open:
				if err == nil && got != want {
					v = &seqx.Viol{Sig: "seek-seq-wrong-offset", Msg: fmt.Sprintf("%s returned %d, want %d", call, got, want)}
					return
				}
				key += "same "
			case oor:
				if err == nil {
					v = &seqx.Viol{Sig: "seek-seq-range-unchecked", Msg: fmt.Sprintf("%s returned %d without error; the target %d is outside the log and the call does not lift the check, want OffsetOutOfRange", call, got, want)}
					return
				}
				key += "oor "
			default:
				if err != nil {
					v = &seqx.Viol{Sig: "seek-seq-spurious-out-of-range", Msg: fmt.Sprintf("%s failed with OffsetOutOfRange, want %d", call, want)}
					return
				}
				if got != want {
					v = &seqx.Viol{Sig: "seek-seq-wrong-offset", Msg: fmt.Sprintf("%s returned %d, want %d (the broker holds first=%d last=%d)", call, got, want, p.first, p.last)}
					return
				}
				key += "ok "
			}
			co, cw := conn.Offset()
			if m.known && (cw != kafka.SeekAbsolute || co != m.pos) || !m.known && (cw != kafka.SeekStart || co != 0) {
				wantPos := "(0, SeekStart)"
				if m.known {
					wantPos = fmt.Sprintf("(%d, SeekAbsolute)", m.pos)
				}
				v = &seqx.Viol{Sig: "seek-seq-position", Msg: fmt.Sprintf("after %s = (%d, %v), Offset() reports (%d, whence %d), want %s", call, got, err, co, cw, wantPos)}
				return
			}
			hist += fmt.Sprintf("Seek(%d, %s) = (%d, %s); ", arg, whenceTail(o), got, hx.ErrString(err))
		}
	})
	if br.Panic != "" {
		return "panic", &seqx.Viol{Sig: "panic", Msg: br.Panic}
	}
	return fmt.Sprintf("[%d,%d] %s", p.first, p.last, key), v
}

func whenceTail(o seekOp) string {
	w := whenceNames[o.whence]
	if o.dc != 0 {
		w += "|SeekDontCheck"
	}
	return w
}
