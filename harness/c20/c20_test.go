package c20

import (
	"bufio"
	"bytes"
	"fmt"
	"io"
	"net"
	"os"
	"os/exec"
	"reflect"
	"runtime"
	"runtime/debug"
	"strconv"
	"strings"
	"syscall"
	"testing"
	"time"

	"github.com/segmentio/kafka-go/protocol"

	"verif/engine/qx"
	"verif/engine/refschema"
	"verif/engine/seqx"
	"verif/harness/clientops"
)

// memConn is the network connection the protocol.Conn reads from: it delivers the stream, then EOF.
type memConn struct{ r *bytes.Reader }

func (c *memConn) Read(b []byte) (int, error)       { return c.r.Read(b) }
func (c *memConn) Write(b []byte) (int, error)      { return len(b), nil }
func (c *memConn) Close() error                     { return nil }
func (c *memConn) LocalAddr() net.Addr              { return addr{} }
func (c *memConn) RemoteAddr() net.Addr             { return addr{} }
func (c *memConn) SetDeadline(time.Time) error      { return nil }
func (c *memConn) SetReadDeadline(time.Time) error  { return nil }
func (c *memConn) SetWriteDeadline(time.Time) error { return nil }

type addr struct{}

func (addr) Network() string { return "mem" }
func (addr) String() string  { return "mem" }

// limits of the oracle: a decode may allocate allocFloor + allocPerByte x (bytes on the connection), plus the
// page granularity of the record-set buffers: the library holds every message or batch of a fetch response in
// pooled 64 KiB pages, and with a cold pool each of them (and its decompressed form) costs a fresh page.
const (
	allocFloor   = 64 << 10
	allocPerByte = 1024
	pageSize     = 64 << 10
	childMemory  = 3 << 30 // address-space limit of a child: an allocation beyond it kills the child
	caseTimeout  = 20 * time.Second
)

type result struct {
	key   string
	alloc uint64
	sig   string
	msg   string
}

// decodeOnce is the operation under test: the Transport's read path (protocol.Conn + ReadResponse), then
// everything a caller does with the message (walk the record sets).
func decodeOnce(c *Case) (res result) {
	if c.client != nil {
		sch, err := refschema.Load(goldenPath())
		if err != nil {
			return result{key: "harness", sig: "harness-error", msg: err.Error()}
		}
		if c.client.sasl != "" {
			r := runSASL(*c.client)
			if r.frames == 0 && r.sig == "" {
				return result{key: "not-injected"}
			}
			return result{key: r.key, sig: r.sig, msg: r.msg}
		}
		r := runClient(sch, clientops.Ops(), *c.client)
		if r.frames == 0 && r.sig == "" {
			return result{key: "not-injected"}
		}
		return result{key: r.key, sig: r.sig, msg: r.msg}
	}
	var ms0, ms1 runtime.MemStats
	runtime.ReadMemStats(&ms0)
	defer func() {
		if r := recover(); r != nil {
			st := string(debug.Stack())
			res = result{key: "panic", sig: "panic:" + qx.PanicSite(st), msg: fmt.Sprintf("panic: %v at %s", r, qx.PanicSite(st))}
		}
	}()
	mc := &memConn{bytes.NewReader(c.Stream)}
	conn := protocol.NewConn(mc, "c20")
	_, msg, err := protocol.ReadResponse(conn, c.Key, c.Ver)
	outcome := "message"
	if err != nil {
		outcome = "error"
		if msg != nil {
			outcome = "error+message"
		}
	} else if msg == nil {
		return result{key: "neither", sig: "neither-error-nor-message", msg: "ReadResponse returned no message and no error"}
	}
	nrec := 0
	if msg != nil {
		nrec = drain(reflect.ValueOf(msg))
	}
	runtime.ReadMemStats(&ms1)
	alloc := ms1.TotalAlloc - ms0.TotalAlloc
	res = result{key: outcome, alloc: alloc}
	if nrec > 0 {
		res.key += "+records"
	}
	limit := uint64(allocFloor + allocPerByte*len(c.Stream))
	if c.Units > 0 {
		limit += uint64(pageSize * (2*c.Units + 1))
	}
	// the decoder owns one frame: the size prefix and the bytes it announces, nothing of what follows
	left, _ := conn.Peek(4096)
	consumed := len(c.Stream) - mc.r.Len() - len(left)
	claimed := int(int32(uint32(c.Stream[0])<<24 | uint32(c.Stream[1])<<16 | uint32(c.Stream[2])<<8 | uint32(c.Stream[3])))
	if claimed < 0 {
		claimed = 0
	}
	if consumed > 4+claimed {
		res.sig = "frame-overrun:" + c.Kind
		res.msg = fmt.Sprintf("the frame announces %d bytes but decoding consumed %d bytes after the size prefix", claimed, consumed-4)
		return res
	}
	if alloc > limit {
		res.sig = "balloon:" + c.Kind
		res.msg = fmt.Sprintf("decoding %d bytes allocated %d bytes (limit %d)", len(c.Stream), alloc, limit)
	}
	return res
}

var recordSetType = reflect.TypeOf(protocol.RecordSet{})

func drain(v reflect.Value) (n int) {
	switch v.Kind() {
	case reflect.Pointer, reflect.Interface:
		if !v.IsNil() {
			return drain(v.Elem())
		}
	case reflect.Slice:
		if v.Type().Elem().Kind() == reflect.Uint8 {
			return 0
		}
		for i := 0; i < v.Len() && i < 64; i++ {
			n += drain(v.Index(i))
		}
	case reflect.Struct:
		if v.Type() == recordSetType {
			rs := v.Interface().(protocol.RecordSet)
			if rs.Records == nil {
				return 0
			}
			for n < 1000 {
				r, err := rs.Records.ReadRecord()
				if err != nil {
					break
				}
				n++
				if r.Key != nil {
					io.Copy(io.Discard, r.Key)
					r.Key.Close()
				}
				if r.Value != nil {
					io.Copy(io.Discard, r.Value)
					r.Value.Close()
				}
			}
			return n
		}
		for i := 0; i < v.NumField(); i++ {
			if v.Type().Field(i).PkgPath == "" {
				n += drain(v.Field(i))
			}
		}
	}
	return n
}

// TestChild runs cases from C20_FROM on (those of this shard) and reports one line per case.
func TestChild(t *testing.T) {
	if os.Getenv("C20_CHILD") == "" {
		t.Skip("child of TestCheck")
	}
	lim := syscall.Rlimit{Cur: childMemory, Max: childMemory}
	if err := syscall.Setrlimit(syscall.RLIMIT_AS, &lim); err != nil {
		t.Fatal(err)
	}
	curT = t
	from, _ := strconv.Atoi(os.Getenv("C20_FROM"))
	to, _ := strconv.Atoi(os.Getenv("C20_TO"))
	shard, nshards := qx.EnvInt("VERIF_SHARD", 0), qx.EnvInt("VERIF_NSHARDS", 1)
	Pairs = os.Getenv("VERIF_TIER") == "thorough"
	cases, err := Cases()
	if err != nil {
		t.Fatal(err)
	}
	out := bufio.NewWriter(os.Stdout)
	for i := from; i < len(cases) && (to <= 0 || i < to); i++ {
		if nshards > 1 && i%nshards != shard && to <= 0 {
			continue
		}
		fmt.Fprintf(out, "S %d\n", i)
		out.Flush()
		r := decodeOnce(&cases[i])
		fmt.Fprintf(out, "R %d %s %d %s\t%s\n", i, r.key, r.alloc, orDash(r.sig), r.msg)
		out.Flush()
	}
	fmt.Fprintf(out, "E\n")
	out.Flush()
}

func orDash(s string) string {
	if s == "" {
		return "-"
	}
	return s
}

// child is a running worker process.
type child struct {
	cmd    *exec.Cmd
	lines  chan string
	stderr *bytes.Buffer
	next   int // the case index the child will report next (or has started)
}

func spawn(from, to int) (*child, error) {
	cmd := exec.Command(os.Args[0], "-test.run", "^TestChild$", "-test.timeout", "0")
	cmd.Env = append(os.Environ(), "C20_CHILD=1", "C20_FROM="+strconv.Itoa(from), "C20_TO="+strconv.Itoa(to), "VERIF_OUT=", "VERIF_REPLAY=")
	so, err := cmd.StdoutPipe()
	if err != nil {
		return nil, err
	}
	c := &child{cmd: cmd, lines: make(chan string, 1024), stderr: &bytes.Buffer{}}
	cmd.Stderr = c.stderr
	if err := cmd.Start(); err != nil {
		return nil, err
	}
	go func() {
		sc := bufio.NewScanner(so)
		sc.Buffer(make([]byte, 1<<20), 1<<20)
		for sc.Scan() {
			c.lines <- sc.Text()
		}
		close(c.lines)
	}()
	return c, nil
}

func (c *child) kill() {
	c.cmd.Process.Kill()
	for range c.lines {
	}
	c.cmd.Wait()
}

// fatalLine extracts what killed a child from its output.
func fatalLine(s string) string {
	for _, l := range strings.Split(s, "\n") {
		if strings.HasPrefix(l, "fatal error:") || strings.HasPrefix(l, "panic:") || strings.HasPrefix(l, "runtime:") || strings.HasPrefix(l, "signal:") {
			return l
		}
	}
	if len(s) > 200 {
		s = s[:200]
	}
	return strings.TrimSpace(s)
}

type runner struct {
	cases []Case
	cur   *child
	t     *testing.T
	spawn int
}

// result of case i, from the running child (started on demand from case i on).
func (r *runner) get(i int, only bool) result {
	if r.cur == nil {
		to := 0
		if only {
			to = i + 1
		}
		c, err := spawn(i, to)
		if err != nil {
			r.t.Fatal(err)
		}
		r.spawn++
		r.cur = c
	}
	c := r.cur
	started := false
	timer := time.NewTimer(caseTimeout * 3) // start-up and the cases of other shards' indices are skipped quickly
	defer timer.Stop()
	for {
		select {
		case l, ok := <-c.lines:
			if !ok {
				c.cmd.Wait()
				r.cur = nil
				why := fatalLine(c.stderr.String())
				if !started {
					r.t.Fatalf("child exited before starting case %d: %s", i, c.stderr.String())
				}
				return result{key: "death", sig: "process-death:" + r.cases[i].Kind + ":" + normalise(why), msg: "the process died while decoding: " + why}
			}
			switch {
			case strings.HasPrefix(l, "S "):
				n, _ := strconv.Atoi(l[2:])
				if n != i {
					r.t.Fatalf("child started case %d, expected %d", n, i)
				}
				started = true
				timer.Reset(caseTimeout)
			case strings.HasPrefix(l, "R "):
				f := strings.SplitN(l[2:], " ", 4)
				n, _ := strconv.Atoi(f[0])
				if n != i || len(f) < 4 {
					r.t.Fatalf("child reported %q, expected case %d", l, i)
				}
				alloc, _ := strconv.ParseUint(f[2], 10, 64)
				sm := strings.SplitN(f[3], "\t", 2)
				res := result{key: f[1], alloc: alloc}
				if sm[0] != "-" {
					res.sig = sm[0]
					if len(sm) > 1 {
						res.msg = sm[1]
					}
				}
				if only {
					c.kill()
					r.cur = nil
				}
				return res
			case l == "E":
				r.t.Fatalf("child finished before case %d", i)
			}
		case <-timer.C:
			c.kill()
			r.cur = nil
			if !started {
				r.t.Fatalf("child did not start case %d within %v", i, caseTimeout*3)
			}
			return result{key: "hang", sig: "hang:" + r.cases[i].Kind, msg: fmt.Sprintf("decoding did not return within %v", caseTimeout)}
		}
	}
}

func normalise(s string) string {
	if i := strings.Index(s, "("); i > 0 {
		s = s[:i]
	}
	return strings.TrimSpace(s)
}

func TestCheck(t *testing.T) {
	if os.Getenv("C20_CHILD") != "" {
		t.Skip()
	}
	s := seqx.New(t)
	curT = t
	Pairs = os.Getenv("VERIF_TIER") == "thorough"
	cases, err := Cases()
	if err != nil {
		t.Fatal(err)
	}
	r := &runner{cases: cases, t: t}
	s.Begin("mutated-response-frames")
	kinds := map[string]int{}
	apis := map[string]bool{}
	maxAlloc := uint64(0)
	for i := range cases {
		if s.TimeUp() {
			break
		}
		i := i
		c := &cases[i]
		s.Case(c.ID, c.ID, func() (string, *seqx.Viol) {
			kinds[c.Kind]++
			apis[fmt.Sprintf("%d/%d", c.Key, c.Ver)] = true
			res := r.get(i, s.Replay != nil)
			if res.alloc > maxAlloc {
				maxAlloc = res.alloc
			}
			key := fmt.Sprintf("api%d:%s:%s:%s", c.Key, c.Kind, c.Class, res.key)
			if c.client != nil {
				key = "client:" + res.key
			}
			if res.sig != "" {
				return key, &seqx.Viol{Sig: res.sig, Msg: c.ID + ": " + res.msg}
			}
			if c.Class == "baseline" && !strings.HasPrefix(res.key, "message") {
				return key, &seqx.Viol{Sig: "baseline-rejected", Msg: c.ID + ": the well-formed frame is not decoded (harness or codec problem): " + res.key}
			}
			return key, nil
		})
	}
	if r.cur != nil {
		r.cur.kill()
	}
	s.Add("children_spawned", r.spawn)
	s.Add("max_alloc_bytes", int(maxAlloc))
	s.Add("response_type_versions", len(apis))
	s.Add("unpinned_type_versions_skipped", len(Skipped))
	for k, n := range kinds {
		s.Add("fields:"+k, n)
	}
	s.Finish()
}
