// Package c20: malformed length fields from the network cannot crash or balloon the client.
package c20

import (
	"encoding/binary"
	"fmt"
	"path/filepath"
	"reflect"
	"runtime"
	"sort"

	_ "github.com/segmentio/kafka-go" // registers every API sub-package the library uses
	"github.com/segmentio/kafka-go/protocol"

	"verif/engine/refschema"
	"verif/engine/refwire"
)

func goldenPath() string {
	_, f, _, _ := runtime.Caller(0)
	return filepath.Join(filepath.Dir(f), "..", "..", "golden", "schema.json")
}

// Case is one mutated response frame.
type Case struct {
	ID     string
	Key    protocol.ApiKey
	Ver    int16
	Kind   string // kind of the mutated length field
	Class  string // mutation class (for outcome keys)
	Stream []byte // bytes the connection delivers (then EOF)
	Frame  int    // length of the (mutated) first frame in Stream
	Units  int    // messages / batches in the record sets of the well-formed frame
	client *clientCase
}

// recordLayouts are the record sets placed in fetch responses. Each unit is encoded separately so that the
// position of its length field is known (offset 8 of every v0/v1 message and of every v2 batch).
type layout struct {
	name  string
	units []refwire.Batch
}

func rec(off int64, k, v string) refwire.Rec {
	r := refwire.Rec{Offset: off, TS: 1600000000000 + off, Value: []byte(v)}
	if k != "" {
		r.Key = []byte(k)
	}
	return r
}

func layouts() []layout {
	return []layout{
		{"v2x2", []refwire.Batch{
			{Format: 2, Base: 10, Last: 11, Recs: []refwire.Rec{rec(10, "k", "v10"), rec(11, "", "v11")}},
			{Format: 2, Base: 12, Last: 12, Recs: []refwire.Rec{{Offset: 12, TS: 1600000000012, Value: []byte("v12"), Headers: []refwire.Hdr{{Key: "h", Value: []byte("x")}}}}},
		}},
		{"v2gzip", []refwire.Batch{{Format: 2, Codec: refwire.Gzip, Base: 10, Last: 11, Recs: []refwire.Rec{rec(10, "k", "v10"), rec(11, "", "v11")}}}},
		{"v1x2", []refwire.Batch{
			{Format: 1, Recs: []refwire.Rec{rec(10, "k", "v10")}},
			{Format: 1, Recs: []refwire.Rec{rec(11, "", "v11")}},
		}},
		{"v0x2", []refwire.Batch{
			{Format: 0, Recs: []refwire.Rec{rec(10, "k", "v10")}},
			{Format: 0, Recs: []refwire.Rec{rec(11, "", "v11")}},
		}},
		{"v1gzip", []refwire.Batch{{Format: 1, Codec: refwire.Gzip, Last: 11, Recs: []refwire.Rec{rec(10, "k", "v10"), rec(11, "", "v11")}}}},
		{"empty", nil},
	}
}

func customEnc(l layout) func(e *refschema.Enc, v reflect.Value, elem, path string) error {
	return func(e *refschema.Enc, v reflect.Value, elem, path string) error {
		if elem != "protocol.RecordSet" {
			return fmt.Errorf("no reference encoding for %s", elem)
		}
		var body refwire.W
		type mark struct {
			off  int
			kind string
			val  int64
		}
		var marks []mark
		for _, u := range l.units {
			b := u.Encode()
			kind := "message-size"
			if u.Format == 2 {
				kind = "batch-length"
			}
			marks = append(marks, mark{len(body.B) + 8, kind, int64(int32(binary.BigEndian.Uint32(b[8:12])))})
			body.Raw(b)
		}
		off := len(e.W.B)
		e.W.I32(int32(len(body.B)))
		e.Note("recordset-size", off, 4, int64(len(body.B)), path)
		base := len(e.W.B)
		for i, m := range marks {
			e.Note(m.kind, base+m.off, 4, m.val, fmt.Sprintf("%s#%d", path, i))
		}
		e.W.Raw(body.B)
		return nil
	}
}

// next is what follows the frame on the connection in the "next" stream variant: a well-formed
// ApiVersions v0 response frame (correlation 78, no error, no keys).
var next = []byte{0, 0, 0, 10, 0, 0, 0, 78, 0, 0, 0, 0, 0, 0}

type mut struct {
	class string
	bytes []byte
}

func be32(v int64) []byte { return binary.BigEndian.AppendUint32(nil, uint32(int32(v))) }
func be16(v int64) []byte { return binary.BigEndian.AppendUint16(nil, uint16(int16(v))) }
func uvar(v uint64) []byte {
	var w refwire.W
	w.UVar(v)
	return w.B
}

// mutations of one length field. v is its logical value, rest the number of bytes of the frame after the field.
func mutations(l refschema.LenField, rest int) []mut {
	var out []mut
	seen := map[string]bool{}
	add := func(class string, b []byte) {
		if !seen[string(b)] {
			seen[string(b)] = true
			out = append(out, mut{class, b})
		}
	}
	v := l.Value
	switch l.Kind {
	case "frame-size", "bytes32", "array32", "recordset-size", "batch-length", "message-size":
		seen[string(be32(v))] = true
		for _, m := range []struct {
			c string
			x int64
		}{{"min", -1 << 31}, {"-2", -2}, {"-1", -1}, {"0", 0}, {"1", 1}, {"v-1", v - 1}, {"v+1", v + 1}, {"rest-1", int64(rest) - 1}, {"rest", int64(rest)}, {"rest+1", int64(rest) + 1},
			{"64k", 1 << 16}, {"1M", 1 << 20}, {"16M", 1 << 24}, {"max", 1<<31 - 1}} {
			add(m.c, be32(m.x))
		}
	case "string16":
		seen[string(be16(v))] = true
		for _, m := range []struct {
			c string
			x int64
		}{{"min", -1 << 15}, {"-2", -2}, {"-1", -1}, {"0", 0}, {"1", 1}, {"v-1", v - 1}, {"v+1", v + 1}, {"rest", int64(rest)}, {"rest+1", int64(rest) + 1}, {"max", 1<<15 - 1}} {
			if m.x >= -1<<15 && m.x < 1<<15 {
				add(m.c, be16(m.x))
			}
		}
	case "cstring", "cbytes", "carray", "tag-count", "tag-size":
		raw := uint64(v)
		if l.Kind == "cstring" || l.Kind == "cbytes" || l.Kind == "carray" {
			raw = uint64(v + 1)
		}
		seen[string(uvar(raw))] = true
		for _, m := range []struct {
			c string
			x uint64
		}{{"0", 0}, {"1", 1}, {"2", 2}, {"v-1", raw - 1}, {"v+1", raw + 1}, {"rest", uint64(rest)}, {"rest+1", uint64(rest) + 1}, {"rest+2", uint64(rest) + 2},
			{"64k", 1<<16 + 1}, {"1M", 1<<20 + 1}, {"16M", 1<<24 + 1}, {"2^31-1", 1<<31 - 1}, {"2^31", 1 << 31}, {"2^31+1", 1<<31 + 1}, {"2^32", 1 << 32}, {"2^32+1", 1<<32 + 1},
			{"2^63-1", 1<<63 - 1}, {"2^63", 1 << 63}, {"2^63+1", 1<<63 + 1}, {"2^64-1", 1<<64 - 1}} {
			add(m.c, uvar(m.x))
		}
		add("overlong11", []byte{0x80, 0x80, 0x80, 0x80, 0x80, 0x80, 0x80, 0x80, 0x80, 0x80, 0x01})
		add("unterminated", []byte{0xff, 0xff, 0xff, 0xff, 0xff, 0xff, 0xff, 0xff, 0xff, 0xff, 0xff, 0xff})
		add("padded", []byte{byte(raw&0x7f) | 0x80, byte(raw>>7) | 0x80, 0x00})
	}
	return out
}

// Pairs adds, to every single-field mutation, the combination with a lying frame size.
var Pairs = false

// Clients adds the client-level cases (they need a *testing.T in curT).
var Clients = true

// Skipped counts response types the golden schema does not pin (reported in the evidence).
var Skipped []string

// Cases enumerates, in a fixed order, every mutated frame.
func Cases() ([]Case, error) {
	sch, err := refschema.Load(goldenPath())
	if err != nil {
		return nil, err
	}
	vts := protocol.VerifTypes()
	sort.Slice(vts, func(i, j int) bool {
		if vts[i].Key != vts[j].Key {
			return vts[i].Key < vts[j].Key
		}
		return vts[i].Version < vts[j].Version
	})
	Skipped = nil
	var out []Case
	for _, vt := range vts {
		if vt.Res == nil {
			continue
		}
		api := sch.API(int16(vt.Key))
		pinned := api != nil && api.Res == refschema.TypeName(vt.Res)
		if pinned {
			pinned = false
			for _, v := range api.Versions {
				if v == vt.Version {
					pinned = true
				}
			}
		}
		if !pinned {
			Skipped = append(Skipped, fmt.Sprintf("api%d v%d", vt.Key, vt.Version))
			continue
		}
		ls := []layout{{name: "-"}}
		if sch.HasCustom(refschema.TypeName(vt.Res), vt.Version) {
			ls = layouts()
		}
		for _, lay := range ls {
			val := refschema.PopulateN(vt.Res, 2)
			frame, lens, err := sch.ResponseWith(int16(vt.Key), vt.Version, 77, val, -1, customEnc(lay))
			if err != nil {
				return nil, fmt.Errorf("api%d v%d: %v", vt.Key, vt.Version, err)
			}
			variants := [][]refschema.LenField{lens}
			frames := [][]byte{frame}
			if vt.ResFlexible && lay.name == "-" {
				// a second baseline carrying an unknown tagged field in every tag buffer
				f2, l2, err := sch.ResponseWith(int16(vt.Key), vt.Version, 77, val, 999, customEnc(lay))
				if err != nil {
					return nil, err
				}
				frames = append(frames, f2)
				variants = append(variants, l2)
			}
			units := 0
			for _, l := range lens {
				if l.Kind == "batch-length" || l.Kind == "message-size" {
					units++
				}
			}
			for bi, frame := range frames {
				bname := lay.name
				if bi == 1 {
					bname = "unknown-tags"
				}
				out = append(out, Case{ID: fmt.Sprintf("api%d v%d %s baseline", vt.Key, vt.Version, bname), Key: vt.Key, Ver: vt.Version, Kind: "none", Class: "baseline",
					Stream: append(append([]byte{}, frame...), next...), Frame: len(frame), Units: units})
				for _, l := range variants[bi] {
					rest := len(frame) - l.Off - l.Size
					for _, m := range mutations(l, rest) {
						mf := append(append(append([]byte{}, frame[:l.Off]...), m.bytes...), frame[l.Off+l.Size:]...)
						if l.Kind != "frame-size" {
							binary.BigEndian.PutUint32(mf, uint32(len(mf)-4)) // the frame size stays truthful
						}
						if Pairs && l.Kind != "frame-size" {
							// second lying field: the frame size announces far more than the connection delivers
							for _, fs := range []struct {
								c string
								x int64
							}{{"16M", 1 << 24}, {"max", 1<<31 - 1}} {
								pf := append([]byte{}, mf...)
								binary.BigEndian.PutUint32(pf, uint32(fs.x))
								out = append(out, Case{
									ID:  fmt.Sprintf("api%d v%d %s %s@%d(%s)=%s frame-size=%s eof", vt.Key, vt.Version, bname, l.Kind, l.Off, l.Path, m.class, fs.c),
									Key: vt.Key, Ver: vt.Version, Kind: l.Kind + "+frame-size", Class: m.class + "+" + fs.c, Stream: pf, Frame: len(pf), Units: units})
							}
						}
						for _, tail := range []string{"eof", "next"} {
							st := mf
							if tail == "next" {
								st = append(append([]byte{}, mf...), next...)
							}
							out = append(out, Case{
								ID:  fmt.Sprintf("api%d v%d %s %s@%d(%s)=%s %s", vt.Key, vt.Version, bname, l.Kind, l.Off, l.Path, m.class, tail),
								Key: vt.Key, Ver: vt.Version, Kind: l.Kind, Class: m.class, Stream: st, Frame: len(mf), Units: units})
						}
					}
				}
			}
		}
	}
	if Clients {
		out = append(out, clientCases(sch)...)
		out = append(out, saslCases()...)
	}
	return out, nil
}
