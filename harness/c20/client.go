package c20

import (
	"bytes"
	"context"
	"encoding/binary"
	"fmt"
	"reflect"
	"runtime"
	"runtime/debug"
	"testing"
	"time"

	"github.com/segmentio/kafka-go/protocol"

	kafka "github.com/segmentio/kafka-go"
	"github.com/segmentio/kafka-go/sasl"
	"github.com/segmentio/kafka-go/sasl/plain"
	"github.com/segmentio/kafka-go/sasl/scram"

	"verif/engine/bub"
	"verif/engine/fk"
	"verif/engine/qx"
	"verif/engine/refschema"
	"verif/harness/clientops"
	"verif/harness/hx"
)

// Client-level cases: a kafka.Client operation through a real kafka.Transport against the fake cluster, in
// which the n-th response of the operation's API (n = 0 may be the Transport's own metadata / api-versions
// exchange) carries one lying length field. This reaches what sits above protocol.ReadResponse: the
// Transport's connection goroutines and the Client's conversion of the decoded message.

type clientCase struct {
	op    int // index into clientops.Ops()
	nth   int // which response of the op's api key is mutated
	field int // index into the frame's length fields
	mut   int // index into mutations(field)
	// raw SASL answers (handshake v0): mechanism, which answer of the exchange, and the value class of its length
	sasl  string
	round int
}

// libraryRecordSet encodes record sets with the library's own encoder (their interior is the subject of the
// frame-level scenario; here they only have to be well-formed).
func libraryRecordSet(e *refschema.Enc, v reflect.Value, elem, path string) error {
	if elem != "protocol.RecordSet" {
		return fmt.Errorf("no reference encoding for %s", elem)
	}
	rs := v.Addr().Interface().(*protocol.RecordSet)
	var buf bytes.Buffer
	if rs.Records == nil {
		buf.Write([]byte{0, 0, 0, 0})
	} else if _, err := rs.WriteTo(&buf); err != nil {
		return err
	}
	off := len(e.W.B)
	e.W.Raw(buf.Bytes())
	e.Note("recordset-size", off, 4, int64(buf.Len()-4), path)
	return nil
}

// reframe re-encodes a response with the reference encoder and returns the frame and its length fields.
func reframe(sch *refschema.Schema, e *fk.Entry, frame []byte, msg protocol.Message) ([]byte, []refschema.LenField, error) {
	if msg == nil {
		_, m, err := protocol.ReadResponse(bytes.NewReader(frame), e.Key, e.Version)
		if err != nil {
			return nil, nil, err
		}
		msg = m
	}
	return sch.ResponseWith(int16(e.Key), e.Version, e.CorrID, reflect.ValueOf(msg).Elem(), -1, libraryRecordSet)
}

// curT is the test the bubbles of client cases are attached to.
var curT *testing.T

type clientRun struct {
	key    string
	sig    string
	msg    string
	nlens  []int // per response index: number of length fields (discovery)
	nmuts  [][]int
	frames int
}

// runClient executes op with the given mutation (cc.field < 0: discovery only).
func runClient(sch *refschema.Schema, ops []clientops.Op, cc clientCase) (r clientRun) {
	op := &ops[cc.op]
	var ms0, ms1 runtime.MemStats
	streamBytes := 0
	br := bub.Run(curT, time.Second, func() {
		c := hx.NewCluster()
		seen := 0
		c.Mutate = func(e *fk.Entry, frame []byte, msg protocol.Message) []byte {
			streamBytes += len(frame)
			if e.Key != op.Key {
				return frame
			}
			n := seen
			seen++
			ref, lens, err := reframe(sch, e, frame, msg)
			if err != nil {
				r.nlens = append(r.nlens, 0)
				r.nmuts = append(r.nmuts, nil)
				return frame
			}
			r.nlens = append(r.nlens, len(lens))
			var nm []int
			for _, l := range lens {
				nm = append(nm, len(mutations(l, len(ref)-l.Off-l.Size)))
			}
			r.nmuts = append(r.nmuts, nm)
			if cc.field < 0 || n != cc.nth || cc.field >= len(lens) {
				return frame
			}
			l := lens[cc.field]
			ms := mutations(l, len(ref)-l.Off-l.Size)
			if cc.mut >= len(ms) {
				return frame
			}
			m := ms[cc.mut]
			mf := append(append(append([]byte{}, ref[:l.Off]...), m.bytes...), ref[l.Off+l.Size:]...)
			if l.Kind != "frame-size" {
				binary.BigEndian.PutUint32(mf, uint32(len(mf)-4))
			}
			r.frames++
			r.key = fmt.Sprintf("%s:%s:%s", op.Name, l.Kind, m.class)
			return mf
		}
		cl, tr := clientops.NewClient(c)
		defer tr.CloseIdleConnections()
		runtime.ReadMemStats(&ms0)
		ctx, cancel := context.WithTimeout(context.Background(), 8*time.Second)
		defer cancel()
		func() {
			defer func() {
				if p := recover(); p != nil {
					st := string(debug.Stack())
					r.sig = "panic:" + qx.PanicSite(st)
					r.msg = fmt.Sprintf("panic in the calling goroutine: %v at %s", p, qx.PanicSite(st))
				}
			}()
			res, err := op.Run(ctx, cl)
			if err != nil {
				r.key += ":error"
			} else {
				r.key += ":ok"
				_ = res
			}
		}()
		runtime.ReadMemStats(&ms1)
	})
	if br.Panic != "" && r.sig == "" {
		r.sig = "panic:" + qx.PanicSite(br.Panic)
		r.msg = "panic: " + firstLine(br.Panic)
	}
	alloc := ms1.TotalAlloc - ms0.TotalAlloc
	// the whole operation (dialling, api-versions, metadata, the request) may allocate a few hundred KiB
	if limit := uint64(4<<20 + allocPerByte*streamBytes); r.sig == "" && alloc > limit {
		r.sig = "balloon:client"
		r.msg = fmt.Sprintf("the operation received %d bytes and allocated %d (limit %d)", streamBytes, alloc, limit)
	}
	return r
}

func firstLine(s string) string {
	for i := 0; i < len(s); i++ {
		if s[i] == '\n' {
			return s[:i]
		}
	}
	return s
}

// clientCases enumerates (op, nth response, field, mutation) from a discovery run of every operation.
func clientCases(sch *refschema.Schema) []Case {
	ops := clientops.Ops()
	var out []Case
	for oi := range ops {
		d := runClient(sch, ops, clientCase{op: oi, field: -1})
		for nth := range d.nlens {
			if nth > 1 {
				break
			}
			for f := 0; f < d.nlens[nth]; f++ {
				for m := 0; m < d.nmuts[nth][f]; m++ {
					cc := clientCase{op: oi, nth: nth, field: f, mut: m}
					out = append(out, Case{ID: fmt.Sprintf("client %s response#%d field#%d mutation#%d", ops[oi].Name, nth, f, m), Key: ops[oi].Key, Kind: "client", Class: "client", client: &cc})
				}
			}
		}
	}
	return out
}

// The raw SASL exchange of handshake v0 (tokens behind a bare 4-byte length, no Kafka header) is read by the
// Transport with its own reader: a Client call over a Transport with SASL configured, against a broker that
// only offers SaslHandshake v0, in which the n-th raw answer carries a lying length.
func saslMech(name string) sasl.Mechanism {
	if name == "PLAIN" {
		return plain.Mechanism{Username: "alice", Password: "secret"}
	}
	m, err := scram.Mechanism(scram.SHA256, "alice", "secret")
	if err != nil {
		panic(err)
	}
	return m
}

func saslLenField(frame []byte) refschema.LenField {
	return refschema.LenField{Off: 0, Size: 4, Kind: "frame-size", Value: int64(len(frame) - 4), Path: "raw-sasl-answer"}
}

func runSASL(cc clientCase) (r clientRun) {
	var ms0, ms1 runtime.MemStats
	streamBytes := 0
	br := bub.Run(curT, time.Second, func() {
		c := hx.NewCluster()
		c.SASL = &fk.SASLConfig{Mechanisms: []string{"PLAIN", "SCRAM-SHA-256"}, Users: map[string]string{"alice": "secret"}}
		vs := hx.Versions(map[protocol.ApiKey]fk.VRange{protocol.SaslHandshake: {0, 0}})
		c.Versions = map[int]map[protocol.ApiKey]fk.VRange{1: vs, 2: vs}
		seen := 0
		c.RawAuthMutate = func(round int, frame []byte) []byte {
			streamBytes += len(frame)
			n := seen
			seen++
			l := saslLenField(frame)
			ms := mutations(l, len(frame)-4)
			r.nlens = append(r.nlens, 1)
			r.nmuts = append(r.nmuts, []int{len(ms)})
			if cc.field < 0 || n != cc.round || cc.mut >= len(ms) {
				return frame
			}
			m := ms[cc.mut]
			r.frames++
			r.key = fmt.Sprintf("sasl-%s:answer#%d:%s", cc.sasl, n, m.class)
			return append(append([]byte{}, m.bytes...), frame[4:]...)
		}
		cl, tr := clientops.NewClient(c)
		tr.SASL = saslMech(cc.sasl)
		defer tr.CloseIdleConnections()
		runtime.ReadMemStats(&ms0)
		ctx, cancel := context.WithTimeout(context.Background(), 8*time.Second)
		defer cancel()
		func() {
			defer func() {
				if p := recover(); p != nil {
					st := string(debug.Stack())
					r.sig = "panic:" + qx.PanicSite(st)
					r.msg = fmt.Sprintf("panic in the calling goroutine: %v at %s", p, qx.PanicSite(st))
				}
			}()
			_, err := cl.Metadata(ctx, &kafka.MetadataRequest{Topics: []string{"t"}})
			if err != nil {
				r.key += ":error"
			} else {
				r.key += ":ok"
			}
		}()
		runtime.ReadMemStats(&ms1)
	})
	if br.Panic != "" && r.sig == "" {
		r.sig = "panic:" + qx.PanicSite(br.Panic)
		r.msg = "panic: " + firstLine(br.Panic)
	}
	alloc := ms1.TotalAlloc - ms0.TotalAlloc
	if limit := uint64(4<<20 + allocPerByte*streamBytes); r.sig == "" && alloc > limit {
		r.sig = "balloon:raw-sasl-answer"
		r.msg = fmt.Sprintf("the exchange received %d bytes of SASL answers and the operation allocated %d (limit %d)", streamBytes, alloc, limit)
	}
	return r
}

func saslCases() []Case {
	var out []Case
	for _, mech := range []string{"PLAIN", "SCRAM-SHA-256"} {
		d := runSASL(clientCase{sasl: mech, field: -1})
		for round := range d.nlens {
			for m := 0; m < d.nmuts[round][0]; m++ {
				cc := clientCase{sasl: mech, round: round, mut: m}
				out = append(out, Case{ID: fmt.Sprintf("sasl %s raw answer#%d length mutation#%d", mech, round, m), Key: protocol.SaslAuthenticate, Kind: "raw-sasl", Class: "client", client: &cc})
			}
		}
	}
	return out
}
