// Package clientops: the table of kafka.Client operations (through a real
// kafka.Transport dialing the fake cluster) shared by C12, C17, C19.
package clientops

import (
	"context"
	"fmt"
	"io"
	"sort"
	"strings"
	"time"

	kafka "github.com/segmentio/kafka-go"
	"github.com/segmentio/kafka-go/protocol"

	"verif/engine/fk"
	"verif/harness/hx"
)

type Op struct {
	Name string
	Key  protocol.ApiKey
	Run  func(ctx context.Context, c *kafka.Client) (string, error)
}

// NewClient builds a Client over a fresh Transport that dials the cluster.
func NewClient(c *fk.Cluster) (*kafka.Client, *kafka.Transport) {
	tr := &kafka.Transport{Dial: c.Dial, DialTimeout: 3 * time.Second, IdleTimeout: 30 * time.Second, MetadataTTL: 6 * time.Second, ClientID: "verif"}
	return &kafka.Client{Addr: kafka.TCP("b1:9092"), Transport: tr, Timeout: 5 * time.Second}, tr
}

func es(err error) string { return hx.ErrString(err) }

// ReadRecords drains a RecordReader: "off:key=value@ts[h=v],..."
func ReadRecords(r kafka.RecordReader) (string, error) {
	s := ""
	for {
		rec, err := r.ReadRecord()
		if err != nil {
			if err == io.EOF {
				return s, nil
			}
			return s, err
		}
		var k, v []byte
		if rec.Key != nil {
			k, _ = protocol.ReadAll(rec.Key)
		}
		if rec.Value != nil {
			v, _ = protocol.ReadAll(rec.Value)
		}
		hs := ""
		for _, h := range rec.Headers {
			hs += fmt.Sprintf("[%s=%s]", h.Key, h.Value)
		}
		s += fmt.Sprintf("%d:%s=%s@%d%s,", rec.Offset, k, v, rec.Time.UnixMilli(), hs)
	}
}

func Ops() []Op {
	return []Op{
		{Name: "metadata", Key: protocol.Metadata, Run: func(ctx context.Context, c *kafka.Client) (string, error) {
			r, err := c.Metadata(ctx, &kafka.MetadataRequest{Topics: []string{"t", "u"}})
			if err != nil {
				return "", err
			}
			s := fmt.Sprintf("ctl=%d brokers=%d ", r.Controller.ID, len(r.Brokers))
			for _, t := range r.Topics {
				s += t.Name + es(t.Error) + "["
				for _, p := range t.Partitions {
					s += fmt.Sprintf("%d@%d ", p.ID, p.Leader.ID)
				}
				s += "] "
			}
			return s, nil
		}},
		{Name: "list-offsets", Key: protocol.ListOffsets, Run: func(ctx context.Context, c *kafka.Client) (string, error) {
			r, err := c.ListOffsets(ctx, &kafka.ListOffsetsRequest{Topics: map[string][]kafka.OffsetRequest{
				"t": {kafka.FirstOffsetOf(0), kafka.LastOffsetOf(0), kafka.TimeOffsetOf(0, time.UnixMilli(1500))},
				"u": {kafka.FirstOffsetOf(0), kafka.LastOffsetOf(1)}}})
			if err != nil {
				return "", err
			}
			return FmtListOffsets(r), nil
		}},
		{Name: "fetch", Key: protocol.Fetch, Run: func(ctx context.Context, c *kafka.Client) (string, error) {
			r, err := c.Fetch(ctx, &kafka.FetchRequest{Topic: "t", Partition: 0, Offset: 0, MinBytes: 1, MaxBytes: 1 << 20, MaxWait: 100 * time.Millisecond})
			if err != nil {
				return "", err
			}
			s, rerr := ReadRecords(r.Records)
			if rerr != nil {
				return s, rerr
			}
			return fmt.Sprintf("hwm=%d err=%s %s", r.HighWatermark, es(r.Error), s), nil
		}},
		{Name: "produce", Key: protocol.Produce, Run: func(ctx context.Context, c *kafka.Client) (string, error) {
			r, err := c.Produce(ctx, &kafka.ProduceRequest{Topic: "t", Partition: 0, RequiredAcks: kafka.RequireAll,
				Records: kafka.NewRecordReader(kafka.Record{Key: kafka.NewBytes([]byte("k")), Value: kafka.NewBytes([]byte("new"))})})
			if err != nil {
				return "", err
			}
			return fmt.Sprintf("base=%d err=%s", r.BaseOffset, es(r.Error)), nil
		}},
		{Name: "offset-fetch", Key: protocol.OffsetFetch, Run: func(ctx context.Context, c *kafka.Client) (string, error) {
			r, err := c.OffsetFetch(ctx, &kafka.OffsetFetchRequest{GroupID: "g", Topics: map[string][]int{"t": {0}, "u": {0, 1}}})
			if err != nil {
				return "", err
			}
			var ts []string
			for t := range r.Topics {
				ts = append(ts, t)
			}
			sort.Strings(ts)
			s := "err=" + es(r.Error) + " "
			for _, t := range ts {
				for _, p := range r.Topics[t] {
					s += fmt.Sprintf("%s/%d=%d(%s) ", t, p.Partition, p.CommittedOffset, es(p.Error))
				}
			}
			return s, nil
		}},
		{Name: "offset-commit", Key: protocol.OffsetCommit, Run: func(ctx context.Context, c *kafka.Client) (string, error) {
			r, err := c.OffsetCommit(ctx, &kafka.OffsetCommitRequest{GroupID: "g", GenerationID: -1, Topics: map[string][]kafka.OffsetCommit{"t": {{Partition: 0, Offset: 3}}, "u": {{Partition: 1, Offset: 7}}}})
			if err != nil {
				return "", err
			}
			var ts []string
			for t := range r.Topics {
				ts = append(ts, t)
			}
			sort.Strings(ts)
			s := ""
			for _, t := range ts {
				for _, p := range r.Topics[t] {
					s += fmt.Sprintf("%s/%d(%s) ", t, p.Partition, es(p.Error))
				}
			}
			return s, nil
		}},
		{Name: "find-coordinator", Key: protocol.FindCoordinator, Run: func(ctx context.Context, c *kafka.Client) (string, error) {
			r, err := c.FindCoordinator(ctx, &kafka.FindCoordinatorRequest{Key: "g", KeyType: kafka.CoordinatorKeyTypeConsumer})
			if err != nil {
				return "", err
			}
			if r.Coordinator == nil {
				return "nil " + es(r.Error), nil
			}
			return fmt.Sprintf("%d@%s:%d %s", r.Coordinator.NodeID, r.Coordinator.Host, r.Coordinator.Port, es(r.Error)), nil
		}},
		{Name: "join-group", Key: protocol.JoinGroup, Run: func(ctx context.Context, c *kafka.Client) (string, error) {
			r, err := c.JoinGroup(ctx, &kafka.JoinGroupRequest{GroupID: "g", SessionTimeout: 6 * time.Second, RebalanceTimeout: 6 * time.Second, ProtocolType: "consumer",
				Protocols: []kafka.GroupProtocol{{Name: "range", Metadata: kafka.GroupProtocolSubscription{Topics: []string{"t"}}}}})
			if err != nil {
				return "", err
			}
			return fmt.Sprintf("gen=%d proto=%s leader=%v members=%d %s", r.GenerationID, r.ProtocolName, r.LeaderID == r.MemberID, len(r.Members), es(r.Error)), nil
		}},
		{Name: "sync-group", Key: protocol.SyncGroup, Run: func(ctx context.Context, c *kafka.Client) (string, error) {
			r, err := c.SyncGroup(ctx, &kafka.SyncGroupRequest{GroupID: "g", GenerationID: 1, MemberID: "member-x", ProtocolType: "consumer", ProtocolName: "range"})
			if err != nil {
				return "", err
			}
			return fmt.Sprintf("%v %s", r.Assignment.AssignedPartitions, es(r.Error)), nil
		}},
		{Name: "heartbeat", Key: protocol.Heartbeat, Run: func(ctx context.Context, c *kafka.Client) (string, error) {
			r, err := c.Heartbeat(ctx, &kafka.HeartbeatRequest{GroupID: "g", GenerationID: 1, MemberID: "member-x"})
			if err != nil {
				return "", err
			}
			return es(r.Error), nil
		}},
		{Name: "leave-group", Key: protocol.LeaveGroup, Run: func(ctx context.Context, c *kafka.Client) (string, error) {
			r, err := c.LeaveGroup(ctx, &kafka.LeaveGroupRequest{GroupID: "g", Members: []kafka.LeaveGroupRequestMember{{ID: "member-x"}}})
			if err != nil {
				return "", err
			}
			return es(r.Error), nil
		}},
		{Name: "create-topics", Key: protocol.CreateTopics, Run: func(ctx context.Context, c *kafka.Client) (string, error) {
			r, err := c.CreateTopics(ctx, &kafka.CreateTopicsRequest{Topics: []kafka.TopicConfig{{Topic: "new", NumPartitions: 1, ReplicationFactor: 1}}})
			if err != nil {
				return "", err
			}
			return fmt.Sprint(r.Errors), nil
		}},
		{Name: "delete-topics", Key: protocol.DeleteTopics, Run: func(ctx context.Context, c *kafka.Client) (string, error) {
			r, err := c.DeleteTopics(ctx, &kafka.DeleteTopicsRequest{Topics: []string{"u"}})
			if err != nil {
				return "", err
			}
			return fmt.Sprint(r.Errors), nil
		}},
		{Name: "api-versions", Key: protocol.ApiVersions, Run: func(ctx context.Context, c *kafka.Client) (string, error) {
			r, err := c.ApiVersions(ctx, &kafka.ApiVersionsRequest{})
			if err != nil {
				return "", err
			}
			return fmt.Sprintf("%d %s", len(r.ApiKeys), es(r.Error)), nil
		}},
	}
}

func FmtListOffsets(r *kafka.ListOffsetsResponse) string {
	var ts []string
	for t := range r.Topics {
		ts = append(ts, t)
	}
	sort.Strings(ts)
	var sb strings.Builder
	for _, t := range ts {
		ps := append([]kafka.PartitionOffsets(nil), r.Topics[t]...)
		sort.Slice(ps, func(i, j int) bool { return ps[i].Partition < ps[j].Partition })
		for _, p := range ps {
			var offs []string
			for o, tm := range p.Offsets {
				offs = append(offs, fmt.Sprintf("%d@%d", o, tm.UnixMilli()))
			}
			sort.Strings(offs)
			fmt.Fprintf(&sb, "%s/%d first=%d last=%d offs=%v err=%s; ", t, p.Partition, p.FirstOffset, p.LastOffset, offs, es(p.Error))
		}
	}
	return sb.String()
}
