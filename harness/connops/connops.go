// Package connops: the table of kafka.Conn operations shared by the Conn-level harnesses (C11, C17, C19).
package connops

import (
	"fmt"
	"time"

	kafka "github.com/segmentio/kafka-go"
	"github.com/segmentio/kafka-go/protocol"

	"verif/engine/fk"
	"verif/harness/hx"
)

type Op struct {
	Name  string
	Key   protocol.ApiKey
	Vers  map[protocol.ApiKey]fk.VRange
	Run   func(c *kafka.Conn) (string, error)
	ErrAt string // answer prefix for the injected error ("err" or "err@top")
}

func Ops() []Op {
	var l []Op
	for _, v := range []int16{2, 3, 7} {
		v := v
		for _, codec := range []string{"none", "gzip"} {
			codec := codec
			l = append(l, Op{Name: fmt.Sprintf("produce-v%d-%s", v, codec), Key: protocol.Produce, Vers: map[protocol.ApiKey]fk.VRange{protocol.Produce: {0, v}},
				Run: func(c *kafka.Conn) (string, error) {
					var n int
					var err error
					if codec == "gzip" {
						n, err = c.WriteCompressedMessages(kafka.Gzip.Codec(), kafka.Message{Value: []byte("new")})
					} else {
						n, err = c.WriteMessages(kafka.Message{Value: []byte("new")})
					}
					return fmt.Sprint("n=", n), err
				}})
		}
	}
	for _, v := range []int16{2, 5, 10} {
		v := v
		l = append(l, Op{Name: fmt.Sprintf("fetch-v%d", v), Key: protocol.Fetch, Vers: map[protocol.ApiKey]fk.VRange{protocol.Fetch: {0, v}},
			Run: func(c *kafka.Conn) (string, error) {
				b := c.ReadBatch(1, 1<<20)
				s, err := hx.ReadAll(b, 100)
				cerr := b.Close()
				if cerr != nil {
					return s + " close=" + hx.ErrString(cerr), cerr
				}
				if hx.ErrString(err) == "io.EOF" {
					err = nil
				}
				return s, err
			}})
	}
	l = append(l, Op{Name: "fetch-v10-toperr", Key: protocol.Fetch, ErrAt: "err@top", Run: func(c *kafka.Conn) (string, error) {
		b := c.ReadBatch(1, 1<<20)
		s, err := hx.ReadAll(b, 100)
		cerr := b.Close()
		if cerr != nil {
			return s, cerr
		}
		if hx.ErrString(err) == "io.EOF" {
			err = nil
		}
		return s, err
	}})
	l = append(l,
		Op{Name: "first-offset", Key: protocol.ListOffsets, Run: func(c *kafka.Conn) (string, error) { o, err := c.ReadFirstOffset(); return fmt.Sprint(o), err }},
		Op{Name: "last-offset", Key: protocol.ListOffsets, Run: func(c *kafka.Conn) (string, error) { o, err := c.ReadLastOffset(); return fmt.Sprint(o), err }},
		Op{Name: "offset-at", Key: protocol.ListOffsets, Run: func(c *kafka.Conn) (string, error) {
			o, err := c.ReadOffset(time.UnixMilli(1500))
			return fmt.Sprint(o), err
		}},
		Op{Name: "offsets", Key: protocol.ListOffsets, Run: func(c *kafka.Conn) (string, error) { a, b, err := c.ReadOffsets(); return fmt.Sprint(a, b), err }},
		Op{Name: "seek-end", Key: protocol.ListOffsets, Run: func(c *kafka.Conn) (string, error) { o, err := c.Seek(0, kafka.SeekEnd); return fmt.Sprint(o), err }},
	)
	for _, v := range []int16{1, 6} {
		v := v
		l = append(l, Op{Name: fmt.Sprintf("partitions-v%d", v), Key: protocol.Metadata, Vers: map[protocol.ApiKey]fk.VRange{protocol.Metadata: {0, v}},
			Run: func(c *kafka.Conn) (string, error) {
				ps, err := c.ReadPartitions("t", "u")
				s := ""
				for _, p := range ps {
					s += fmt.Sprintf("%s/%d@%d ", p.Topic, p.ID, p.Leader.ID)
				}
				return s, err
			}})
	}
	l = append(l,
		Op{Name: "brokers", Key: protocol.Metadata, Run: func(c *kafka.Conn) (string, error) { b, err := c.Brokers(); return fmt.Sprint(len(b)), err }},
		Op{Name: "controller", Key: protocol.Metadata, Run: func(c *kafka.Conn) (string, error) { b, err := c.Controller(); return fmt.Sprint(b.ID), err }},
		Op{Name: "api-versions", Key: protocol.ApiVersions, Run: func(c *kafka.Conn) (string, error) { v, err := c.ApiVersions(); return fmt.Sprint(len(v)), err }},
		Op{Name: "find-coordinator", Key: protocol.FindCoordinator, Run: func(c *kafka.Conn) (string, error) { return kafka.VerifFindCoordinator(c, "g") }},
		Op{Name: "join-group", Key: protocol.JoinGroup, Run: func(c *kafka.Conn) (string, error) {
			g, m, l, n, err := kafka.VerifJoinGroup(c, "g", "", []string{"t"})
			return fmt.Sprint(g, m != "", l != "", n), err
		}},
		Op{Name: "join-group-v1", Key: protocol.JoinGroup, Vers: map[protocol.ApiKey]fk.VRange{protocol.JoinGroup: {0, 1}}, Run: func(c *kafka.Conn) (string, error) {
			g, m, l, n, err := kafka.VerifJoinGroup(c, "g", "", []string{"t"})
			return fmt.Sprint(g, m != "", l != "", n), err
		}},
		Op{Name: "sync-group", Key: protocol.SyncGroup, Run: func(c *kafka.Conn) (string, error) {
			b, err := kafka.VerifSyncGroup(c, "g", 1, "member-x", map[string][]byte{"member-x": []byte("a")})
			return fmt.Sprintf("%q", b), err
		}},
		Op{Name: "heartbeat", Key: protocol.Heartbeat, Run: func(c *kafka.Conn) (string, error) { return "", kafka.VerifHeartbeat(c, "g", 1, "member-x") }},
		Op{Name: "leave-group", Key: protocol.LeaveGroup, Run: func(c *kafka.Conn) (string, error) { return "", kafka.VerifLeaveGroup(c, "g", "member-x") }},
		Op{Name: "offset-commit", Key: protocol.OffsetCommit, Run: func(c *kafka.Conn) (string, error) { return "", kafka.VerifOffsetCommit(c, "g", -1, "", "t", 0, 3) }},
		Op{Name: "offset-fetch", Key: protocol.OffsetFetch, Run: func(c *kafka.Conn) (string, error) { return kafka.VerifOffsetFetch(c, "g", "t", []int32{0}) }},
		Op{Name: "create-topics", Key: protocol.CreateTopics, Run: func(c *kafka.Conn) (string, error) {
			return "", c.CreateTopics(kafka.TopicConfig{Topic: "new", NumPartitions: 1, ReplicationFactor: 1})
		}},
		Op{Name: "delete-topics", Key: protocol.DeleteTopics, Run: func(c *kafka.Conn) (string, error) { return "", c.DeleteTopics("u") }},
	)
	return l
}

func MkCluster(a, b *Op) *fk.Cluster {
	c := hx.NewCluster()
	over := map[protocol.ApiKey]fk.VRange{}
	for _, o := range []*Op{a, b} {
		if o != nil {
			for k, v := range o.Vers {
				over[k] = v
			}
		}
	}
	vs := hx.Versions(over)
	c.Versions = map[int]map[protocol.ApiKey]fk.VRange{1: vs, 2: vs}
	return c
}
