// Package hx: shared helpers for harnesses that drive kafka.Conn / Client
// against the fake cluster (engine/fk).
package hx

import (
	"context"
	"errors"
	"fmt"
	"io"
	"net"
	"os"
	"time"

	kafka "github.com/segmentio/kafka-go"
	"github.com/segmentio/kafka-go/protocol"

	"verif/engine/fk"
	"verif/engine/refwire"
)

// NewCluster builds the standard small cluster: 2 brokers, topic t (1 partition,
// 5 records in two v2 batches, offsets 0..4, log start 0), topic u (2 partitions, empty).
func NewCluster() *fk.Cluster {
	c := fk.New(2)
	c.Auto = true
	c.AddTopic("t", 1, nil)
	c.AddTopic("u", 2, func(p int) int { return 1 + p%2 })
	p := c.Part("t", 0)
	p.Append(&refwire.Batch{Format: 2, Base: 0, Last: 2, Recs: []refwire.Rec{{Offset: 0, TS: 1000, Key: []byte("k0"), Value: []byte("v0")}, {Offset: 1, TS: 1001, Value: []byte("v1")}, {Offset: 2, TS: 1002, Key: []byte("k2"), Value: []byte("v2")}}})
	p.Append(&refwire.Batch{Format: 2, Base: 3, Last: 4, Recs: []refwire.Rec{{Offset: 3, TS: 2000, Value: []byte("v3")}, {Offset: 4, TS: 2001, Value: []byte("v4"), Headers: []refwire.Hdr{{Key: "h", Value: []byte("x")}}}}})
	return c
}

// Conn opens a kafka.Conn to broker 1 bound to topic/partition.
func Conn(c *fk.Cluster, topic string, part int) (*kafka.Conn, int) {
	nc, err := c.Dial(context.Background(), "tcp", "b1:9092")
	if err != nil {
		panic(err)
	}
	id := len(c.Conns) - 1
	conn := kafka.NewConnWith(nc, kafka.ConnConfig{ClientID: "verif", Topic: topic, Partition: part})
	conn.SetDeadline(time.Now().Add(10 * time.Second))
	return conn, id
}

func ErrString(err error) string {
	if err == nil {
		return "<nil>"
	}
	var ke kafka.Error
	if errors.As(err, &ke) {
		return fmt.Sprintf("kafka.Error(%d)", int(ke))
	}
	switch {
	case errors.Is(err, io.ErrUnexpectedEOF):
		return "io.ErrUnexpectedEOF"
	case errors.Is(err, io.EOF):
		return "io.EOF"
	case errors.Is(err, io.ErrNoProgress):
		return "io.ErrNoProgress"
	case errors.Is(err, context.Canceled):
		return "context.Canceled"
	}
	// a read deadline and the context deadline expire at the same virtual instant; which
	// one is reported first is up to the runtime, so both are called "timeout"
	var ne net.Error
	if errors.Is(err, context.DeadlineExceeded) || errors.Is(err, os.ErrDeadlineExceeded) || (errors.As(err, &ne) && ne.Timeout()) {
		return "timeout"
	}
	s := err.Error()
	if len(s) > 100 {
		s = s[:100]
	}
	return s
}

func IsKafkaErr(err error) bool {
	var ke kafka.Error
	return errors.As(err, &ke)
}

// Versions returns a copy of the default version table with overrides.
func Versions(over map[protocol.ApiKey]fk.VRange) map[protocol.ApiKey]fk.VRange {
	m := map[protocol.ApiKey]fk.VRange{}
	for k, v := range fk.DefaultVersions {
		m[k] = v
	}
	for k, v := range over {
		m[k] = v
	}
	return m
}

// ReadAll drains a batch: returns "off:key=value@ts,..." and the terminating error.
func ReadAll(b *kafka.Batch, max int) (string, error) {
	s := ""
	for i := 0; i < max; i++ {
		m, err := b.ReadMessage()
		if err != nil {
			return s, err
		}
		s += fmt.Sprintf("%d:%s=%s@%d,", m.Offset, m.Key, m.Value, m.Time.UnixMilli())
	}
	return s, nil
}
