// Package wr drives the real kafka.Writer against a fake cluster exposed as a
// kafka.RoundTripper (Writer.Transport seam). Shared by C01, C07, C08 and the
// Writer part of C09; each property has its own oracle over the same journals.
package wr

import (
	"context"
	"errors"
	"fmt"
	"io"
	"net"
	"sort"
	"sync"
	"time"

	kafka "github.com/segmentio/kafka-go"
	"github.com/segmentio/kafka-go/protocol"
	"github.com/segmentio/kafka-go/protocol/metadata"
	"github.com/segmentio/kafka-go/protocol/produce"

	"github.com/segmentio/kafka-go/zzverif/vhook"

	"verif/engine/qx"
)

type rec struct {
	Key, Value string
	Size       int // Message.totalSize equivalent
	NHeaders   int
}

// attempt is one produce request seen by the cluster.
type attempt struct {
	Seq        int
	At         time.Duration
	Topic      string
	Part       int
	Acks       int16
	NTopics    int
	NParts     int
	Recs       []rec
	Answer     string
	Applied    bool
	Acked      bool
	Base       int64
	AnsweredAt time.Duration
	Overlap    bool // another produce for the same topic-partition was outstanding on arrival
	done       chan struct{}
	resp       protocol.Message
	err        error
	ctx        context.Context
	stalled    bool
	isMeta     bool
	metaTopic  string
}

type tp struct {
	Topic string
	Part  int
}

type cluster struct {
	x          *qx.Exec
	mu         sync.Mutex
	topics     map[string]int // partitions per topic
	log        map[tp][]rec
	logFrom    map[tp][]int // attempt seq of each log record
	journal    []*attempt
	pending    []*attempt
	metaEvents bool
	faults     []string
	metaFaults []string
	nmeta      int
}

func newCluster(x *qx.Exec, topics map[string]int) *cluster {
	return &cluster{x: x, topics: topics, log: map[tp][]rec{}, logFrom: map[tp][]int{}}
}

func (c *cluster) RoundTrip(ctx context.Context, addr net.Addr, req kafka.Request) (kafka.Response, error) {
	// serialise arrivals deterministically (goroutines woken by the same timer
	// instant would otherwise reach the journal in an order chosen by the runtime)
	vhook.Point(vhook.KUser, nil)
	switch r := req.(type) {
	case *metadata.Request:
		c.mu.Lock()
		c.nmeta++
		if !c.metaEvents {
			resp := c.metaResponse(r.TopicNames, 0)
			c.mu.Unlock()
			return resp, nil
		}
		a := &attempt{Seq: len(c.journal), At: c.x.Now(), isMeta: true, done: make(chan struct{}), ctx: ctx}
		if len(r.TopicNames) > 0 {
			a.metaTopic = r.TopicNames[0]
		}
		c.journal = append(c.journal, a)
		c.pending = append(c.pending, a)
		c.mu.Unlock()
		c.x.Notify()
		select {
		case <-a.done:
			return a.resp, a.err
		case <-ctx.Done():
			c.drop(a)
			return nil, ctx.Err()
		}
	case *produce.Request:
		a := &attempt{At: c.x.Now(), done: make(chan struct{}), ctx: ctx, Acks: r.Acks, NTopics: len(r.Topics)}
		if len(r.Topics) > 0 {
			a.Topic = r.Topics[0].Topic
			a.NParts = len(r.Topics[0].Partitions)
			if a.NParts > 0 {
				p := &r.Topics[0].Partitions[0]
				a.Part = int(p.Partition)
				if p.RecordSet.Records != nil {
					for {
						rr, err := p.RecordSet.Records.ReadRecord()
						if err != nil {
							break
						}
						var k, v []byte
						ks, vs := -1, -1
						if rr.Key != nil {
							k, _ = protocol.ReadAll(rr.Key)
							ks = len(k)
						}
						if rr.Value != nil {
							v, _ = protocol.ReadAll(rr.Value)
							vs = len(v)
						}
						a.Recs = append(a.Recs, rec{Key: string(k), Value: string(v), Size: msgSize(ks, vs, rr.Headers), NHeaders: len(rr.Headers)})
					}
				}
			}
		}
		if len(a.Recs) == 0 {
			// what Transport does for produce v3+: nothing is sent
			c.mu.Lock()
			a.Seq = len(c.journal)
			a.Answer = "norecord"
			c.journal = append(c.journal, a)
			c.mu.Unlock()
			return nil, fmt.Errorf("fake transport: %w", protocol.ErrNoRecord)
		}
		c.mu.Lock()
		a.Seq = len(c.journal)
		for _, p := range c.pending {
			if !p.isMeta && p.Topic == a.Topic && p.Part == a.Part {
				a.Overlap = true
			}
		}
		c.journal = append(c.journal, a)
		c.pending = append(c.pending, a)
		c.mu.Unlock()
		c.x.Notify()
		select {
		case <-a.done:
			return a.resp, a.err
		case <-ctx.Done():
			c.drop(a)
			return nil, ctx.Err()
		}
	}
	return nil, fmt.Errorf("fake cluster: unsupported request %T", req)
}

func msgSize(k, v int, hs []protocol.Header) int {
	// mirrors Message.totalSize: 4+1+1+sizeofBytes(key)+sizeofBytes(value)+8 + header varints
	sz := 4 + 1 + 1 + 8 + 4 + 4
	if k > 0 {
		sz += k
	}
	if v > 0 {
		sz += v
	}
	sz += varLen(int64(len(hs)))
	for _, h := range hs {
		sz += varLen(int64(len(h.Key))) + len(h.Key) + varLen(int64(len(h.Value))) + len(h.Value)
	}
	return sz
}

func varLen(i int64) int {
	u := uint64((i << 1) ^ (i >> 63))
	n := 1
	for u >= 0x80 {
		u >>= 7
		n++
	}
	return n
}

func (c *cluster) drop(a *attempt) {
	c.mu.Lock()
	for i, p := range c.pending {
		if p == a {
			c.pending = append(c.pending[:i], c.pending[i+1:]...)
			break
		}
	}
	if a.Answer == "" {
		a.Answer = "abandoned"
	}
	a.AnsweredAt = c.x.Now()
	c.mu.Unlock()
	c.x.Notify()
}

func (c *cluster) metaResponse(names []string, code int16) *metadata.Response {
	resp := &metadata.Response{Brokers: []metadata.ResponseBroker{{NodeID: 1, Host: "b1", Port: 9092}}, ControllerID: 1}
	for _, n := range names {
		np, ok := c.topics[n]
		t := metadata.ResponseTopic{Name: n}
		if !ok {
			t.ErrorCode = int16(kafka.UnknownTopicOrPartition)
		} else if code != 0 {
			t.ErrorCode = code
		} else {
			for i := 0; i < np; i++ {
				t.Partitions = append(t.Partitions, metadata.ResponsePartition{PartitionIndex: int32(i), LeaderID: 1, ReplicaNodes: []int32{1}, IsrNodes: []int32{1}})
			}
		}
		resp.Topics = append(resp.Topics, t)
	}
	return resp
}

// answer applies one of the answers of the alphabet to a pending request.
func (c *cluster) answer(a *attempt, ans string) {
	c.mu.Lock()
	for i, p := range c.pending {
		if p == a {
			c.pending = append(c.pending[:i], c.pending[i+1:]...)
			break
		}
	}
	a.Answer = ans
	a.AnsweredAt = c.x.Now()
	if a.isMeta {
		switch ans {
		case "ok":
			a.resp = c.metaResponse([]string{a.metaTopic}, 0)
		case "meta-cut":
			a.err = fmt.Errorf("fake transport: %w", io.ErrUnexpectedEOF)
		default:
			var code int
			fmt.Sscanf(ans, "meta-err:%d", &code)
			a.resp = c.metaResponse([]string{a.metaTopic}, int16(code))
		}
		c.mu.Unlock()
		close(a.done)
		return
	}
	key := tp{a.Topic, a.Part}
	apply := func() {
		a.Applied = true
		a.Base = int64(len(c.log[key]))
		for range a.Recs {
			c.logFrom[key] = append(c.logFrom[key], a.Seq)
		}
		c.log[key] = append(c.log[key], a.Recs...)
	}
	mk := func(code int16, base int64) *produce.Response {
		return &produce.Response{Topics: []produce.ResponseTopic{{Topic: a.Topic, Partitions: []produce.ResponsePartition{{Partition: int32(a.Part), ErrorCode: code, BaseOffset: base, LogAppendTime: -1}}}}}
	}
	switch ans {
	case "ack":
		apply()
		a.Acked = true
		a.resp = mk(0, a.Base)
	case "lost": // applied, acknowledgement lost with the connection
		apply()
		a.err = fmt.Errorf("fake transport: %w", io.ErrUnexpectedEOF)
	case "cut": // connection lost before the broker saw the request
		a.err = fmt.Errorf("fake transport: %w", io.ErrUnexpectedEOF)
	case "stall", "stall-applied":
		if ans == "stall-applied" {
			apply()
		}
		a.stalled = true
		c.mu.Unlock()
		return // RoundTrip returns when its context expires
	default:
		var code int
		if _, err := fmt.Sscanf(ans, "err:%d", &code); err != nil {
			panic("bad answer " + ans)
		}
		a.resp = mk(int16(code), -1)
	}
	c.mu.Unlock()
	close(a.done)
}

func (c *cluster) actions() []qx.Action {
	c.mu.Lock()
	ps := append([]*attempt(nil), c.pending...)
	c.mu.Unlock()
	var acts []qx.Action
	for _, a := range ps {
		if a.stalled {
			continue
		}
		a := a
		if a.isMeta {
			acts = append(acts, qx.Action{Label: fmt.Sprintf("meta#%d:ok", a.Seq), Do: func() { c.answer(a, "ok") }})
			continue
		}
		acts = append(acts, qx.Action{Label: fmt.Sprintf("prod#%d(%s/%d):ack", a.Seq, a.Topic, a.Part), Do: func() { c.answer(a, "ack") }})
	}
	for _, a := range ps {
		if a.stalled {
			continue
		}
		a := a
		fl := c.faults
		if a.isMeta {
			fl = c.metaFaults
		}
		for _, f := range fl {
			f := f
			if a.isMeta {
				acts = append(acts, qx.Action{Label: fmt.Sprintf("meta#%d:%s", a.Seq, f), Do: func() { c.answer(a, f) }})
			} else {
				acts = append(acts, qx.Action{Label: fmt.Sprintf("prod#%d(%s/%d):%s", a.Seq, a.Topic, a.Part, f), Do: func() { c.answer(a, f) }})
			}
		}
	}
	return acts
}

func (c *cluster) produceAttempts() []*attempt {
	c.mu.Lock()
	defer c.mu.Unlock()
	var r []*attempt
	for _, a := range c.journal {
		if !a.isMeta {
			r = append(r, a)
		}
	}
	return r
}

func sortedTPs(m map[tp][]rec) []tp {
	var ks []tp
	for k := range m {
		ks = append(ks, k)
	}
	sort.Slice(ks, func(i, j int) bool {
		if ks[i].Topic != ks[j].Topic {
			return ks[i].Topic < ks[j].Topic
		}
		return ks[i].Part < ks[j].Part
	})
	return ks
}

var errIsCtx = func(err error) bool {
	return errors.Is(err, context.Canceled) || errors.Is(err, context.DeadlineExceeded)
}
