package wr

import (
	"context"
	"fmt"
	"strconv"
	"strings"
	"sync"
	"time"

	kafka "github.com/segmentio/kafka-go"
	"github.com/segmentio/kafka-go/protocol"

	"verif/engine/fk"
	"verif/engine/qx"
)

// The scenario class "the connection ends inside a produce response": the real Writer over a real kafka.Transport
// against the fake broker, as in transport.go. One thread submits batch A = {a1,a2} and then batch B = {b1,b2}
// to one partition (MaxAttempts 2). The produce request number `target` (0 = the first one the broker receives)
// is answered with `kind` ("" = applied and acknowledged, "err:<code>" = refused, nothing applied), but only the
// first k bytes of the response frame reach the client before the broker closes the connection; every other
// request is answered normally. One scenario per (kind, target, k), k = 0 .. cutSweepMax; each execution checks
// that cutSweepMax is not below the length of the response, so the sweep covers every cut point of it (a k at or
// beyond the length is "the complete answer, then the connection closes"). Where only the default schedule is run
// (strict), an execution in which the cut answer was not used is reported as a defect of the harness.
//
// Oracle (C01): a call that returned nil, and a Completion that reported nil, has each of its messages in a
// produce request that the broker applied and whose acknowledgement reached the client in full.
const cutSweepMax = 72

func cutScenario(prop, kind string, target, k int, strict bool) *qx.Scenario {
	kn := kind
	if kn == "" {
		kn = "ok"
	}
	scn := &qx.Scenario{Name: fmt.Sprintf("writer-over-transport-produce-response-cut-%s-req%d-k%02d", kn, target, k),
		Cfg: qx.Config{Horizon: 60 * time.Second, Quantum: 3 * time.Second, Grace: 8 * time.Second, MaxSteps: 200}}
	fault := "cut:" + strconv.Itoa(k)
	if kind != "" {
		fault = kind + "+" + fault
	}
	scn.Body = func(x *qx.Exec) *qx.Outcome {
		c := fk.New(1)
		c.AddTopic("A", 1, nil)
		c.OnEvent = x.Notify
		tr := &kafka.Transport{Dial: c.Dial, DialTimeout: 3 * time.Second, IdleTimeout: 60 * time.Second, MetadataTTL: 60 * time.Second}
		var mu sync.Mutex
		type call struct {
			ids  []string
			err  string
			done bool
		}
		type compl struct {
			ids []string
			err string
		}
		var compls []compl
		w := &kafka.Writer{Addr: kafka.TCP("b1:9092"), Topic: "A", Transport: tr, BatchSize: 2, BatchTimeout: 10 * time.Millisecond, MaxAttempts: 2,
			WriteTimeout: 2 * time.Second, ReadTimeout: 2 * time.Second, RequiredAcks: kafka.RequireOne, WriteBackoffMin: 50 * time.Millisecond, WriteBackoffMax: 100 * time.Millisecond}
		w.Completion = func(msgs []kafka.Message, err error) {
			cp := compl{}
			for _, m := range msgs {
				cp.ids = append(cp.ids, string(m.Value))
			}
			if err != nil {
				cp.err = err.Error()
			}
			mu.Lock()
			compls = append(compls, cp)
			mu.Unlock()
		}
		calls := []*call{{ids: []string{"a1", "a2"}}, {ids: []string{"b1", "b2"}}}
		x.Go("T0", func() {
			for _, cl := range calls {
				var msgs []kafka.Message
				for _, id := range cl.ids {
					msgs = append(msgs, kafka.Message{Value: []byte(id)})
				}
				err := w.WriteMessages(context.Background(), msgs...)
				mu.Lock()
				cl.done = true
				if err != nil {
					cl.err = err.Error()
				}
				mu.Unlock()
			}
		})
		ord, next := map[int]int{}, 0
		x.SetEnv(func() []qx.Action {
			var acts []qx.Action
			for _, e := range c.Pending() {
				e := e
				alt := ""
				if e.Key == protocol.Produce {
					if _, ok := ord[e.Seq]; !ok {
						ord[e.Seq] = next
						next++
					}
					if ord[e.Seq] == target {
						alt = fault
					}
				}
				acts = append(acts, qx.Action{Label: fmt.Sprintf("ans#%d(c%d,api%d):%s", e.Seq, e.Conn, e.Key, alt), Do: func() { c.Answer(e, alt) }})
			}
			return acts
		})
		st := x.Run()
		x.Release()
		for i := 0; i < 4; i++ {
			time.Sleep(500 * time.Millisecond)
			for _, e := range c.Pending() {
				c.Answer(e, "")
			}
		}
		w.Close()
		tr.CloseIdleConnections()
		mu.Lock()
		defer mu.Unlock()
		c.Lock()
		defer c.Unlock()
		o := &qx.Outcome{}
		viol := func(sig, msg string) {
			if o.Violation == "" {
				o.Violation, o.Sig = msg, sig
			}
		}
		// acknowledged = applied, and the whole acknowledgement was delivered (a cut at or beyond its end is complete)
		acked := map[string]bool{}
		var log, answers []string
		faulted, respLen := false, -1
		for _, e := range c.Journal {
			if e.Key != protocol.Produce {
				continue
			}
			answers = append(answers, e.Answer)
			if e.Answer == fault {
				faulted, respLen = true, e.RespBytes
			}
			if !e.Applied {
				continue
			}
			complete := e.Answer == "ok" || (strings.HasPrefix(e.Answer, "cut:") && k >= e.RespBytes)
			for _, b := range e.Batches {
				for _, r := range b.Recs {
					log = append(log, string(r.Value))
					if complete {
						acked[string(r.Value)] = true
					}
				}
			}
		}
		var res []string
		for _, cl := range calls {
			res = append(res, fmt.Sprintf("%v:%v:%s", cl.ids, cl.done, short(cl.err)))
		}
		o.Key = fmt.Sprintf("%s log=%v calls=%v produce-answers=%v", st, log, res, answers)
		what := fmt.Sprintf("the broker's answer (%s, %d bytes) to produce request #%d was cut after %d bytes and the connection closed", kn, respLen, target, k)
		if prop == "C01" {
			for _, cl := range calls {
				if !cl.done || cl.err != "" {
					continue
				}
				for _, id := range cl.ids {
					if !acked[id] {
						viol("nil-but-unacked-after-cut-response", fmt.Sprintf("WriteMessages%v returned nil but %s is in no produce request that the broker applied and acknowledged in full; %s (log %v, produce answers %v)", cl.ids, id, what, log, answers))
					}
				}
			}
			for _, cp := range compls {
				if cp.err != "" {
					continue
				}
				for _, id := range cp.ids {
					if !acked[id] {
						viol("completion-nil-but-unacked-after-cut-response", fmt.Sprintf("Completion%v reported nil but %s is in no produce request that the broker applied and acknowledged in full; %s (log %v, produce answers %v)", cp.ids, id, what, log, answers))
					}
				}
			}
		}
		switch {
		case st != qx.StDone:
			o.Other = "not-finished:" + string(st)
		case !faulted && !strict:
			// a deviation from the default schedule (an answer held back until the client gave up) can keep the
			// produce request from ever being sent
			o.Key += " cut-not-placed"
		case !faulted:
			viol("harness:cut-not-placed", fmt.Sprintf("harness: produce request #%d never arrived, the cut answer was not used (produce answers %v)", target, answers))
		case k == cutSweepMax && respLen > cutSweepMax:
			viol("harness:sweep-too-short", fmt.Sprintf("harness: the produce response is %d bytes long, the cut sweep ends at %d", respLen, cutSweepMax))
		}
		return o
	}
	return scn
}

// cutSweep: quick = the first produce request, acknowledged and refused with a retriable code, every k, default
// schedule; thorough = also the second produce request (the retry, or batch B), more error-code classes, and one
// schedule deviation.
func cutSweep(prop string, thorough bool) []qx.SuiteItem {
	kinds, targets, bound := []string{"", "err:6"}, []int{0}, 0
	if thorough {
		kinds, targets, bound = []string{"", "err:6", "err:7", "err:10", "err:-1"}, []int{0, 1}, 1
	}
	var items []qx.SuiteItem
	for _, kind := range kinds {
		for _, target := range targets {
			for k := 0; k <= cutSweepMax; k++ {
				items = append(items, qx.SuiteItem{Scn: cutScenario(prop, kind, target, k, bound == 0), Bound: bound, Whole: true, MinShare: 30 * time.Second})
			}
		}
	}
	return items
}
