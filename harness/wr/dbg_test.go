package wr

import (
	"fmt"
	"os"
	"testing"

	"verif/engine/qx"
)

func TestDbg(t *testing.T) {
	items := Suite(os.Getenv("VERIF_PROP"), "quick")
	for _, it := range items {
		if it.Scn.Name != os.Getenv("VERIF_ONLY") {
			continue
		}
		e := &qx.Explorer{T: t, Scn: it.Scn}
		for i := 0; i < 6; i++ {
			r := e.RunOne(nil)
			s := ""
			for _, st := range r.Steps {
				s += fmt.Sprintf("[%d/%d %s@%d]", st.Pick, st.N, st.Label, st.At)
			}
			fmt.Println(r.Status, s)
		}
	}
}
