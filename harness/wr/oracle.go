package wr

import (
	"fmt"
	"sort"
	"strconv"
	"strings"
	"time"

	kafka "github.com/segmentio/kafka-go"

	"verif/engine/qx"
)

type obs struct {
	Status   string              `json:"status"`
	Calls    []*callRec          `json:"calls"`
	Compl    []complRec          `json:"completions"`
	Attempts []*attempt          `json:"attempts"`
	Log      map[string][]string `json:"log"`
	Close    string              `json:"close"`
	Late     string              `json:"late,omitempty"`
	Blocked  []string            `json:"blocked,omitempty"`
}

func (w *world) judge(prop string, st qx.Status) *qx.Outcome {
	s := w.s
	atts := w.cl.produceAttempts()
	o := &qx.Outcome{}
	ob := &obs{Status: string(st), Calls: w.calls, Compl: w.compl, Attempts: atts, Log: map[string][]string{}, Late: w.lateErr}
	for _, k := range sortedTPs(w.cl.log) {
		var ids []string
		for _, r := range w.cl.log[k] {
			ids = append(ids, idOf(r.Value))
		}
		ob.Log[fmt.Sprintf("%s/%d", k.Topic, k.Part)] = ids
	}
	if w.closeReturned {
		ob.Close = fmt.Sprintf("returned@%v", w.closeEnd)
	} else if w.closeStartSeq > 0 {
		ob.Close = "blocked"
	} else {
		ob.Close = "not-called"
	}
	o.Obs = ob

	// outcome key: what an observer could tell apart
	var kb strings.Builder
	fmt.Fprintf(&kb, "%s;", st)
	for _, c := range w.calls {
		fmt.Fprintf(&kb, "T%d.%d=%s", c.Thread, c.Idx, c.Kind)
		if c.Werr != nil {
			for _, e := range c.Werr {
				if e {
					kb.WriteByte('E')
				} else {
					kb.WriteByte('.')
				}
			}
		}
		kb.WriteByte(' ')
	}
	for _, k := range sortedTPs(w.cl.log) {
		fmt.Fprintf(&kb, "%s/%d[", k.Topic, k.Part)
		for _, r := range w.cl.log[k] {
			kb.WriteString(idOf(r.Value) + ",")
		}
		kb.WriteString("]")
	}
	fmt.Fprintf(&kb, " att=%d close=%s late=%s", len(atts), ob.Close, w.lateErr)
	o.Key = kb.String()

	hung := st != qx.StDone
	if hung {
		var un []string
		for _, c := range w.calls {
			if !c.Returned {
				un = append(un, fmt.Sprintf("T%d.write%d", c.Thread, c.Idx))
			}
		}
		if w.closeStartSeq > 0 && !w.closeReturned {
			un = append(un, "close")
		}
		ob.Blocked = un
	}

	viol := func(sig, msg string) {
		if o.Violation == "" {
			o.Violation = msg
			o.Sig = sig
		}
	}

	// index: acked / applied attempts per message id
	type occ struct {
		a   *attempt
		pos int
	}
	byID := map[string][]occ{}
	for _, a := range atts {
		seen := map[string]bool{}
		for i, r := range a.Recs {
			id := idOf(r.Value)
			if seen[id] && prop == "C01" {
				viol("dup-in-request", fmt.Sprintf("message %s appears twice in produce request #%d", id, a.Seq))
			}
			seen[id] = true
			byID[id] = append(byID[id], occ{a, i})
		}
	}
	acked := func(id string) *occ {
		for i := range byID[id] {
			if byID[id][i].a.Acked {
				return &byID[id][i]
			}
		}
		return nil
	}
	accepted := func(c *callRec) bool {
		switch c.Kind {
		case "nil", "werrs", "ctx":
			return true
		case "":
			return !c.Returned && c.BalSeq >= 0 // still in flight
		}
		return false
	}

	switch prop {
	case "C01":
		if hung {
			o.Other = "C09:hang"
		}
		for _, c := range w.calls {
			if !c.Returned {
				continue
			}
			switch c.Kind {
			case "nil":
				if s.Async {
					break
				}
				for _, id := range c.IDs {
					oc := acked(id)
					if oc == nil {
						viol("nil-but-unacked", fmt.Sprintf("WriteMessages (T%d call %d) returned nil but message %s is in no acknowledged produce request", c.Thread, c.Idx, id))
					}
				}
			case "werrs":
				for i, id := range c.IDs {
					a := acked(id) != nil
					if a == c.Werr[i] {
						viol("werrs-mismatch", fmt.Sprintf("WriteErrors[%d] (T%d call %d, message %s): error=%v but acknowledged=%v", i, c.Thread, c.Idx, id, c.Werr[i], a))
					}
				}
			case "werrs-badlen":
				viol("werrs-badlen", "WriteErrors length differs from the number of messages")
			}
		}
		// placement: every record in the log sits in the partition the balancer chose
		for _, a := range atts {
			for _, r := range a.Recs {
				id := idOf(r.Value)
				if id == "late" {
					continue
				}
				wantT := w.idTopic[id]
				wantP, ok := w.balP[id]
				if !ok || a.Topic != wantT || a.Part != wantP {
					viol("wrong-partition", fmt.Sprintf("message %s sent to %s/%d, balancer chose %s/%d", id, a.Topic, a.Part, wantT, wantP))
				}
			}
		}
		// no attempt after an acknowledged one; duplicates only after a lost ack
		for id, ocs := range byID {
			ackedSeen := false
			for _, oc := range ocs {
				if ackedSeen {
					viol("attempt-after-ack", fmt.Sprintf("message %s was sent again (request #%d) after an acknowledged request", id, oc.a.Seq))
				}
				if oc.a.Acked {
					ackedSeen = true
				}
			}
		}
		// completions: exactly once per accepted message, same verdict, cluster coordinates
		nCompl := map[string]int{}
		for _, c := range w.compl {
			for i, id := range c.IDs {
				nCompl[id]++
				oc := acked(id)
				if (c.Err == "") != (oc != nil) {
					viol("completion-verdict", fmt.Sprintf("Completion for %s got err=%q but acknowledged=%v", id, c.Err, oc != nil))
				}
				if c.Err == "" && oc != nil {
					if c.Parts[i] != oc.a.Part || c.Tops[i] != oc.a.Topic || c.Offs[i] != oc.a.Base+int64(oc.pos) {
						viol("completion-coords", fmt.Sprintf("Completion for %s reports %s/%d@%d, cluster stored it at %s/%d@%d", id, c.Tops[i], c.Parts[i], c.Offs[i], oc.a.Topic, oc.a.Part, oc.a.Base+int64(oc.pos)))
					}
				}
			}
		}
		for id, n := range nCompl {
			if n > 1 {
				viol("completion-twice", fmt.Sprintf("Completion received message %s %d times", id, n))
			}
		}
		if !hung && w.closeReturned {
			for _, c := range w.calls {
				if !accepted(c) {
					continue
				}
				for _, id := range c.IDs {
					if nCompl[id] == 0 {
						viol("completion-missing", fmt.Sprintf("accepted message %s never reached Completion although Close returned", id))
					}
				}
			}
		}
		// calls that agree with completions (sync): nil <=> completion err nil is implied by the two checks above

	case "C07":
		if hung {
			o.Other = "C09:hang"
		}
		for _, a := range atts {
			if a.Overlap {
				viol("two-outstanding", fmt.Sprintf("produce request #%d for %s/%d arrived while another request for the same partition was outstanding", a.Seq, a.Topic, a.Part))
			}
		}
		// per partition, applied attempts in apply order
		perTP := map[tp][]*attempt{}
		for _, a := range atts {
			if a.Applied {
				perTP[tp{a.Topic, a.Part}] = append(perTP[tp{a.Topic, a.Part}], a)
			}
		}
		for k, as := range perTP {
			sort.Slice(as, func(i, j int) bool { return as[i].Base < as[j].Base })
			idx := func(a *attempt) map[int][]int {
				m := map[int][]int{}
				for _, r := range a.Recs {
					od, ok := w.idOrder[idOf(r.Value)]
					if ok {
						m[od[0]] = append(m[od[0]], od[1])
					}
				}
				return m
			}
			for i, a := range as {
				ia := idx(a)
				for t, l := range ia {
					for j := 1; j < len(l); j++ {
						if l[j] <= l[j-1] {
							viol("intra-batch-order", fmt.Sprintf("%s/%d: request #%d carries thread %d's messages out of submission order %v", k.Topic, k.Part, a.Seq, t, l))
						}
					}
				}
				for _, b := range as[i+1:] {
					ib := idx(b)
					for t, la := range ia {
						lb := ib[t]
						if len(lb) == 0 {
							continue
						}
						if fmt.Sprint(la) == fmt.Sprint(lb) {
							continue // copy of the same batch
						}
						if la[len(la)-1] >= lb[0] {
							viol("reorder", fmt.Sprintf("%s/%d: thread %d's messages %v (request #%d) were appended before its earlier messages %v (request #%d)", k.Topic, k.Part, t, la, a.Seq, lb, b.Seq))
						}
					}
				}
			}
		}

	case "C08":
		if hung {
			o.Other = "C09:hang"
		}
		bs := s.BatchSize
		if bs <= 0 {
			bs = 100
		}
		bb := s.BatchBytes
		if bb <= 0 {
			bb = 1048576
		}
		for _, a := range atts {
			if len(a.Recs) > bs {
				viol("too-many-messages", fmt.Sprintf("produce request #%d carries %d messages, BatchSize=%d", a.Seq, len(a.Recs), bs))
			}
			tot := 0
			for _, r := range a.Recs {
				tot += r.Size
			}
			if int64(tot) > bb {
				viol("too-many-bytes", fmt.Sprintf("produce request #%d carries %d bytes of messages, BatchBytes=%d", a.Seq, tot, bb))
			}
			if a.NTopics != 1 || a.NParts != 1 {
				viol("multi-partition-request", fmt.Sprintf("produce request #%d spans %d topics / %d partitions", a.Seq, a.NTopics, a.NParts))
			}
			tset := map[string]bool{}
			for _, r := range a.Recs {
				id := idOf(r.Value)
				if id != "late" {
					tset[fmt.Sprintf("%s/%d", w.idTopic[id], w.balP[id])] = true
				}
			}
			if len(tset) > 1 {
				viol("mixed-batch", fmt.Sprintf("produce request #%d mixes messages of different topic-partitions", a.Seq))
			}
		}
		for _, c := range w.calls {
			if c.Returned && (c.Kind == "toolarge" || c.Kind == "other") {
				for _, id := range c.IDs {
					if len(byID[id]) > 0 {
						viol("rejected-but-sent", fmt.Sprintf("call T%d.%d was rejected (%s) but its message %s was sent", c.Thread, c.Idx, c.Kind, id))
					}
				}
			}
			// the calls the property says must be rejected (a message above BatchBytes; a message-level topic, whatever
			// its name, on a Writer that has a writer-level topic): an error comes back and nothing of the call is sent
			if why := s.mustReject(c.Thread, c.Idx); why != "" {
				if c.Returned && (c.Kind == "nil" || c.Kind == "werrs" || c.Kind == "werrs-badlen") {
					viol("invalid-call-accepted", fmt.Sprintf("call T%d.%d (%s) was not rejected: WriteMessages returned %s", c.Thread, c.Idx, why, c.Kind))
				}
				for _, id := range c.IDs {
					if len(byID[id]) > 0 {
						viol("invalid-call-sent", fmt.Sprintf("call T%d.%d (%s) must be rejected before anything is sent, but its message %s reached a produce request", c.Thread, c.Idx, why, id))
					}
				}
			}
		}
		// scheduling without further input. Batches are reconstructed per partition.
		type batch struct {
			ids        string
			first      *attempt
			lastAnswer time.Duration
			finished   bool
			n, bytes   int
		}
		perTP := map[tp][]*batch{}
		for _, a := range atts {
			var ids []string
			tot := 0
			for _, r := range a.Recs {
				ids = append(ids, idOf(r.Value))
				tot += r.Size
			}
			key := strings.Join(ids, ",")
			k := tp{a.Topic, a.Part}
			l := perTP[k]
			if len(l) > 0 && l[len(l)-1].ids == key {
				b := l[len(l)-1]
				b.lastAnswer = a.AnsweredAt
				b.finished = a.Answer != "" && !a.stalled
				continue
			}
			perTP[k] = append(l, &batch{ids: key, first: a, lastAnswer: a.AnsweredAt, finished: a.Answer != "" && !a.stalled, n: len(ids), bytes: tot})
		}
		submitAt := map[string]time.Duration{}
		for _, c := range w.calls {
			for _, id := range c.IDs {
				submitAt[id] = c.Start
			}
		}
		if !s.Fine && !s.MetaEvents {
			for k, l := range perTP {
				var prevDone time.Duration
				for _, b := range l {
					ids := strings.Split(b.ids, ",")
					open := submitAt[ids[0]]
					full := b.n >= bs || int64(b.bytes) >= bb
					deadline := open + batchTimeout
					if full {
						deadline = submitAt[ids[len(ids)-1]]
					}
					if prevDone > deadline {
						deadline = prevDone
					}
					if b.first.At > deadline {
						viol("late-flush", fmt.Sprintf("%s/%d: batch [%s] opened at %v (full=%v, previous batch done at %v) was first sent at %v, later than %v", k.Topic, k.Part, b.ids, open, full, prevDone, b.first.At, deadline))
					}
					prevDone = b.lastAnswer
				}
			}
		}
		// accepted but never scheduled: only decidable when the run ended
		for _, c := range w.calls {
			if !accepted(c) || c.Kind == "ctx" {
				continue
			}
			for _, id := range c.IDs {
				if len(byID[id]) == 0 && (hung || w.closeReturned) {
					// a message with no produce attempt at all although time ran to the horizon or Close returned
					nr := false
					for _, a := range atts {
						if a.Answer == "norecord" {
							nr = true
						}
					}
					if !nr {
						viol("never-sent", fmt.Sprintf("accepted message %s (T%d call %d) was never put into a produce request (status %s)", id, c.Thread, c.Idx, st))
					}
				}
			}
		}

	case "C09":
		if hung {
			late := false
			for _, c := range w.calls {
				if w.closeStartSeq > 0 && c.StartSeq < w.closeStartSeq && (c.BalSeq == 0 || c.BalSeq > w.closeStartSeq) && !c.Returned {
					late = true
				}
			}
			_ = late
			sig := "hang:" + strings.Join(ob.Blocked, "+")
			viol(sig, fmt.Sprintf("execution did not finish within the virtual horizon: still blocked: %v", ob.Blocked))
			break
		}
		if w.closeReturned {
			// completions of everything accepted before Close must precede Close's return
			cAt := map[string]int{}
			for _, c := range w.compl {
				for _, id := range c.IDs {
					cAt[id] = c.Seq
				}
			}
			for _, c := range w.calls {
				if c.StartSeq > w.closeStartSeq || !accepted(c) {
					continue
				}
				for _, id := range c.IDs {
					sq, ok := cAt[id]
					if !ok {
						viol("close-before-completion", fmt.Sprintf("Close returned but accepted message %s never reached Completion", id))
					} else if sq > w.closeEndSeq {
						viol("close-before-completion", fmt.Sprintf("Close returned before the Completion of accepted message %s ran", id))
					}
					if len(byID[id]) == 0 {
						viol("close-dropped-message", fmt.Sprintf("Close returned but accepted message %s was never sent", id))
					}
					// "sent or has exhausted its attempts": a message accepted before Close whose Completion ran ends
					// acknowledged, or failed for good - MaxAttempts produce requests made, or the last one not answered
					// with a retriable error code. Judged when the brokers answered every request that carried the message
					// and the last answer was a retriable code: then the Writer had attempts left and a reason to use them.
					if ocs := byID[id]; ok && len(ocs) > 0 && len(ocs) < s.MaxAttempts && acked(id) == nil {
						answered := true
						for _, oc := range ocs {
							answered = answered && strings.HasPrefix(oc.a.Answer, "err:")
						}
						last := ocs[len(ocs)-1].a
						if code, perr := strconv.Atoi(strings.TrimPrefix(last.Answer, "err:")); answered && perr == nil && kafka.Error(code).Temporary() {
							viol("close-abandoned-retry", fmt.Sprintf("Close returned and accepted message %s reached Completion unacknowledged after %d of MaxAttempts=%d produce requests, the last one (#%d) answered with the retriable error %d: its remaining attempts were never made", id, len(ocs), s.MaxAttempts, last.Seq, code))
						}
					}
				}
			}
			for _, c := range w.calls {
				if c.StartSeq > w.closeEndSeq && c.Kind != "closed" {
					viol("write-after-close", fmt.Sprintf("WriteMessages started after Close returned gave %q, want io.ErrClosedPipe", c.Kind))
				}
			}
			if s.LateWrite && w.lateErr != "closed" {
				viol("write-after-close", fmt.Sprintf("WriteMessages after Close returned %q, want io.ErrClosedPipe", w.lateErr))
			}
		}
		for _, c := range w.calls {
			if c.Cancelled && c.Returned && c.Kind == "ctx" && c.End > c.CancelAt && !s.Fine {
				viol("slow-cancel", fmt.Sprintf("call T%d.%d cancelled at %v returned only at %v", c.Thread, c.Idx, c.CancelAt, c.End))
			}
		}
	}
	return o
}

// mustReject says whether the property demands that call idx of thread t is rejected, and why ("" = no demand).
// Message.totalSize of the harness's messages is 31+pad, or 34+pad+n with one header "h" of n < 64 bytes (n >= 64: one
// more byte for the varint); only sizes that are above the limit by the smaller formula are demanded.
func (s *WS) mustReject(t, idx int) string {
	if t >= len(s.Threads) || idx >= len(s.Threads[t]) {
		return ""
	}
	for mi, m := range s.Threads[t][idx].Msgs {
		if s.WriterTopic != "" && m.Topic != "" {
			return fmt.Sprintf("Writer.Topic=%q and message %d has Message.Topic=%q", s.WriterTopic, mi, m.Topic)
		}
		size := 31 + m.Size
		if m.Hdr > 0 {
			size = 34 + m.Size + m.Hdr
		}
		if s.BatchBytes > 0 && int64(size) > s.BatchBytes {
			return fmt.Sprintf("message %d has %d bytes or more, BatchBytes=%d", mi, size, s.BatchBytes)
		}
	}
	return ""
}
