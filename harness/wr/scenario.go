package wr

import (
	"context"
	"errors"
	"fmt"
	"io"
	"sort"
	"strings"
	"sync"
	"time"

	kafka "github.com/segmentio/kafka-go"

	"verif/engine/qx"
)

type msgSpec struct {
	P     int    // partition wanted (drives the key)
	Size  int    // value padding
	Topic string // message-level topic ("" = writer-level)
	Hdr   int    // > 0: the message carries one header "h" with a value of this many bytes
}

type callSpec struct {
	Msgs   []msgSpec
	Cancel bool // the call's context can be cancelled by the explorer while it is in flight
}

// WS is one Writer scenario.
type WS struct {
	Name        string
	BatchSize   int
	BatchBytes  int64
	MaxAttempts int
	Acks        kafka.RequiredAcks
	Async       bool
	WriterTopic string
	Topics      map[string]int
	Threads     [][]callSpec
	CloseAny    bool // Close may be issued at any time (else only after all threads finished)
	LateWrite   bool // after Close returned the closer issues one more WriteMessages
	Faults      []string
	MetaEvents  bool
	MetaFaults  []string
	Fine        bool
	NoGates     bool
	Balancer    string // "key" (default), "hash", "rr"
	Horizon     time.Duration
}

const batchTimeout = time.Second

type callRec struct {
	Thread, Idx int
	IDs         []string
	Start, End  time.Duration
	StartSeq    int
	BalSeq      int // logical time of the last Balance call of this call
	BalAt       time.Duration
	Returned    bool
	Kind        string // nil, werrs, ctx, closed, toolarge, other
	ErrText     string
	Werr        []bool // per message: error non-nil
	CancelAt    time.Duration
	Cancelled   bool
}

type complRec struct {
	At    time.Duration
	Seq   int
	IDs   []string
	Err   string
	Parts []int
	Offs  []int64
	Tops  []string
}

type world struct {
	s                          *WS
	x                          *qx.Exec
	cl                         *cluster
	mu                         sync.Mutex
	seq                        int
	calls                      []*callRec
	compl                      []complRec
	balP                       map[string]int // id -> partition the balancer returned
	balN                       map[string]int
	idTopic                    map[string]string
	idOrder                    map[string][2]int // id -> (thread, submission index)
	closeStartSeq, closeEndSeq int
	closeStart, closeEnd       time.Duration
	closeReturned              bool
	lateErr                    string
	gates                      []*gate
	cancels                    map[*callRec]context.CancelFunc
}

type gate struct {
	waiting bool
	ch      chan struct{}
	label   string
}

func (w *world) tick() int { w.seq++; return w.seq }

func (w *world) waitGate(g *gate, label string) {
	if w.s.NoGates {
		return
	}
	w.mu.Lock()
	g.waiting = true
	g.label = label
	w.mu.Unlock()
	w.x.Notify()
	<-g.ch
}

type recBalancer struct {
	w     *world
	inner kafka.Balancer
}

func (b *recBalancer) Balance(msg kafka.Message, parts ...int) int {
	var p int
	if b.inner != nil {
		p = b.inner.Balance(msg, parts...)
	} else {
		p = 0
		if len(msg.Key) > 0 {
			p = int(msg.Key[0]-'0') % len(parts)
		}
	}
	id := idOf(string(msg.Value))
	b.w.mu.Lock()
	b.w.balP[id] = p
	b.w.balN[id]++
	b.w.mu.Unlock()
	return p
}

func idOf(v string) string {
	if i := strings.IndexByte(v, '|'); i >= 0 {
		return v[:i]
	}
	return v
}

func (s *WS) Scenario(prop string) *qx.Scenario {
	h := s.Horizon
	if h == 0 {
		h = 90 * time.Second
	}
	cfg := qx.Config{Fine: s.Fine, Horizon: h, Quantum: 5 * time.Second, Grace: 15 * time.Second, MaxSteps: 600}
	if s.Fine {
		cfg.Files = []string{"writer.go"}
	}
	return &qx.Scenario{Name: s.Name, Cfg: cfg, Body: func(x *qx.Exec) *qx.Outcome { return s.run(x, prop) }}
}

func (s *WS) run(x *qx.Exec, prop string) *qx.Outcome {
	w := &world{s: s, x: x, balP: map[string]int{}, balN: map[string]int{}, idTopic: map[string]string{}, idOrder: map[string][2]int{}, cancels: map[*callRec]context.CancelFunc{}}
	topics := s.Topics
	if topics == nil {
		topics = map[string]int{"A": 2}
	}
	cl := newCluster(x, topics)
	cl.faults = s.Faults
	cl.metaEvents = s.MetaEvents
	cl.metaFaults = s.MetaFaults
	w.cl = cl
	rb := &recBalancer{w: w}
	switch s.Balancer {
	case "hash":
		rb.inner = &kafka.Hash{}
	case "rr":
		rb.inner = &kafka.RoundRobin{}
	}
	kw := &kafka.Writer{
		Addr:         kafka.TCP("b1:9092"),
		Topic:        s.WriterTopic,
		Balancer:     rb,
		MaxAttempts:  s.MaxAttempts,
		BatchSize:    s.BatchSize,
		BatchBytes:   s.BatchBytes,
		BatchTimeout: batchTimeout,
		WriteTimeout: 3 * time.Second,
		ReadTimeout:  3 * time.Second,
		RequiredAcks: s.Acks,
		Async:        s.Async,
		Transport:    cl,
	}
	kw.Completion = func(msgs []kafka.Message, err error) {
		c := complRec{At: x.Now()}
		if err != nil {
			c.Err = err.Error()
		}
		for _, m := range msgs {
			c.IDs = append(c.IDs, idOf(string(m.Value)))
			c.Parts = append(c.Parts, m.Partition)
			c.Offs = append(c.Offs, m.Offset)
			c.Tops = append(c.Tops, m.Topic)
		}
		w.mu.Lock()
		c.Seq = w.tick()
		w.compl = append(w.compl, c)
		w.mu.Unlock()
	}

	nthreads := len(s.Threads)
	done := make([]bool, nthreads)
	for ti := range s.Threads {
		ti := ti
		g := &gate{ch: make(chan struct{}, 1)}
		w.gates = append(w.gates, g)
		sub := 0
		x.Go(fmt.Sprintf("T%d", ti), func() {
			for ci, call := range s.Threads[ti] {
				w.waitGate(g, fmt.Sprintf("T%d.write%d", ti, ci))
				cr := &callRec{Thread: ti, Idx: ci}
				var msgs []kafka.Message
				for mi, m := range call.Msgs {
					id := fmt.Sprintf("t%dc%dm%d", ti, ci, mi)
					val := id + "|" + strings.Repeat("x", m.Size)
					km := kafka.Message{Key: []byte{byte('0' + m.P)}, Value: []byte(val), Topic: m.Topic}
					if m.Hdr > 0 {
						km.Headers = []kafka.Header{{Key: "h", Value: []byte(strings.Repeat("y", m.Hdr))}}
					}
					msgs = append(msgs, km)
					cr.IDs = append(cr.IDs, id)
					t := m.Topic
					if t == "" {
						t = s.WriterTopic
					}
					w.mu.Lock()
					w.idTopic[id] = t
					w.idOrder[id] = [2]int{ti, sub}
					w.mu.Unlock()
					sub++
				}
				ctx := context.Background()
				if call.Cancel {
					var cancel context.CancelFunc
					ctx, cancel = context.WithCancel(ctx)
					w.mu.Lock()
					w.cancels[cr] = cancel
					w.mu.Unlock()
				}
				w.mu.Lock()
				cr.Start = x.Now()
				cr.StartSeq = w.tick()
				w.calls = append(w.calls, cr)
				w.mu.Unlock()
				err := kw.WriteMessages(ctx, msgs...)
				w.mu.Lock()
				cr.End = x.Now()
				cr.Returned = true
				cr.classify(err, len(msgs))
				delete(w.cancels, cr)
				w.mu.Unlock()
			}
			w.mu.Lock()
			done[ti] = true
			w.mu.Unlock()
		})
	}
	cg := &gate{ch: make(chan struct{}, 1)}
	x.Go("closer", func() {
		if s.NoGates && !s.CloseAny {
			panic("NoGates needs CloseAny")
		}
		w.waitGate(cg, "close")
		w.mu.Lock()
		w.closeStart = x.Now()
		w.closeStartSeq = w.tick()
		w.mu.Unlock()
		kw.Close()
		w.mu.Lock()
		w.closeEnd = x.Now()
		w.closeEndSeq = w.tick()
		w.closeReturned = true
		w.mu.Unlock()
		if s.LateWrite {
			err := kw.WriteMessages(context.Background(), kafka.Message{Key: []byte("0"), Value: []byte("late|"), Topic: lateTopic(s)})
			w.mu.Lock()
			if err == nil {
				w.lateErr = "nil"
			} else {
				w.lateErr = err.Error()
				if errors.Is(err, io.ErrClosedPipe) {
					w.lateErr = "closed"
				}
			}
			w.mu.Unlock()
		}
	})

	x.SetEnv(func() []qx.Action {
		var acts []qx.Action
		w.mu.Lock()
		for _, g := range w.gates {
			if g.waiting {
				g := g
				acts = append(acts, qx.Action{Label: g.label, Do: func() { w.mu.Lock(); g.waiting = false; w.mu.Unlock(); g.ch <- struct{}{} }})
			}
		}
		all := true
		for _, d := range done {
			all = all && d
		}
		if cg.waiting && (s.CloseAny || all) {
			acts = append(acts, qx.Action{Label: "close", Do: func() { w.mu.Lock(); cg.waiting = false; w.mu.Unlock(); cg.ch <- struct{}{} }})
		}
		var crs []*callRec
		for cr := range w.cancels {
			if !cr.Cancelled {
				crs = append(crs, cr)
			}
		}
		w.mu.Unlock()
		acts = append(acts, cl.actions()...)
		sort.Slice(crs, func(i, j int) bool { return crs[i].StartSeq < crs[j].StartSeq })
		for _, cr := range crs {
			cr := cr
			acts = append(acts, qx.Action{Label: fmt.Sprintf("cancel T%d.write%d", cr.Thread, cr.Idx), Do: func() {
				w.mu.Lock()
				cancel := w.cancels[cr]
				cr.Cancelled = true
				cr.CancelAt = x.Now()
				w.mu.Unlock()
				if cancel != nil {
					cancel()
				}
			}})
		}
		return acts
	})

	st := x.Run()
	w.mu.Lock()
	defer w.mu.Unlock()
	// record the last Balance of each call (approximation of "submitted" time): we
	// take the call start, since no virtual time passes inside WriteMessages unless
	// metadata events are on.
	return w.judge(prop, st)
}

func lateTopic(s *WS) string {
	if s.WriterTopic != "" {
		return ""
	}
	return "A"
}

func (cr *callRec) classify(err error, n int) {
	var we kafka.WriteErrors
	var tl kafka.MessageTooLargeError
	switch {
	case err == nil:
		cr.Kind = "nil"
	case errors.As(err, &we):
		cr.Kind = "werrs"
		for i := 0; i < n && i < len(we); i++ {
			cr.Werr = append(cr.Werr, we[i] != nil)
		}
		if len(we) != n {
			cr.Kind = "werrs-badlen"
		}
	case errors.Is(err, context.Canceled) || errors.Is(err, context.DeadlineExceeded):
		cr.Kind = "ctx"
	case errors.Is(err, io.ErrClosedPipe):
		cr.Kind = "closed"
	case errors.As(err, &tl):
		cr.Kind = "toolarge"
	default:
		cr.Kind = "other"
	}
	if err != nil {
		cr.ErrText = err.Error()
		if len(cr.ErrText) > 80 {
			cr.ErrText = cr.ErrText[:80]
		}
	}
}
