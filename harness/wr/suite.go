package wr

import (
	"fmt"
	"time"

	kafka "github.com/segmentio/kafka-go"

	"verif/engine/qx"
)

func m(p int) msgSpec { return msgSpec{P: p} }

// Error-code classes of a produce answer (the partition error code of the response; nothing is applied):
// -1 is the only negative code brokers send (UNKNOWN_SERVER_ERROR), 1 the smallest positive one (permanent),
// 6 is retriable, 7 is retriable and the only one with Timeout() == true, 10 is permanent. The wider alphabet
// adds another negative value, two more retriable ones (19, and 20 "applied to fewer replicas"), the last code of the
// library's table (106, retriable), the first one beyond it and the extremes of the int16 field.
var (
	codesQuick    = []string{"err:-1", "err:1", "err:6", "err:7", "err:10"}
	codesThorough = []string{"err:-1", "err:1", "err:6", "err:7", "err:10", "err:-2", "err:19", "err:20", "err:106", "err:107", "err:32767", "err:-32768"}
)

// The scenario class "count limit and bytes limit both acting in one call": one partition, BatchBytes 100,
// a small BatchSize, and one WriteMessages call whose message sizes are a word over the alphabet
//
//	s  31 bytes (three fit in a batch by bytes)      h  51 bytes (two of them do not fit together)
//	f 100 bytes (fills a batch exactly on its own)    c  69 bytes (s+c fills a batch exactly)
//
// (Message.totalSize of a message with a 1-byte key and the value "tXcYmZ|"+pad is 31+pad). Every word up to a
// length is enumerated and kept when, by the boring model of batching below, some batch of the call is closed
// because it reached BatchSize and some batch is closed because of BatchBytes (the next message did not fit,
// or the bytes were reached exactly): sync, async, and async after a call that left one small message in the
// open batch. Each word is a scenario of its own, explored with the answer/fault alphabet like the others.
var sizePad = map[byte]int{'s': 0, 'h': 20, 'f': 69, 'c': 38}

const bothLimitsBytes = 100

// limitsActing runs the reference model of batching over the sizes of prefix+word.
func limitsActing(prefix, word string, batchSize int) (byCount, byBytes bool) {
	n, bytes := 0, 0
	for _, ch := range []byte(prefix + word) {
		sz := 31 + sizePad[ch]
		if n > 0 && bytes+sz > bothLimitsBytes {
			byBytes = true
			n, bytes = 0, 0
		}
		n++
		bytes += sz
		if n >= batchSize || bytes >= bothLimitsBytes {
			byCount = byCount || n >= batchSize
			byBytes = byBytes || bytes >= bothLimitsBytes
			n, bytes = 0, 0
		}
	}
	return
}

func words(alpha string, maxLen int) []string {
	var out []string
	cur := []string{""}
	for l := 1; l <= maxLen; l++ {
		var next []string
		for _, w := range cur {
			for _, ch := range []byte(alpha) {
				next = append(next, w+string(ch))
			}
		}
		out = append(out, next...)
		cur = next
	}
	return out
}

func bothLimits(prop string, thorough bool, faults []string, bound int) []qx.SuiteItem {
	type class struct {
		alpha     string
		maxLen    int
		batchSize int
		bound     int
	}
	classes := []class{{"shf", 4, 2, bound}}
	if thorough {
		// the quick class one deviation deeper, the wider alphabet, longer words and BatchSize 3 at the quick depth
		classes = []class{{"shf", 4, 2, bound}, {"shfc", 4, 2, bound - 1}, {"shfc", 4, 3, bound - 1}, {"shf", 5, 2, bound - 1}, {"shf", 5, 3, bound - 1}}
	}
	var items []qx.SuiteItem
	seen := map[string]bool{}
	for _, c := range classes {
		for _, w := range words(c.alpha, c.maxLen) {
			for _, mode := range []string{"sync", "async", "async-after-s"} {
				prefix := ""
				if mode == "async-after-s" {
					prefix = "s"
				}
				if cnt, byt := limitsActing(prefix, w, c.batchSize); !cnt || !byt {
					continue
				}
				name := fmt.Sprintf("both-limits-bs%d-%s-%s", c.batchSize, mode, w)
				if seen[name] {
					continue
				}
				seen[name] = true
				var calls []callSpec
				if prefix != "" {
					calls = append(calls, callSpec{Msgs: []msgSpec{{P: 0, Size: sizePad['s']}}})
				}
				var msgs []msgSpec
				for _, ch := range []byte(w) {
					msgs = append(msgs, msgSpec{P: 0, Size: sizePad[ch]})
				}
				calls = append(calls, callSpec{Msgs: msgs})
				s := &WS{Name: name, BatchSize: c.batchSize, BatchBytes: bothLimitsBytes, MaxAttempts: 2, Acks: kafka.RequireOne, WriterTopic: "A",
					Async: mode != "sync", Threads: [][]callSpec{calls}, Faults: faults}
				items = append(items, qx.SuiteItem{Scn: s.Scenario(prop), Bound: c.bound, Whole: true, MinShare: 30 * time.Second})
			}
		}
	}
	return items
}

// The scenario class "topic of the call": Writer.Topic in {"A", ""} x one WriteMessages call of 1..maxLen messages whose
// message-level topics are a word over {"" (none), "A" (the name the Writer has or could have), "B" (another name)} -
// every position of every length - sync and async, followed by a valid one-message call. With Writer.Topic="A" every
// word with a message-level topic (same name or not, in any position) is a call the property says must be rejected
// before anything is sent; with Writer.Topic="" the words without "" are valid calls to one or two topics (the words
// with "" have no topic at all for a message: not a case the property speaks about; only "rejected => nothing sent" is
// judged). Each word is a scenario of its own.
func topicWords(prop string, thorough bool, bound int) []qx.SuiteItem {
	maxLen := 3
	if thorough {
		maxLen = 4
	}
	name := map[byte]string{'-': "", 'A': "A", 'B': "B"}
	var items []qx.SuiteItem
	for _, wt := range []string{"A", ""} {
		for _, word := range words("-AB", maxLen) {
			for _, async := range []bool{false, true} {
				var msgs []msgSpec
				for _, ch := range []byte(word) {
					msgs = append(msgs, msgSpec{P: 0, Topic: name[ch]})
				}
				after := msgSpec{P: 0}
				if wt == "" {
					after.Topic = "A"
				}
				mode := "sync"
				if async {
					mode = "async"
				}
				s := &WS{Name: fmt.Sprintf("topic-words-wt%s-%s-%s", map[string]string{"A": "A", "": "none"}[wt], mode, word), BatchSize: 2, MaxAttempts: 2, Acks: kafka.RequireOne,
					WriterTopic: wt, Async: async, Topics: map[string]int{"A": 2, "B": 1},
					Threads: [][]callSpec{{{Msgs: msgs}, {Msgs: []msgSpec{after}}}}, Faults: []string{"err:6"}}
				items = append(items, qx.SuiteItem{Scn: s.Scenario(prop), Bound: bound, Whole: true, MinShare: 30 * time.Second})
			}
		}
	}
	return items
}

func Suite(prop, tier string) []qx.SuiteItem {
	var items []qx.SuiteItem
	add := func(s *WS, bound int) {
		scn := s.Scenario(prop)
		if prop == "C09" {
			scn.OnLeak = func(o *qx.Outcome) {
				if o.Violation == "" {
					o.Violation = "goroutines started by the Writer were still alive 15 s (virtual) after Close returned"
					o.Sig = "leak"
				}
			}
		}
		items = append(items, qx.SuiteItem{Scn: scn, Bound: bound})
	}
	thorough := tier == "thorough"
	b := 3
	if thorough {
		b = 4
	}
	faults := []string{"err:6", "err:10", "lost", "cut", "stall", "stall-applied"}
	codes, cb := codesQuick, 2
	if thorough {
		cb = 3
		codes = codesThorough
	}
	// in the wider tier the negative code is also mixed into the full fault alphabet of one sync and one async main scenario
	faultsWide := faults
	if thorough {
		faultsWide = []string{"err:-1", "err:6", "err:10", "lost", "cut", "stall", "stall-applied"}
	}
	switch prop {
	case "C01", "C07":
		// the many small scenarios of the both-limits class come first: each is explored by one shard alone
		items = append(items, bothLimits(prop, thorough, []string{"err:-1", "err:6", "lost"}, b-1)...)
		if prop == "C01" {
			// the connection ends after k bytes of a produce response (acknowledgement or refusal), every k
			items = append(items, cutSweep(prop, thorough)...)
		}
		// every class of produce error code, against a retrying sync writer and an async one
		add(&WS{Name: "error-codes-sync-att2", BatchSize: 2, MaxAttempts: 2, Acks: kafka.RequireAll, WriterTopic: "A",
			Threads: [][]callSpec{{{Msgs: []msgSpec{m(0), m(0), m(1)}}, {Msgs: []msgSpec{m(0)}}}}, Faults: append(append([]string{}, codes...), "lost")}, cb)
		add(&WS{Name: "error-codes-async-att2", BatchSize: 2, MaxAttempts: 2, Acks: kafka.RequireOne, WriterTopic: "A", Async: true,
			Threads: [][]callSpec{{{Msgs: []msgSpec{m(0), m(0), m(1)}}, {Msgs: []msgSpec{m(0)}}}}, Faults: append(append([]string{}, codes...), "lost")}, cb)
		add(&WS{Name: "sync-2thr-bs2", BatchSize: 2, MaxAttempts: 2, Acks: kafka.RequireOne, WriterTopic: "A",
			Threads: [][]callSpec{{{Msgs: []msgSpec{m(0), m(1), m(0)}}}, {{Msgs: []msgSpec{m(0)}}, {Msgs: []msgSpec{m(0), m(0)}}}}, Faults: faults}, b)
		add(&WS{Name: "sync-1thr-bs1-att3", BatchSize: 1, MaxAttempts: 3, Acks: kafka.RequireAll, WriterTopic: "A",
			Threads: [][]callSpec{{{Msgs: []msgSpec{m(0), m(0), m(1)}}, {Msgs: []msgSpec{m(0)}}}}, Faults: faultsWide}, b)
		add(&WS{Name: "async-1thr-bs2", BatchSize: 2, MaxAttempts: 2, Acks: kafka.RequireOne, WriterTopic: "A", Async: true,
			Threads: [][]callSpec{{{Msgs: []msgSpec{m(0)}}, {Msgs: []msgSpec{m(0), m(0)}}, {Msgs: []msgSpec{m(1), m(0)}}}}, Faults: faultsWide}, b)
		add(&WS{Name: "sync-msgtopic-2topics", BatchSize: 3, MaxAttempts: 2, Acks: kafka.RequireOne, Topics: map[string]int{"A": 2, "B": 1},
			Threads: [][]callSpec{{{Msgs: []msgSpec{{P: 0, Topic: "A"}, {P: 0, Topic: "B"}, {P: 1, Topic: "A"}}}}, {{Msgs: []msgSpec{{P: 0, Topic: "B"}}}}}, Faults: []string{"err:-1", "err:6", "err:10", "lost"}}, b)
		add(&WS{Name: "fine-sync-2thr", BatchSize: 2, MaxAttempts: 2, Acks: kafka.RequireOne, WriterTopic: "A", Fine: true,
			Threads: [][]callSpec{{{Msgs: []msgSpec{m(0)}}}, {{Msgs: []msgSpec{m(0), m(0)}}}}, Faults: []string{"err:6", "lost"}}, b)
		add(&WS{Name: "fine-async-1thr", BatchSize: 2, MaxAttempts: 2, Acks: kafka.RequireOne, WriterTopic: "A", Fine: true, Async: true,
			Threads: [][]callSpec{{{Msgs: []msgSpec{m(0)}}, {Msgs: []msgSpec{m(0), m(0)}}}}, Faults: []string{"err:6", "lost"}}, b)
		// several batches of one partition queued behind a slow or failing one (the queue holds more than two)
		add(&WS{Name: "async-1thr-bs1-5batches", BatchSize: 1, MaxAttempts: 2, Acks: kafka.RequireOne, WriterTopic: "A", Async: true,
			Threads: [][]callSpec{{{Msgs: []msgSpec{m(0), m(0), m(0), m(0), m(0)}}}}, Faults: []string{"err:-1", "err:6", "lost"}}, b-1)
		add(&WS{Name: "sync-1call-bs1-4batches", BatchSize: 1, MaxAttempts: 2, Acks: kafka.RequireOne, WriterTopic: "A",
			Threads: [][]callSpec{{{Msgs: []msgSpec{m(0), m(0), m(0), m(0)}}}}, Faults: []string{"err:-1", "err:6", "lost"}}, b-1)
		items = append(items, qx.SuiteItem{Scn: transportScenario(prop, b), Bound: b})
	case "C08":
		items = append(items, bothLimits(prop, thorough, []string{"err:6", "lost"}, b-1)...)
		items = append(items, topicWords(prop, thorough, b-2)...)
		// Message.totalSize of a message with 1-byte key and value "tXcYmZ|"+pad: 4+1+1+8+4+4 +1(hdr count) + 1 + (7+pad) = 31+pad
		add(&WS{Name: "bytes-boundary", BatchSize: 10, BatchBytes: 100, MaxAttempts: 2, Acks: kafka.RequireOne, WriterTopic: "A",
			Threads: [][]callSpec{{{Msgs: []msgSpec{{P: 0, Size: 19}, {P: 0, Size: 19}, {P: 0, Size: 18}}}, {Msgs: []msgSpec{{P: 0, Size: 69}, {P: 0, Size: 0}}}}, {{Msgs: []msgSpec{{P: 0, Size: 20}}}}}, Faults: []string{"err:6", "lost"}}, b)
		add(&WS{Name: "too-large-and-mixed", BatchSize: 2, BatchBytes: 100, MaxAttempts: 1, Acks: kafka.RequireOne, WriterTopic: "A",
			Threads: [][]callSpec{{{Msgs: []msgSpec{{P: 0, Size: 5}, {P: 0, Size: 70}}}, {Msgs: []msgSpec{{P: 0}, {P: 1, Topic: "A"}}}, {Msgs: []msgSpec{{P: 1}}}}}, Faults: []string{"err:6"}}, b)
		// with one header "h" of n bytes (n < 64) the size is 34+n: 54-byte messages go one per request at BatchBytes=100,
		// a 114-byte one is refused
		add(&WS{Name: "bytes-boundary-headers", BatchSize: 10, BatchBytes: 100, MaxAttempts: 2, Acks: kafka.RequireOne, WriterTopic: "A",
			Threads: [][]callSpec{{{Msgs: []msgSpec{{P: 0, Hdr: 20}, {P: 0, Hdr: 20}, {P: 0, Hdr: 12}}}, {Msgs: []msgSpec{{P: 0, Hdr: 60}}}}, {{Msgs: []msgSpec{{P: 0, Hdr: 63}}}, {Msgs: []msgSpec{{P: 0, Hdr: 80}}}}}, Faults: []string{"err:6"}}, b)
		add(&WS{Name: "count-boundary-2thr", BatchSize: 2, MaxAttempts: 2, Acks: kafka.RequireOne, WriterTopic: "A",
			Threads: [][]callSpec{{{Msgs: []msgSpec{m(0)}}, {Msgs: []msgSpec{m(0), m(0), m(0)}}}, {{Msgs: []msgSpec{m(0), m(1)}}}}, Faults: []string{"err:6", "lost", "stall"}}, b)
		add(&WS{Name: "async-timer", BatchSize: 3, MaxAttempts: 2, Acks: kafka.RequireOne, WriterTopic: "A", Async: true,
			Threads: [][]callSpec{{{Msgs: []msgSpec{m(0)}}, {Msgs: []msgSpec{m(0)}}, {Msgs: []msgSpec{m(0), m(0)}}}}, Faults: []string{"err:6", "lost"}}, b)
		add(&WS{Name: "fine-timer-vs-fill", BatchSize: 2, MaxAttempts: 1, Acks: kafka.RequireOne, WriterTopic: "A", Fine: true,
			Threads: [][]callSpec{{{Msgs: []msgSpec{m(0)}}}, {{Msgs: []msgSpec{m(0), m(0)}}}}}, b)
		add(&WS{Name: "fine-async-timer-vs-fill", BatchSize: 2, MaxAttempts: 1, Acks: kafka.RequireOne, WriterTopic: "A", Fine: true, Async: true,
			Threads: [][]callSpec{{{Msgs: []msgSpec{m(0)}}, {Msgs: []msgSpec{m(0), m(0)}}}}}, b)
	case "C09":
		add(&WS{Name: "close-any-sync-2thr", BatchSize: 2, MaxAttempts: 2, Acks: kafka.RequireOne, WriterTopic: "A", CloseAny: true, LateWrite: true,
			Threads: [][]callSpec{{{Msgs: []msgSpec{m(0)}}, {Msgs: []msgSpec{m(1)}}}, {{Msgs: []msgSpec{m(0), m(0)}}}}, Faults: []string{"err:6", "lost", "stall"}}, b)
		add(&WS{Name: "close-any-async", BatchSize: 2, MaxAttempts: 2, Acks: kafka.RequireOne, WriterTopic: "A", CloseAny: true, LateWrite: true, Async: true,
			Threads: [][]callSpec{{{Msgs: []msgSpec{m(0)}}, {Msgs: []msgSpec{m(0), m(1)}}}}, Faults: []string{"err:6", "lost", "stall"}}, b)
		// Close while a batch is between two of its (three) attempts: one message per batch, every produce answer from
		// {ack, retriable 6, permanent 10, lost}, Close at any moment incl. inside the back-off sleeps
		add(&WS{Name: "close-during-retries-att3", BatchSize: 1, MaxAttempts: 3, Acks: kafka.RequireOne, WriterTopic: "A", CloseAny: true, LateWrite: true,
			Threads: [][]callSpec{{{Msgs: []msgSpec{m(0), m(1)}}}}, Faults: []string{"err:6", "err:10", "lost"}}, b)
		add(&WS{Name: "cancel-sync", BatchSize: 3, MaxAttempts: 2, Acks: kafka.RequireOne, WriterTopic: "A", LateWrite: true,
			Threads: [][]callSpec{{{Msgs: []msgSpec{m(0)}, Cancel: true}, {Msgs: []msgSpec{m(0)}}}, {{Msgs: []msgSpec{m(0), m(1)}, Cancel: true}}}, Faults: []string{"err:6", "stall"}}, b)
		add(&WS{Name: "fine-async-close", BatchSize: 2, MaxAttempts: 1, Acks: kafka.RequireOne, WriterTopic: "A", CloseAny: true, Fine: true, Async: true, LateWrite: true,
			Threads: [][]callSpec{{{Msgs: []msgSpec{m(0)}}, {Msgs: []msgSpec{m(0), m(1)}}}}}, b)
		add(&WS{Name: "fine-close-vs-write", BatchSize: 2, MaxAttempts: 1, Acks: kafka.RequireOne, WriterTopic: "A", CloseAny: true, Fine: true, NoGates: true,
			Threads: [][]callSpec{{{Msgs: []msgSpec{m(0)}}}, {{Msgs: []msgSpec{m(1)}}}}}, b)
	}
	return items
}
