package wr

import (
	kafka "github.com/segmentio/kafka-go"

	"verif/engine/qx"
)

func m(p int) msgSpec { return msgSpec{P: p} }

func Suite(prop, tier string) []qx.SuiteItem {
	var items []qx.SuiteItem
	add := func(s *WS, bound int) {
		scn := s.Scenario(prop)
		if prop == "C09" {
			scn.OnLeak = func(o *qx.Outcome) {
				if o.Violation == "" {
					o.Violation = "goroutines started by the Writer were still alive 15 s (virtual) after Close returned"
					o.Sig = "leak"
				}
			}
		}
		items = append(items, qx.SuiteItem{Scn: scn, Bound: bound})
	}
	thorough := tier == "thorough"
	b := 3
	if thorough {
		b = 4
	}
	faults := []string{"err:6", "err:10", "lost", "cut", "stall", "stall-applied"}
	switch prop {
	case "C01", "C07":
		add(&WS{Name: "sync-2thr-bs2", BatchSize: 2, MaxAttempts: 2, Acks: kafka.RequireOne, WriterTopic: "A",
			Threads: [][]callSpec{{{Msgs: []msgSpec{m(0), m(1), m(0)}}}, {{Msgs: []msgSpec{m(0)}}, {Msgs: []msgSpec{m(0), m(0)}}}}, Faults: faults}, b)
		add(&WS{Name: "sync-1thr-bs1-att3", BatchSize: 1, MaxAttempts: 3, Acks: kafka.RequireAll, WriterTopic: "A",
			Threads: [][]callSpec{{{Msgs: []msgSpec{m(0), m(0), m(1)}}, {Msgs: []msgSpec{m(0)}}}}, Faults: faults}, b)
		add(&WS{Name: "async-1thr-bs2", BatchSize: 2, MaxAttempts: 2, Acks: kafka.RequireOne, WriterTopic: "A", Async: true,
			Threads: [][]callSpec{{{Msgs: []msgSpec{m(0)}}, {Msgs: []msgSpec{m(0), m(0)}}, {Msgs: []msgSpec{m(1), m(0)}}}}, Faults: faults}, b)
		add(&WS{Name: "sync-msgtopic-2topics", BatchSize: 3, MaxAttempts: 2, Acks: kafka.RequireOne, Topics: map[string]int{"A": 2, "B": 1},
			Threads: [][]callSpec{{{Msgs: []msgSpec{{P: 0, Topic: "A"}, {P: 0, Topic: "B"}, {P: 1, Topic: "A"}}}}, {{Msgs: []msgSpec{{P: 0, Topic: "B"}}}}}, Faults: []string{"err:6", "err:10", "lost"}}, b)
		add(&WS{Name: "fine-sync-2thr", BatchSize: 2, MaxAttempts: 2, Acks: kafka.RequireOne, WriterTopic: "A", Fine: true,
			Threads: [][]callSpec{{{Msgs: []msgSpec{m(0)}}}, {{Msgs: []msgSpec{m(0), m(0)}}}}, Faults: []string{"err:6", "lost"}}, b)
		add(&WS{Name: "fine-async-1thr", BatchSize: 2, MaxAttempts: 2, Acks: kafka.RequireOne, WriterTopic: "A", Fine: true, Async: true,
			Threads: [][]callSpec{{{Msgs: []msgSpec{m(0)}}, {Msgs: []msgSpec{m(0), m(0)}}}}, Faults: []string{"err:6", "lost"}}, b)
		// several batches of one partition queued behind a slow or failing one (the queue holds more than two)
		add(&WS{Name: "async-1thr-bs1-5batches", BatchSize: 1, MaxAttempts: 2, Acks: kafka.RequireOne, WriterTopic: "A", Async: true,
			Threads: [][]callSpec{{{Msgs: []msgSpec{m(0), m(0), m(0), m(0), m(0)}}}}, Faults: []string{"err:6", "lost"}}, b-1)
		add(&WS{Name: "sync-1call-bs1-4batches", BatchSize: 1, MaxAttempts: 2, Acks: kafka.RequireOne, WriterTopic: "A",
			Threads: [][]callSpec{{{Msgs: []msgSpec{m(0), m(0), m(0), m(0)}}}}, Faults: []string{"err:6", "lost"}}, b-1)
		items = append(items, qx.SuiteItem{Scn: transportScenario(prop, b), Bound: b})
	case "C08":
		// Message.totalSize of a message with 1-byte key and value "tXcYmZ|"+pad: 4+1+1+8+4+4 +1(hdr count) + 1 + (7+pad) = 31+pad
		add(&WS{Name: "bytes-boundary", BatchSize: 10, BatchBytes: 100, MaxAttempts: 2, Acks: kafka.RequireOne, WriterTopic: "A",
			Threads: [][]callSpec{{{Msgs: []msgSpec{{P: 0, Size: 19}, {P: 0, Size: 19}, {P: 0, Size: 18}}}, {Msgs: []msgSpec{{P: 0, Size: 69}, {P: 0, Size: 0}}}}, {{Msgs: []msgSpec{{P: 0, Size: 20}}}}}, Faults: []string{"err:6", "lost"}}, b)
		add(&WS{Name: "too-large-and-mixed", BatchSize: 2, BatchBytes: 100, MaxAttempts: 1, Acks: kafka.RequireOne, WriterTopic: "A",
			Threads: [][]callSpec{{{Msgs: []msgSpec{{P: 0, Size: 5}, {P: 0, Size: 70}}}, {Msgs: []msgSpec{{P: 0}, {P: 1, Topic: "A"}}}, {Msgs: []msgSpec{{P: 1}}}}}, Faults: []string{"err:6"}}, b)
		// with one header "h" of n bytes (n < 64) the size is 34+n: 54-byte messages go one per request at BatchBytes=100,
		// a 114-byte one is refused
		add(&WS{Name: "bytes-boundary-headers", BatchSize: 10, BatchBytes: 100, MaxAttempts: 2, Acks: kafka.RequireOne, WriterTopic: "A",
			Threads: [][]callSpec{{{Msgs: []msgSpec{{P: 0, Hdr: 20}, {P: 0, Hdr: 20}, {P: 0, Hdr: 12}}}, {Msgs: []msgSpec{{P: 0, Hdr: 60}}}}, {{Msgs: []msgSpec{{P: 0, Hdr: 63}}}, {Msgs: []msgSpec{{P: 0, Hdr: 80}}}}}, Faults: []string{"err:6"}}, b)
		add(&WS{Name: "count-boundary-2thr", BatchSize: 2, MaxAttempts: 2, Acks: kafka.RequireOne, WriterTopic: "A",
			Threads: [][]callSpec{{{Msgs: []msgSpec{m(0)}}, {Msgs: []msgSpec{m(0), m(0), m(0)}}}, {{Msgs: []msgSpec{m(0), m(1)}}}}, Faults: []string{"err:6", "lost", "stall"}}, b)
		add(&WS{Name: "async-timer", BatchSize: 3, MaxAttempts: 2, Acks: kafka.RequireOne, WriterTopic: "A", Async: true,
			Threads: [][]callSpec{{{Msgs: []msgSpec{m(0)}}, {Msgs: []msgSpec{m(0)}}, {Msgs: []msgSpec{m(0), m(0)}}}}, Faults: []string{"err:6", "lost"}}, b)
		add(&WS{Name: "fine-timer-vs-fill", BatchSize: 2, MaxAttempts: 1, Acks: kafka.RequireOne, WriterTopic: "A", Fine: true,
			Threads: [][]callSpec{{{Msgs: []msgSpec{m(0)}}}, {{Msgs: []msgSpec{m(0), m(0)}}}}}, b)
		add(&WS{Name: "fine-async-timer-vs-fill", BatchSize: 2, MaxAttempts: 1, Acks: kafka.RequireOne, WriterTopic: "A", Fine: true, Async: true,
			Threads: [][]callSpec{{{Msgs: []msgSpec{m(0)}}, {Msgs: []msgSpec{m(0), m(0)}}}}}, b)
	case "C09":
		add(&WS{Name: "close-any-sync-2thr", BatchSize: 2, MaxAttempts: 2, Acks: kafka.RequireOne, WriterTopic: "A", CloseAny: true, LateWrite: true,
			Threads: [][]callSpec{{{Msgs: []msgSpec{m(0)}}, {Msgs: []msgSpec{m(1)}}}, {{Msgs: []msgSpec{m(0), m(0)}}}}, Faults: []string{"err:6", "lost", "stall"}}, b)
		add(&WS{Name: "close-any-async", BatchSize: 2, MaxAttempts: 2, Acks: kafka.RequireOne, WriterTopic: "A", CloseAny: true, LateWrite: true, Async: true,
			Threads: [][]callSpec{{{Msgs: []msgSpec{m(0)}}, {Msgs: []msgSpec{m(0), m(1)}}}}, Faults: []string{"err:6", "lost", "stall"}}, b)
		add(&WS{Name: "cancel-sync", BatchSize: 3, MaxAttempts: 2, Acks: kafka.RequireOne, WriterTopic: "A", LateWrite: true,
			Threads: [][]callSpec{{{Msgs: []msgSpec{m(0)}, Cancel: true}, {Msgs: []msgSpec{m(0)}}}, {{Msgs: []msgSpec{m(0), m(1)}, Cancel: true}}}, Faults: []string{"err:6", "stall"}}, b)
		add(&WS{Name: "fine-async-close", BatchSize: 2, MaxAttempts: 1, Acks: kafka.RequireOne, WriterTopic: "A", CloseAny: true, Fine: true, Async: true, LateWrite: true,
			Threads: [][]callSpec{{{Msgs: []msgSpec{m(0)}}, {Msgs: []msgSpec{m(0), m(1)}}}}}, b)
		add(&WS{Name: "fine-close-vs-write", BatchSize: 2, MaxAttempts: 1, Acks: kafka.RequireOne, WriterTopic: "A", CloseAny: true, Fine: true, NoGates: true,
			Threads: [][]callSpec{{{Msgs: []msgSpec{m(0)}}}, {{Msgs: []msgSpec{m(1)}}}}}, b)
	}
	return items
}
