package wr

import (
	"context"
	"fmt"
	"sort"
	"strings"
	"sync"
	"time"

	kafka "github.com/segmentio/kafka-go"
	"github.com/segmentio/kafka-go/protocol"

	"verif/engine/fk"
	"verif/engine/qx"
)

// The other scenarios of this package drive the Writer through the RoundTripper seam, which leaves transport.go
// out of the loop. Here the real Writer runs over a real kafka.Transport against the fake brokers (engine/fk)
// and the in-memory network, whose client connections have a bounded send buffer: a broker that stops reading
// in the middle of a produce request makes the client's write block until its deadline.
//
// One thread submits batch A = {a1,a2} and then batch B = {b1,b2} to the same partition (MaxAttempts 3).
// Events: every answer order with the fault alphabet, the broker arming a read stall for the next produce
// request, and resuming it at any later point. Oracles (shared by C01 and C07, each judging its own clause):
//
//	C01: a call that returned nil has each of its messages in a produce request the broker applied and
//	     acknowledged; a message reported failed was acknowledged by no request.
//	C07: in the partition log no copy of a message of A comes after a message of B.
func transportScenario(prop string, bound int) *qx.Scenario {
	scn := &qx.Scenario{Name: "writer-over-transport-stalled-broker", Cfg: qx.Config{Horizon: 90 * time.Second, Quantum: 3 * time.Second, Grace: 8 * time.Second, MaxSteps: 400}}
	scn.Body = func(x *qx.Exec) *qx.Outcome {
		c := fk.New(1)
		c.AddTopic("A", 1, nil)
		c.ClientWriteWindow = 16
		c.OnEvent = x.Notify
		tr := &kafka.Transport{Dial: c.Dial, DialTimeout: 3 * time.Second, IdleTimeout: 60 * time.Second, MetadataTTL: 60 * time.Second}
		w := &kafka.Writer{Addr: kafka.TCP("b1:9092"), Topic: "A", Transport: tr, BatchSize: 2, BatchTimeout: 10 * time.Millisecond, MaxAttempts: 3,
			WriteTimeout: 2 * time.Second, ReadTimeout: 2 * time.Second, RequiredAcks: kafka.RequireOne, WriteBackoffMin: 50 * time.Millisecond, WriteBackoffMax: 100 * time.Millisecond}
		var mu sync.Mutex
		type call struct {
			ids  []string
			err  string
			done bool
		}
		calls := []*call{{ids: []string{"a1", "a2"}}, {ids: []string{"b1", "b2"}}}
		x.Go("T0", func() {
			for _, cl := range calls {
				var msgs []kafka.Message
				for _, id := range cl.ids {
					msgs = append(msgs, kafka.Message{Value: []byte(id)})
				}
				err := w.WriteMessages(context.Background(), msgs...)
				mu.Lock()
				cl.done = true
				if err != nil {
					cl.err = err.Error()
				}
				mu.Unlock()
			}
		})
		armed, resumed := false, false
		faults := []string{"err:-1", "err:6", "drop", "apply-drop"}
		x.SetEnv(func() []qx.Action {
			var acts []qx.Action
			ps := c.Pending()
			for _, e := range ps {
				e := e
				acts = append(acts, qx.Action{Label: fmt.Sprintf("ans#%d(c%d,api%d):ok", e.Seq, e.Conn, e.Key), Do: func() { c.Answer(e, "") }})
			}
			if !armed {
				acts = append(acts, qx.Action{Label: "broker-stalls-at-next-produce", Do: func() { armed = true; c.StallNext(protocol.Produce) }})
			}
			// reading on is offered as an alternative to answering something else; when nothing else can happen
			// time passes instead (the stall lasts), and whatever is still stalled at the end is read then
			if armed && !resumed && c.StalledConn() >= 0 && len(ps) > 0 {
				acts = append(acts, qx.Action{Label: "broker-reads-on", Do: func() { resumed = true; c.ResumeReads() }})
			}
			for _, e := range ps {
				if e.Key != protocol.Produce {
					continue
				}
				e := e
				for _, f := range faults {
					f := f
					acts = append(acts, qx.Action{Label: fmt.Sprintf("ans#%d(c%d,api%d):%s", e.Seq, e.Conn, e.Key, f), Do: func() { c.Answer(e, f) }})
				}
			}
			return acts
		})
		st := x.Run()
		x.Release()
		// whatever the broker had stopped reading is read now, and answered
		c.ResumeReads()
		for i := 0; i < 4; i++ {
			time.Sleep(500 * time.Millisecond)
			for _, e := range c.Pending() {
				c.Answer(e, "")
			}
		}
		w.Close()
		tr.CloseIdleConnections()
		mu.Lock()
		defer mu.Unlock()
		c.Lock()
		defer c.Unlock()
		o := &qx.Outcome{}
		viol := func(sig, msg string) {
			if o.Violation == "" {
				o.Violation, o.Sig = msg, sig
			}
		}
		// The partition log, in append order, without what the broker appended more than the client's timeout
		// after it had received the request in full: by then the client has given the attempt up (and said so),
		// and no client can keep a slow broker from applying later what it already holds. A request that
		// *reaches* the broker late because the client went on writing it past its deadline is not exempt.
		const clientTimeout = 2 * time.Second
		late := func(e *fk.Entry) bool { return e.AnsweredAt-e.At >= clientTimeout }
		var applied []*fk.Entry
		for _, e := range c.Journal {
			if e.Key == protocol.Produce && e.Applied {
				applied = append(applied, e)
			}
		}
		sort.Slice(applied, func(i, j int) bool { return applied[i].BaseOff < applied[j].BaseOff })
		var log, abandoned []string
		for _, e := range applied {
			for _, b := range e.Batches {
				for _, r := range b.Recs {
					if late(e) {
						abandoned = append(abandoned, string(r.Value))
					} else {
						log = append(log, string(r.Value))
					}
				}
			}
		}
		acked := map[string]bool{}
		for _, e := range c.Journal {
			if e.Key == protocol.Produce && e.Applied && e.Answer == "ok" && !late(e) {
				for _, b := range e.Batches {
					for _, r := range b.Recs {
						acked[string(r.Value)] = true
					}
				}
			}
		}
		var res []string
		for _, cl := range calls {
			res = append(res, fmt.Sprintf("%v:%v:%s", cl.ids, cl.done, short(cl.err)))
		}
		o.Key = fmt.Sprintf("%s log=%v late=%v calls=%v stalled=%d", st, log, abandoned, res, c.StalledReads)
		switch prop {
		case "C01":
			for _, cl := range calls {
				if !cl.done {
					continue
				}
				for _, id := range cl.ids {
					if cl.err == "" && !acked[id] {
						viol("nil-but-unacked", fmt.Sprintf("WriteMessages%v returned nil but %s is in no produce request that the broker applied and acknowledged (log %v)", cl.ids, id, log))
					}
				}
			}
		case "C07":
			seenB := false
			for _, id := range log {
				if strings.HasPrefix(id, "b") {
					seenB = true
				}
				if strings.HasPrefix(id, "a") && seenB {
					viol("reorder", fmt.Sprintf("the partition log is %v: a copy of the earlier batch was appended after the later batch", log))
				}
			}
			// intra-batch order
			idx := map[string][]int{}
			for i, id := range log {
				idx[id] = append(idx[id], i)
			}
			for _, pair := range [][2]string{{"a1", "a2"}, {"b1", "b2"}} {
				f, s := idx[pair[0]], idx[pair[1]]
				sort.Ints(f)
				sort.Ints(s)
				if len(f) > 0 && len(s) > 0 && s[0] < f[0] {
					viol("reorder-in-batch", fmt.Sprintf("the partition log is %v: %s precedes %s", log, pair[1], pair[0]))
				}
			}
		}
		if st != qx.StDone {
			o.Other = "not-finished:" + string(st)
		}
		return o
	}
	return scn
}

func short(s string) string {
	if len(s) > 40 {
		return s[:40]
	}
	return s
}
