package wr

import (
	"os"
	"testing"

	"verif/engine/qx"
)

func TestCheck(t *testing.T) {
	prop := os.Getenv("VERIF_PROP")
	if prop == "" {
		prop = "C01"
	}
	tier := os.Getenv("VERIF_TIER")
	qx.RunSuite(t, Suite(prop, tier))
}
