package wr

import (
	"os"
	"strings"
	"testing"

	"verif/engine/qx"
)

func TestCheck(t *testing.T) {
	prop := os.Getenv("VERIF_PROP")
	if prop == "" {
		prop = "C01"
	}
	tier := os.Getenv("VERIF_TIER")
	items := Suite(prop, tier)
	if f := os.Getenv("VERIF_FILTER"); f != "" {
		// development aid: only the scenarios whose name contains f
		var keep []qx.SuiteItem
		for _, it := range items {
			if strings.Contains(it.Scn.Name, f) {
				keep = append(keep, it)
			}
		}
		items = keep
	}
	qx.RunSuite(t, items)
}
