package kafka

// Read-only views and thin wrappers over unexported Conn operations, added to
// package kafka by the verification overlay only (not part of the repository).

import "fmt"

func VerifBuffered(c *Conn) int { return c.rbuf.Buffered() }

func VerifFindCoordinator(c *Conn, group string) (string, error) {
	r, err := c.findCoordinator(findCoordinatorRequestV0{CoordinatorKey: group})
	if err != nil {
		return "", err
	}
	return fmt.Sprintf("%d@%s:%d", r.Coordinator.NodeID, r.Coordinator.Host, r.Coordinator.Port), nil
}

func VerifJoinGroup(c *Conn, group, member string, topics []string) (gen int32, memberID, leader string, nmembers int, err error) {
	md := groupMetadata{Version: 1, Topics: topics}
	r, err := c.joinGroup(joinGroupRequest{GroupID: group, SessionTimeout: 30000, RebalanceTimeout: 30000, MemberID: member, ProtocolType: "consumer",
		GroupProtocols: []joinGroupRequestGroupProtocolV1{{ProtocolName: "range", ProtocolMetadata: md.bytes()}}})
	if err != nil {
		return 0, "", "", 0, err
	}
	return r.GenerationID, r.MemberID, r.LeaderID, len(r.Members), nil
}

func VerifSyncGroup(c *Conn, group string, gen int32, member string, assign map[string][]byte) ([]byte, error) {
	req := syncGroupRequestV0{GroupID: group, GenerationID: gen, MemberID: member}
	for _, k := range sortedKeys(assign) {
		req.GroupAssignments = append(req.GroupAssignments, syncGroupRequestGroupAssignmentV0{MemberID: k, MemberAssignments: assign[k]})
	}
	r, err := c.syncGroup(req)
	return r.MemberAssignments, err
}

func sortedKeys(m map[string][]byte) []string {
	var ks []string
	for k := range m {
		ks = append(ks, k)
	}
	for i := range ks {
		for j := i + 1; j < len(ks); j++ {
			if ks[j] < ks[i] {
				ks[i], ks[j] = ks[j], ks[i]
			}
		}
	}
	return ks
}

func VerifHeartbeat(c *Conn, group string, gen int32, member string) error {
	_, err := c.heartbeat(heartbeatRequestV0{GroupID: group, GenerationID: gen, MemberID: member})
	return err
}

func VerifLeaveGroup(c *Conn, group, member string) error {
	_, err := c.leaveGroup(leaveGroupRequestV0{GroupID: group, MemberID: member})
	return err
}

func VerifOffsetCommit(c *Conn, group string, gen int32, member, topic string, part int32, off int64) error {
	_, err := c.offsetCommit(offsetCommitRequestV2{GroupID: group, GenerationID: gen, MemberID: member, RetentionTime: -1,
		Topics: []offsetCommitRequestV2Topic{{Topic: topic, Partitions: []offsetCommitRequestV2Partition{{Partition: part, Offset: off}}}}})
	return err
}

func VerifOffsetFetch(c *Conn, group, topic string, parts []int32) (string, error) {
	r, err := c.offsetFetch(offsetFetchRequestV1{GroupID: group, Topics: []offsetFetchRequestV1Topic{{Topic: topic, Partitions: parts}}})
	if err != nil {
		return "", err
	}
	s := ""
	for _, t := range r.Responses {
		for _, p := range t.PartitionResponses {
			s += fmt.Sprintf("%s/%d=%d ", t.Topic, p.Partition, p.Offset)
		}
	}
	return s, nil
}

func VerifListGroups(c *Conn) (int, error) {
	r, err := c.listGroups(listGroupsRequestV1{})
	return len(r.Groups), err
}

// VerifOwnTransport makes w the owner of t, as NewWriter does for the Transport it builds from a Dialer
// (NewWriter itself dials the real network and cannot be pointed at the in-memory one): Close then closes
// the transport's idle connections.
func VerifOwnTransport(w *Writer, t *Transport) { w.transport = t }
