package protocol

// Read-only view of the message type registry, added to package protocol by the
// verification overlay only (not part of the repository).

import "reflect"

type VerifType struct {
	Key         ApiKey
	Version     int16
	ReqFlexible bool
	ResFlexible bool
	Req, Res    reflect.Type
}

func VerifTypes() []VerifType {
	var out []VerifType
	for k, t := range apiTypes {
		for i, rq := range t.requests {
			vt := VerifType{Key: ApiKey(k), Version: rq.version, ReqFlexible: rq.flexible, Req: rq.gotype}
			if i < len(t.responses) {
				vt.ResFlexible, vt.Res = t.responses[i].flexible, t.responses[i].gotype
			}
			out = append(out, vt)
		}
	}
	return out
}
