// Package vatomic replaces "sync/atomic" inside kafka-go under the overlay:
// identical semantics, plus a scheduling point before each operation (a no-op
// unless the explorer enabled atomic points).
package vatomic

import (
	"sync/atomic"

	"github.com/segmentio/kafka-go/zzverif/vhook"
)

type Value struct{ v atomic.Value }

func (v *Value) Load() any      { vhook.Point(vhook.KAtomic, v); return v.v.Load() }
func (v *Value) Store(x any)    { vhook.Point(vhook.KAtomic, v); v.v.Store(x) }
func (v *Value) Swap(x any) any { vhook.Point(vhook.KAtomic, v); return v.v.Swap(x) }
func (v *Value) CompareAndSwap(o, n any) bool {
	vhook.Point(vhook.KAtomic, v)
	return v.v.CompareAndSwap(o, n)
}

type Int32 = atomic.Int32
type Int64 = atomic.Int64
type Uint32 = atomic.Uint32
type Uint64 = atomic.Uint64
type Bool = atomic.Bool

func AddInt32(a *int32, d int32) int32  { vhook.Point(vhook.KAtomic, a); return atomic.AddInt32(a, d) }
func LoadInt32(a *int32) int32          { vhook.Point(vhook.KAtomic, a); return atomic.LoadInt32(a) }
func StoreInt32(a *int32, v int32)      { vhook.Point(vhook.KAtomic, a); atomic.StoreInt32(a, v) }
func SwapInt32(a *int32, v int32) int32 { vhook.Point(vhook.KAtomic, a); return atomic.SwapInt32(a, v) }
func CompareAndSwapInt32(a *int32, o, n int32) bool {
	vhook.Point(vhook.KAtomic, a)
	return atomic.CompareAndSwapInt32(a, o, n)
}
func AddInt64(a *int64, d int64) int64  { vhook.Point(vhook.KAtomic, a); return atomic.AddInt64(a, d) }
func LoadInt64(a *int64) int64          { vhook.Point(vhook.KAtomic, a); return atomic.LoadInt64(a) }
func StoreInt64(a *int64, v int64)      { vhook.Point(vhook.KAtomic, a); atomic.StoreInt64(a, v) }
func SwapInt64(a *int64, v int64) int64 { vhook.Point(vhook.KAtomic, a); return atomic.SwapInt64(a, v) }
func CompareAndSwapInt64(a *int64, o, n int64) bool {
	vhook.Point(vhook.KAtomic, a)
	return atomic.CompareAndSwapInt64(a, o, n)
}
func AddUint32(a *uint32, d uint32) uint32 {
	vhook.Point(vhook.KAtomic, a)
	return atomic.AddUint32(a, d)
}
func LoadUint32(a *uint32) uint32     { vhook.Point(vhook.KAtomic, a); return atomic.LoadUint32(a) }
func StoreUint32(a *uint32, v uint32) { vhook.Point(vhook.KAtomic, a); atomic.StoreUint32(a, v) }
func SwapUint32(a *uint32, v uint32) uint32 {
	vhook.Point(vhook.KAtomic, a)
	return atomic.SwapUint32(a, v)
}
func CompareAndSwapUint32(a *uint32, o, n uint32) bool {
	vhook.Point(vhook.KAtomic, a)
	return atomic.CompareAndSwapUint32(a, o, n)
}
func AddUint64(a *uint64, d uint64) uint64 {
	vhook.Point(vhook.KAtomic, a)
	return atomic.AddUint64(a, d)
}
func LoadUint64(a *uint64) uint64     { vhook.Point(vhook.KAtomic, a); return atomic.LoadUint64(a) }
func StoreUint64(a *uint64, v uint64) { vhook.Point(vhook.KAtomic, a); atomic.StoreUint64(a, v) }
func SwapUint64(a *uint64, v uint64) uint64 {
	vhook.Point(vhook.KAtomic, a)
	return atomic.SwapUint64(a, v)
}
func CompareAndSwapUint64(a *uint64, o, n uint64) bool {
	vhook.Point(vhook.KAtomic, a)
	return atomic.CompareAndSwapUint64(a, o, n)
}
func AddUintptr(a *uintptr, d uintptr) uintptr {
	vhook.Point(vhook.KAtomic, a)
	return atomic.AddUintptr(a, d)
}
func LoadUintptr(a *uintptr) uintptr     { vhook.Point(vhook.KAtomic, a); return atomic.LoadUintptr(a) }
func StoreUintptr(a *uintptr, v uintptr) { vhook.Point(vhook.KAtomic, a); atomic.StoreUintptr(a, v) }
func SwapUintptr(a *uintptr, v uintptr) uintptr {
	vhook.Point(vhook.KAtomic, a)
	return atomic.SwapUintptr(a, v)
}
func CompareAndSwapUintptr(a *uintptr, o, n uintptr) bool {
	vhook.Point(vhook.KAtomic, a)
	return atomic.CompareAndSwapUintptr(a, o, n)
}
