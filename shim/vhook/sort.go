package vhook

import (
	"fmt"
	"sort"
)

// sortKeys puts keys in a canonical order (by their %v rendering) so that the
// permutation chosen by the explorer means the same thing in every run.
func sortKeys[K comparable](keys []K) {
	sort.Slice(keys, func(i, j int) bool {
		return fmt.Sprintf("%v", keys[i]) < fmt.Sprintf("%v", keys[j])
	})
}
