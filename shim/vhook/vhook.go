// Package vhook is the seam between the instrumented sync shims injected into
// kafka-go by the build overlay and the explorer (engine/qx). With no hook
// installed every function here is a no-op.
package vhook

import "sync/atomic"

type Kind int

const (
	KLock Kind = iota
	KRLock
	KUnlock
	KCondWait
	KWGWait
	KOnce
	KAtomic
	KChan
	KGo
	KUser
	KEnv  // environment-internal point: serialised by the scheduler but never a decision
	KWake // after a channel wake-up: serialised, never a decision
	KPool // sync.Pool Get/Put
)

func (k Kind) String() string {
	switch k {
	case KLock:
		return "Lock"
	case KRLock:
		return "RLock"
	case KUnlock:
		return "Unlock"
	case KCondWait:
		return "CondWait"
	case KWGWait:
		return "WGWait"
	case KOnce:
		return "Once"
	case KAtomic:
		return "Atomic"
	case KChan:
		return "Chan"
	case KGo:
		return "Go"
	case KUser:
		return "User"
	case KEnv:
		return "Env"
	case KWake:
		return "Wake"
	case KPool:
		return "Pool"
	}
	return "?"
}

// Lockable is implemented by the shim mutexes so a scheduler can tell whether
// a goroutine parked before Lock could make progress.
type Lockable interface {
	CanLock() bool
	CanRLock() bool
}

// Hooks installed by the explorer for the duration of one execution.
type Hooks struct {
	// Point is called before a blocking/synchronising operation. It may park
	// the calling goroutine until the scheduler grants it.
	Point func(k Kind, obj any)
	// Note is called after non-blocking operations the scheduler wants to
	// know about (Unlock, entering Cond.Wait).
	Note func(k Kind, obj any)
}

var cur atomic.Pointer[Hooks]

func Install(h *Hooks) { cur.Store(h) }
func Uninstall()       { cur.Store(nil) }

func Point(k Kind, obj any) {
	if h := cur.Load(); h != nil && h.Point != nil {
		h.Point(k, obj)
	}
}

func Note(k Kind, obj any) {
	if h := cur.Load(); h != nil && h.Note != nil {
		h.Note(k, obj)
	}
}

// Map-iteration order control (used by the overlay rewrite of `range m` in
// groupbalancer.go). Perm, when set, receives n and returns a permutation of
// 0..n-1 chosen by the explorer.
var Perm atomic.Pointer[func(n int) []int]

func Order(n int) []int {
	if p := Perm.Load(); p != nil {
		return (*p)(n)
	}
	r := make([]int, n)
	for i := range r {
		r[i] = i
	}
	return r
}

// OrderedKeys returns the keys of m in the order chosen through Order (used by
// the overlay's rewrite of map range statements).
func OrderedKeys[M ~map[K]V, K comparable, V any](m M) []K {
	keys := make([]K, 0, len(m))
	for k := range m {
		keys = append(keys, k)
	}
	sortKeys(keys)
	perm := Order(len(keys))
	out := make([]K, len(keys))
	for i, p := range perm {
		out[i] = keys[p]
	}
	return out
}
