// Package vsync replaces "sync" inside kafka-go when built with the
// verification overlay. Mutex/RWMutex block on sync.Cond, which testing/synctest
// treats as durably blocking (sync.Mutex is not), and every acquiring operation
// first reports to vhook so that a controlled scheduler can park the goroutine.
// Pool is a deterministic LIFO.
package vsync

import (
	"sync"
	"sync/atomic"

	"github.com/segmentio/kafka-go/zzverif/vhook"
)

type Locker = sync.Locker

// Mutex is a FIFO ticket lock.
type Mutex struct {
	mu      sync.Mutex
	c       sync.Cond
	next    uint64
	serving uint64
}

func (m *Mutex) init() {
	if m.c.L == nil {
		m.c.L = &m.mu
	}
}

func (m *Mutex) Lock() {
	vhook.Point(vhook.KLock, m)
	m.mu.Lock()
	m.init()
	t := m.next
	m.next++
	for m.serving != t {
		m.c.Wait()
	}
	m.mu.Unlock()
}

func (m *Mutex) TryLock() bool {
	m.mu.Lock()
	defer m.mu.Unlock()
	if m.next == m.serving {
		m.next++
		return true
	}
	return false
}

func (m *Mutex) Unlock() {
	m.mu.Lock()
	m.init()
	if m.next == m.serving {
		m.mu.Unlock()
		panic("vsync: unlock of unlocked mutex")
	}
	m.serving++
	m.c.Broadcast()
	m.mu.Unlock()
	vhook.Note(vhook.KUnlock, m)
}

//go:norace
func (m *Mutex) CanLock() bool {
	m.mu.Lock()
	defer m.mu.Unlock()
	return m.next == m.serving
}

//go:norace
func (m *Mutex) CanRLock() bool { return m.CanLock() }

type RWMutex struct {
	mu      sync.Mutex
	c       sync.Cond
	readers int
	writer  bool
	wwait   int
}

func (m *RWMutex) init() {
	if m.c.L == nil {
		m.c.L = &m.mu
	}
}

func (m *RWMutex) Lock() {
	vhook.Point(vhook.KLock, m)
	m.mu.Lock()
	m.init()
	m.wwait++
	for m.writer || m.readers > 0 {
		m.c.Wait()
	}
	m.wwait--
	m.writer = true
	m.mu.Unlock()
}

func (m *RWMutex) Unlock() {
	m.mu.Lock()
	m.init()
	if !m.writer {
		m.mu.Unlock()
		panic("vsync: unlock of unlocked rwmutex")
	}
	m.writer = false
	m.c.Broadcast()
	m.mu.Unlock()
	vhook.Note(vhook.KUnlock, m)
}

func (m *RWMutex) RLock() {
	vhook.Point(vhook.KRLock, m)
	m.mu.Lock()
	m.init()
	for m.writer || m.wwait > 0 {
		m.c.Wait()
	}
	m.readers++
	m.mu.Unlock()
}

func (m *RWMutex) RUnlock() {
	m.mu.Lock()
	m.init()
	if m.readers <= 0 {
		m.mu.Unlock()
		panic("vsync: runlock of unlocked rwmutex")
	}
	m.readers--
	m.c.Broadcast()
	m.mu.Unlock()
	vhook.Note(vhook.KUnlock, m)
}

//go:norace
func (m *RWMutex) CanLock() bool {
	m.mu.Lock()
	defer m.mu.Unlock()
	return !m.writer && m.readers == 0
}

//go:norace
func (m *RWMutex) CanRLock() bool {
	m.mu.Lock()
	defer m.mu.Unlock()
	return !m.writer && m.wwait == 0
}

func (m *RWMutex) RLocker() Locker { return (*rlocker)(m) }

type rlocker RWMutex

func (r *rlocker) Lock()   { (*RWMutex)(r).RLock() }
func (r *rlocker) Unlock() { (*RWMutex)(r).RUnlock() }

// Cond keeps the exported L field of sync.Cond.
type Cond struct {
	L  Locker
	mu sync.Mutex
	c  sync.Cond
}

func NewCond(l Locker) *Cond { return &Cond{L: l} }

func (c *Cond) init() {
	if c.c.L == nil {
		c.c.L = &c.mu
	}
}

func (c *Cond) Wait() {
	c.mu.Lock()
	c.init()
	c.L.Unlock()
	vhook.Note(vhook.KCondWait, c)
	c.c.Wait()
	c.mu.Unlock()
	c.L.Lock()
}

func (c *Cond) Signal() {
	c.mu.Lock()
	c.init()
	c.c.Signal()
	c.mu.Unlock()
}

func (c *Cond) Broadcast() {
	c.mu.Lock()
	c.init()
	c.c.Broadcast()
	c.mu.Unlock()
}

type WaitGroup struct {
	wg sync.WaitGroup
}

func (w *WaitGroup) Add(n int) { w.wg.Add(n) }
func (w *WaitGroup) Done()     { w.wg.Done() }
func (w *WaitGroup) Wait() {
	vhook.Point(vhook.KWGWait, w)
	w.wg.Wait()
}

type Once struct {
	m    Mutex
	done atomic.Uint32
}

func (o *Once) Do(f func()) {
	if o.done.Load() == 1 {
		return
	}
	vhook.Point(vhook.KOnce, o)
	o.m.Lock()
	defer o.m.Unlock()
	if o.done.Load() == 0 {
		defer o.done.Store(1)
		f()
	}
}

// Pool: deterministic LIFO, never dropped by the GC, resettable.
type Pool struct {
	New func() any

	mu    sync.Mutex
	items []any
	reg   bool
}

var (
	poolsMu sync.Mutex
	pools   []*Pool
)

func (p *Pool) Get() any {
	vhook.Point(vhook.KPool, p)
	p.mu.Lock()
	if n := len(p.items); n > 0 {
		x := p.items[n-1]
		p.items[n-1] = nil
		p.items = p.items[:n-1]
		p.mu.Unlock()
		return x
	}
	p.mu.Unlock()
	if p.New != nil {
		return p.New()
	}
	return nil
}

func (p *Pool) Put(x any) {
	if x == nil {
		return
	}
	vhook.Point(vhook.KPool, p)
	p.mu.Lock()
	if !p.reg {
		p.reg = true
		poolsMu.Lock()
		pools = append(pools, p)
		poolsMu.Unlock()
	}
	if len(p.items) < 64 {
		p.items = append(p.items, x)
	}
	p.mu.Unlock()
}

// ResetPools empties every pool that was ever used (between executions).
func ResetPools() {
	poolsMu.Lock()
	ps := append([]*Pool(nil), pools...)
	poolsMu.Unlock()
	for _, p := range ps {
		p.mu.Lock()
		for i := range p.items {
			p.items[i] = nil
		}
		p.items = p.items[:0]
		p.mu.Unlock()
	}
}

// PoolSizes reports the number of idle objects per registered pool.
func PoolSizes() []int {
	poolsMu.Lock()
	defer poolsMu.Unlock()
	r := make([]int, len(pools))
	for i, p := range pools {
		p.mu.Lock()
		r[i] = len(p.items)
		p.mu.Unlock()
	}
	return r
}
