#!/bin/bash
# usage: baseline.sh <dir-of-kafka-go-tree>
# Runs the pinned offline test suite in <dir> and reports whether all 410 stable tests still pass.
set -u
D=${1:?dir}
export GOFLAGS=-mod=mod GOPROXY=off GOSUMDB=off GOTOOLCHAIN=local
# go test -mod=mod may rewrite go.mod (go directive / toolchain line); never leave that behind in a git tree
CLEAN=$(cd "$D" && git status --porcelain -- go.mod go.sum sasl 2>/dev/null)
OUT=$(mktemp /tmp/baseline.XXXXXX.json)
for m in . ./sasl/aws_msk_iam ./sasl/aws_msk_iam_v2; do
  (cd "$D/$m" && go test -mod=mod -json -vet=off -count=1 -timeout 25m ./... ) >> "$OUT" 2>/dev/null
done
python3 - "$OUT" <<'PY'
import json,sys
stable=set(json.load(open('/root/.vp/BASELINE.json'))['stable_pass'])
passed=set()
for l in open(sys.argv[1]):
    try: e=json.loads(l)
    except Exception: continue
    if e.get('Action')=='pass' and e.get('Test'):
        passed.add(e['Package']+'::'+e['Test'])
missing=sorted(stable-passed)
print("stable tests: %d, passing now: %d, missing: %d"%(len(stable),len(stable&passed),len(missing)))
for m in missing[:40]: print("  NOT PASSING:",m)
sys.exit(1 if missing else 0)
PY
rc=$?
[ -z "$CLEAN" ] && (cd "$D" && git checkout -q -- go.mod go.sum sasl 2>/dev/null)
rm -f "$OUT"
exit $rc
