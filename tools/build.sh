#!/bin/bash
# usage: tools/build.sh <harness-package-dir> [extra go test -c flags...]
# Regenerates the overlay from /repo's current tree and builds the harness test binary into work/<name>.test
set -e
ROOT=$(cd "$(dirname "$0")/.." && pwd)
cd "$ROOT"
export GOFLAGS=-mod=mod GOPROXY=off GOSUMDB=off GOTOOLCHAIN=local
REPO=${VERIF_REPO:-/repo}
mkdir -p work
[ -x work/mkoverlay ] || go1.26.8 build -o work/mkoverlay ./tools/mkoverlay
pkg=$1; shift
name=$(basename "$pkg")
suffix=${VERIF_BIN_SUFFIX:-}
ov=work/ov.$name$suffix
rm -rf "$ov" && ./work/mkoverlay -repo "$REPO" -out "$ov" -shim "$ROOT/shim" -maprange all
go1.26.8 test -c -overlay "$ov/overlay.json" -vet=off "$@" -o "work/$name$suffix.test" "./$pkg"
