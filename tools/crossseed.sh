#!/bin/bash
# usage: tools/crossseed.sh <seed-id> <prop> [<prop>...]
# Runs the quick checks of OTHER properties against one seeded change and records the result in
# seeded/<id>/detected.json (same bookkeeping as tools/seedmatrix.sh, without re-running the seed's own check).
ROOT=$(cd "$(dirname "$0")/.." && pwd)
cd "$ROOT"
id=$1; shift
git -C /repo apply --check "$ROOT/seeded/$id/patch.diff" || { echo "$id: patch does not apply"; exit 1; }
git -C /repo apply "$ROOT/seeded/$id/patch.diff"
for prop in "$@"; do
  cp "evidence/$prop.json" "work/evidence.$prop.keep" 2>/dev/null
  out=$(bin/check $prop quick 2>&1); rc=$?
  cp "work/evidence.$prop.keep" "evidence/$prop.json" 2>/dev/null
  nv=$(echo "$out" | grep -c '^VIOLATION')
  sig=$(echo "$out" | grep -m1 'sig=' | sed 's/.*sig=//' | cut -c1-160)
  echo "$id -> check $prop: exit=$rc violations=$nv first: $sig"
  python3 - "$id" "$prop" "$rc" "$nv" "$sig" <<'PY'
import json,sys,os
id,prop,rc,nv,sig=sys.argv[1:6]
p=os.path.join('seeded',id,'detected.json')
d=json.load(open(p)) if os.path.exists(p) else {}
d[prop]={'exit':int(rc),'violation_lines':int(nv),'first_signature':sig}
json.dump(d,open(p,'w'),indent=1)
PY
done
git -C /repo checkout -- .
git -C /repo status --short
