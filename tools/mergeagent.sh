#!/bin/bash
# usage: tools/mergeagent.sh <letter>   -- brings a helper copy's changes (harness, engine, checks.json) into /verif
g=$1
cd /tmp/vw/$g/verif || exit 1
git add -A -- harness engine checks.json shim golden 2>/dev/null
git diff --cached --binary -- harness engine checks.json shim golden > /tmp/vw/$g.patch
git reset -q
cd /verif
git apply --3way --check /tmp/vw/$g.patch 2>&1 | tail -5
git apply --3way /tmp/vw/$g.patch && echo "merged $g" && git status --short | grep -v evidence
