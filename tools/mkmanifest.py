#!/usr/bin/env python3
"""Regenerates MANIFEST.json from checks.json (single source of truth for the claimed checks)."""
import json, os
R = os.path.dirname(os.path.dirname(os.path.abspath(__file__)))
props = [json.loads(l) for l in open(os.path.join(R, "properties.jsonl"))]
c = json.load(open(os.path.join(R, "checks.json")))
m = json.load(open(os.path.join(R, "MANIFEST.json")))
na_reasons = {}
try:
    na_reasons = json.load(open(os.path.join(R, "not_applicable.json")))
except Exception:
    pass
m["checks"] = []
for pid in sorted(c):
    k = c[pid]
    m["checks"].append({
        "property_id": pid, "quick_cmd": "bin/check %s quick" % pid, "thorough_cmd": "bin/check %s thorough" % pid,
        "evidence_file": "/verif/evidence/%s.json" % pid, "replay_cmd_template": "bin/check --replay {path}", "engine": k.get("engine", "qx"),
        "level_claimed": {"category": k["level"], "text": k["text"], "design_ref": k.get("design_ref", "DESIGN.md section 4")},
        "level_note": k["note"], "technique": k["technique"]})
m["not_applicable"] = [{"property_id": p["id"], "reason": na_reasons.get(p["id"], "check not built yet (work in progress; planned in DESIGN.md section 4)")} for p in props if p["id"] not in c]
eng = {}
for pid, k in c.items():
    for e in k.get("engine", "qx").split("+"):
        eng.setdefault(e, []).append(pid)
desc = {"qx": ("engine/qx", "stateless model checker for real Go code: controlled scheduler inside a testing/synctest bubble (virtual time, quiescence detection); decisions = parked goroutine / environment event / tick; deviation-bounded breadth-first enumeration by re-execution, sharded over processes, deterministic replay"),
        "seqx": ("engine/seqx", "exhaustive enumerator for sequential cases (alphabet products, bounded-deviation choice sequences inside a case), same shard/evidence format as qx")}
m["engines"] = [{"name": e, "path": desc.get(e, (e, ""))[0], "serves_properties": sorted(v), "kind_free_text": desc.get(e, (e, ""))[1]} for e, v in sorted(eng.items())]
m["engines"].append({"name": "mkoverlay", "path": "tools/mkoverlay", "serves_properties": sorted(c), "kind_free_text": "build-overlay instrumentation of kafka-go (no source change): sync/atomic shims, goroutine-start points, deterministic map-range and select order, injected read-only export files"})
json.dump(m, open(os.path.join(R, "MANIFEST.json"), "w"), indent=1)
print("claimed:", sorted(c), "not applicable:", [x["property_id"] for x in m["not_applicable"]])

# never leave an invalid manifest behind
import subprocess, sys
r = subprocess.run(["python3-vt", "-c", "import json,jsonschema,sys; jsonschema.validate(json.load(open(sys.argv[1])), json.load(open('/root/.vp/MANIFEST.schema.json')))", os.path.join(R, "MANIFEST.json")], capture_output=True, text=True)
if r.returncode != 0:
    sys.stderr.write("MANIFEST.json does not validate:\n" + r.stderr[-1500:])
    sys.exit(1)
