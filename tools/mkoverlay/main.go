// mkoverlay builds the instrumentation overlay for `go build -overlay` from the
// files currently in the kafka-go tree. Nothing is written into the tree.
//
//   - import "sync"        -> sync   ".../zzverif/vsync"   (byte splice at the AST position; line numbers are preserved)
//   - import "sync/atomic" -> atomic ".../zzverif/vatomic"
//   - virtual packages zzverif/{vhook,vsync,vatomic}
//   - files from shim/inject/<pkgdir>/ are added to package <pkgdir> as zz_verif_*.go
//   - optional: `for k, v := range <map>` in the files given by -maprange is rewritten
//     so that the iteration order is chosen through vhook.Order
package main

import (
	"encoding/json"
	"flag"
	"fmt"
	"go/ast"
	"go/parser"
	"go/token"
	"go/types"
	"os"
	"path/filepath"
	"sort"
	"strconv"
	"strings"
)

const modPath = "github.com/segmentio/kafka-go"

type report struct {
	Files        int            `json:"files_scanned"`
	SyncRewrites []string       `json:"sync_rewritten"`
	AtomRewrites []string       `json:"atomic_rewritten"`
	Injected     []string       `json:"injected"`
	MapRanges    map[string]int `json:"map_ranges_rewritten"`
	MapSkipped   map[string]int `json:"map_ranges_not_rewritten"`
	GoStmts      map[string]int `json:"go_statements_with_start_point"`
	GoSkipped    map[string]int `json:"go_statements_without_start_point"`
	WakePoints     map[string]int `json:"wake_points_after_channel_operations"`
	Selects        map[string]int `json:"selects_made_deterministic"`
	SelectsSkipped map[string]int `json:"selects_left_alone"`
}

func main() {
	repo := flag.String("repo", "/repo", "kafka-go tree")
	out := flag.String("out", "", "output directory for rewritten files")
	shim := flag.String("shim", "", "shim source directory")
	maprange := flag.String("maprange", "", "comma separated files (relative to repo) whose map ranges are rewritten")
	flag.Parse()
	if *out == "" || *shim == "" {
		fmt.Fprintln(os.Stderr, "usage: mkoverlay -repo R -out O -shim S")
		os.Exit(2)
	}
	must(os.MkdirAll(*out, 0o755))
	replace := map[string]string{}
	rep := report{MapRanges: map[string]int{}, MapSkipped: map[string]int{}, GoStmts: map[string]int{}, GoSkipped: map[string]int{}, Selects: map[string]int{}, SelectsSkipped: map[string]int{}, WakePoints: map[string]int{}}
	mr := map[string]bool{}
	for _, f := range strings.Split(*maprange, ",") {
		if f != "" {
			mr[f] = true
		}
	}

	must(filepath.Walk(*repo, func(p string, info os.FileInfo, err error) error {
		if err != nil {
			return err
		}
		rel, _ := filepath.Rel(*repo, p)
		if info.IsDir() {
			base := filepath.Base(p)
			if rel != "." && (strings.HasPrefix(base, ".") || base == "testing" || base == "examples" || base == "fixtures" || base == "scripts" || base == "docker_compose_versions") {
				return filepath.SkipDir
			}
			if rel != "." {
				if _, e := os.Stat(filepath.Join(p, "go.mod")); e == nil {
					return filepath.SkipDir // nested module
				}
			}
			return nil
		}
		if !strings.HasSuffix(p, ".go") || strings.HasSuffix(p, "_test.go") {
			return nil
		}
		rep.Files++
		src, err := os.ReadFile(p)
		if err != nil {
			return err
		}
		fset := token.NewFileSet()
		mode := parser.ImportsOnly
		if *maprange == "all" && !strings.Contains(rel, "/") {
			mr[rel] = true
		}
		if mr[rel] {
			mode = parser.ParseComments
		}
		f, err := parser.ParseFile(fset, p, src, mode)
		if err != nil {
			return fmt.Errorf("%s: %v", p, err)
		}
		type splice struct {
			from, to int
			text     string
		}
		var sp []splice
		for _, im := range f.Imports {
			path, _ := strconv.Unquote(im.Path.Value)
			var name, np string
			switch path {
			case "sync":
				name, np = "sync", modPath+"/zzverif/vsync"
				rep.SyncRewrites = append(rep.SyncRewrites, rel)
			case "sync/atomic":
				name, np = "atomic", modPath+"/zzverif/vatomic"
				rep.AtomRewrites = append(rep.AtomRewrites, rel)
			default:
				continue
			}
			if im.Name != nil {
				name = im.Name.Name
			}
			sp = append(sp, splice{fset.Position(im.Pos()).Offset, fset.Position(im.End()).Offset, name + " " + strconv.Quote(np)})
		}
		if mr[rel] {
			n, skipped, s2 := mapRangeSplices(fset, f, src)
			rep.MapRanges[rel] = n
			rep.MapSkipped[rel] = skipped
			for _, s := range s2 {
				sp = append(sp, splice{s.from, s.to, s.text})
			}
			g, gs, s3 := goSplices(fset, f, src)
			rep.GoStmts[rel] = g
			rep.GoSkipped[rel] = gs
			for _, s := range s3 {
				sp = append(sp, splice{s.from, s.to, s.text})
			}
			wk, s4 := wakeSplices(fset, f, src)
			rep.WakePoints[rel] = wk
			for _, s := range s4 {
				sp = append(sp, splice{s.from, s.to, s.text})
			}
			{
				// deterministic select: consumes the splices that fall inside rewritten selects
				cur := make([]rs, len(sp))
				for i, x := range sp {
					cur[i] = rs{x.from, x.to, x.text}
				}
				nsel, skipsel, cur2 := selectSplices(fset, f, src, p, cur)
				rep.Selects[rel] = nsel
				rep.SelectsSkipped[rel] = skipsel
				sp = sp[:0]
				for _, x := range cur2 {
					sp = append(sp, splice{x.from, x.to, x.text})
				}
			}
			if n > 0 || g > 0 || wk > 0 {
				// add the vhook import right after the package clause (same line)
				off := fset.Position(f.Name.End()).Offset
				sp = append(sp, splice{off, off, `; import zzvhook "` + modPath + `/zzverif/vhook"`})
			}
		}
		if len(sp) == 0 {
			return nil
		}
		sort.Slice(sp, func(i, j int) bool { return sp[i].from > sp[j].from })
		b := src
		for _, s := range sp {
			b = append(append(append([]byte{}, b[:s.from]...), s.text...), b[s.to:]...)
		}
		dst := filepath.Join(*out, strings.ReplaceAll(rel, "/", "__"))
		must(os.WriteFile(dst, b, 0o644))
		replace[p] = dst
		return nil
	}))

	for _, pkg := range []string{"vhook", "vsync", "vatomic"} {
		ents, err := os.ReadDir(filepath.Join(*shim, pkg))
		must(err)
		for _, e := range ents {
			if strings.HasSuffix(e.Name(), ".go") {
				replace[filepath.Join(*repo, "zzverif", pkg, e.Name())] = filepath.Join(*shim, pkg, e.Name())
			}
		}
	}
	inj := filepath.Join(*shim, "inject")
	filepath.Walk(inj, func(p string, info os.FileInfo, err error) error {
		if err != nil || info.IsDir() || !strings.HasSuffix(p, ".go") {
			return nil
		}
		rel, _ := filepath.Rel(inj, p) // e.g. kafka/export.go or protocol/export.go
		parts := strings.SplitN(rel, string(filepath.Separator), 2)
		if len(parts) != 2 {
			return nil
		}
		dir := strings.ReplaceAll(parts[0], "+", "/")
		if dir == "kafka" {
			dir = "."
		}
		target := filepath.Join(*repo, dir, "zz_verif_"+strings.ReplaceAll(parts[1], "/", "_"))
		replace[target] = p
		rep.Injected = append(rep.Injected, target)
		return nil
	})

	ov, _ := json.MarshalIndent(map[string]any{"Replace": replace}, "", " ")
	must(os.WriteFile(filepath.Join(*out, "overlay.json"), ov, 0o644))
	sort.Strings(rep.SyncRewrites)
	sort.Strings(rep.AtomRewrites)
	rj, _ := json.MarshalIndent(rep, "", " ")
	must(os.WriteFile(filepath.Join(*out, "report.json"), rj, 0o644))
}

type rs struct {
	from, to int
	text     string
}

// mapRangeSplices rewrites `for k, v := range X {` where go/types (with a
// tolerant fake importer: expressions whose type depends on imported packages
// stay unresolved and are left alone) knows X to be a map.
func mapRangeSplices(fset *token.FileSet, f *ast.File, src []byte) (n, skipped int, out []rs) {
	info := pkgInfo(filepath.Dir(fset.Position(f.Pos()).Filename))
	fname := fset.Position(f.Pos()).Filename
	pf := info.files[fname]
	if pf == nil {
		return
	}
	ast.Inspect(pf, func(nd ast.Node) bool {
		r, ok := nd.(*ast.RangeStmt)
		if !ok {
			return true
		}
		tv, ok := info.info.Types[r.X]
		if !ok || tv.Type == nil {
			return true
		}
		if _, isMap := tv.Type.Underlying().(*types.Map); !isMap {
			return true
		}
		if r.Tok != token.DEFINE {
			skipped++
			return true
		}
		pos := func(p token.Pos) int { return info.fset.Position(p).Offset }
		xs := string(src[pos(r.X.Pos()):pos(r.X.End())])
		k, v := "_", "_"
		if r.Key != nil {
			k = string(src[pos(r.Key.Pos()):pos(r.Key.End())])
		}
		if r.Value != nil {
			v = string(src[pos(r.Value.Pos()):pos(r.Value.End())])
		}
		id := fmt.Sprintf("zzk%d", n)
		hdr := fmt.Sprintf("for _, %s := range zzvhook.OrderedKeys(%s) { ", id, xs)
		body := ""
		if k != "_" {
			body += fmt.Sprintf("%s := %s; _ = %s; ", k, id, k)
		}
		if v != "_" {
			body += fmt.Sprintf("%s := %s[%s]; _ = %s; ", v, xs, id, v)
		}
		out = append(out, rs{pos(r.For), pos(r.Body.Lbrace) + 1, hdr + body})
		n++
		return true
	})
	return
}

// goSplices gives every goroutine started by the file a scheduling point as
// its first action: `go func(..){ BODY }(..)` gets the point inserted at the top
// of BODY; `go x.f()` (no arguments) becomes `go func(zzf func()){ point; zzf() }(x.f)`,
// which evaluates x.f at the go statement like the original. Calls with
// arguments are left alone and counted.
func goSplices(fset *token.FileSet, f *ast.File, src []byte) (n, skipped int, out []rs) {
	const pt = "zzvhook.Point(zzvhook.KGo, nil); "
	ast.Inspect(f, func(nd ast.Node) bool {
		g, ok := nd.(*ast.GoStmt)
		if !ok {
			return true
		}
		pos := func(p token.Pos) int { return fset.Position(p).Offset }
		switch fn := g.Call.Fun.(type) {
		case *ast.FuncLit:
			off := pos(fn.Body.Lbrace) + 1
			out = append(out, rs{off, off, " " + pt})
			n++
		default:
			if len(g.Call.Args) == 0 {
				fs := string(src[pos(g.Call.Fun.Pos()):pos(g.Call.Fun.End())])
				out = append(out, rs{pos(g.Call.Pos()), pos(g.Call.End()), "func(zzf func()) { " + pt + "zzf() }(" + fs + ")"})
				n++
			} else {
				skipped++
			}
		}
		return true
	})
	return
}

// wakeSplices inserts a serialisation point (KWake: never a decision) right after
// every place where a goroutine can be woken by a channel: the start of each
// select case body, and after standalone receive and send statements. Goroutines
// woken at the same instant (one timer tick, one close(ch)) thereby continue one
// at a time in canonical order instead of in the order the Go runtime picks.
func wakeSplices(fset *token.FileSet, f *ast.File, src []byte) (n int, out []rs) {
	const pt = "zzvhook.Point(zzvhook.KWake, nil)"
	pos := func(p token.Pos) int { return fset.Position(p).Offset }
	isChanStmt := func(st ast.Stmt) bool {
		switch x := st.(type) {
		case *ast.SendStmt:
			return true
		case *ast.ExprStmt:
			u, ok := x.X.(*ast.UnaryExpr)
			return ok && u.Op == token.ARROW
		case *ast.AssignStmt:
			if len(x.Rhs) == 1 {
				u, ok := x.Rhs[0].(*ast.UnaryExpr)
				return ok && u.Op == token.ARROW
			}
		}
		return false
	}
	doList := func(list []ast.Stmt) {
		for _, st := range list {
			if isChanStmt(st) {
				off := pos(st.End())
				out = append(out, rs{off, off, "; " + pt})
				n++
			}
		}
	}
	ast.Inspect(f, func(nd ast.Node) bool {
		switch x := nd.(type) {
		case *ast.BlockStmt:
			doList(x.List)
		case *ast.CaseClause:
			doList(x.Body)
		case *ast.CommClause:
			doList(x.Body)
			if x.Comm != nil {
				off := pos(x.Colon) + 1
				out = append(out, rs{off, off, " " + pt + ";"})
				n++
			}
		}
		return true
	})
	return
}

// selectSplices makes `select` statements with two or more communication
// cases deterministic: the cases are first polled one by one in source order
// (`select { case c1: B1; default: select { case c2: B2; default: <original> } }`),
// so that when several are ready the first in source order is taken -- one of
// the behaviours Go allows -- instead of a pseudo-random one. Bodies are
// duplicated textually with /*line*/ directives keeping positions. Selects whose
// bodies declare labels, or whose channel/value expressions contain calls other
// than X.Done() and time.After(..), are left alone and counted.
func selectSplices(fset *token.FileSet, f *ast.File, src []byte, filename string, cur []rs) (n, skipped int, out []rs) {
	pos := func(p token.Pos) int { return fset.Position(p).Offset }
	var sels []*ast.SelectStmt
	ast.Inspect(f, func(nd ast.Node) bool {
		if s, ok := nd.(*ast.SelectStmt); ok {
			sels = append(sels, s)
		}
		return true
	})
	sort.Slice(sels, func(i, j int) bool { return (sels[i].End() - sels[i].Pos()) < (sels[j].End() - sels[j].Pos()) })
	render := func(from, to int) string {
		var in []rs
		for _, x := range cur {
			if x.from >= from && x.to <= to {
				in = append(in, x)
			}
		}
		sort.Slice(in, func(i, j int) bool { return in[i].from > in[j].from })
		b := append([]byte{}, src[from:to]...)
		for _, x := range in {
			b = append(append(append([]byte{}, b[:x.from-from]...), x.text...), b[x.to-from:]...)
		}
		return string(b)
	}
	okCall := func(e ast.Expr) bool {
		bad := false
		ast.Inspect(e, func(nd ast.Node) bool {
			if c, ok := nd.(*ast.CallExpr); ok {
				if se, ok := c.Fun.(*ast.SelectorExpr); ok && (se.Sel.Name == "Done" || se.Sel.Name == "After") {
					return true
				}
				bad = true
			}
			return true
		})
		return !bad
	}
	for _, s := range sels {
		var comm []*ast.CommClause
		hasDefault := false
		ok := true
		for _, st := range s.Body.List {
			cc := st.(*ast.CommClause)
			if cc.Comm == nil {
				hasDefault = true
				continue
			}
			comm = append(comm, cc)
			var chk ast.Expr
			switch c := cc.Comm.(type) {
			case *ast.SendStmt:
				if !okCall(c.Chan) || !okCall(c.Value) {
					ok = false
				}
			case *ast.ExprStmt:
				chk = c.X
			case *ast.AssignStmt:
				chk = c.Rhs[0]
			}
			if chk != nil && !okCall(chk) {
				ok = false
			}
			for _, b := range cc.Body {
				ast.Inspect(b, func(nd ast.Node) bool {
					if _, is := nd.(*ast.LabeledStmt); is {
						ok = false
					}
					return true
				})
			}
		}
		_ = hasDefault
		if len(comm) < 2 {
			continue
		}
		if !ok {
			skipped++
			continue
		}
		lineDir := func(p token.Pos) string {
			ps := fset.Position(p)
			return fmt.Sprintf("/*line %s:%d:%d*/", filename, ps.Line, ps.Column)
		}
		orig := render(pos(s.Pos()), pos(s.End()))
		var sb strings.Builder
		closers := 0
		for _, cc := range comm[:len(comm)-1] {
			// header "case ...:" then the body text up to the end of the clause
			hdr := string(src[pos(cc.Pos()) : pos(cc.Colon)+1])
			body := ""
			if len(cc.Body) > 0 {
				body = lineDir(cc.Body[0].Pos()) + render(pos(cc.Body[0].Pos()), pos(cc.End()))
			}
			sb.WriteString("select { " + hdr + " " + body + "\ndefault: ")
			closers++
		}
		sb.WriteString(lineDir(s.Pos()) + orig)
		for i := 0; i < closers; i++ {
			sb.WriteString(" }")
		}
		// drop consumed splices
		var keep []rs
		for _, x := range cur {
			if !(x.from >= pos(s.Pos()) && x.to <= pos(s.End())) {
				keep = append(keep, x)
			}
		}
		cur = append(keep, rs{pos(s.Pos()), pos(s.End()), sb.String()})
		n++
	}
	return n, skipped, cur
}

type pinfo struct {
	fset  *token.FileSet
	files map[string]*ast.File
	info  *types.Info
}

var pcache = map[string]*pinfo{}

type fakeImporter struct{}

func (fakeImporter) Import(path string) (*types.Package, error) {
	name := path
	if i := strings.LastIndex(path, "/"); i >= 0 {
		name = path[i+1:]
	}
	p := types.NewPackage(path, name)
	p.MarkComplete()
	return p, nil
}

func pkgInfo(dir string) *pinfo {
	if p, ok := pcache[dir]; ok {
		return p
	}
	p := &pinfo{fset: token.NewFileSet(), files: map[string]*ast.File{}, info: &types.Info{Types: map[ast.Expr]types.TypeAndValue{}}}
	ents, _ := os.ReadDir(dir)
	var fs []*ast.File
	for _, e := range ents {
		nm := e.Name()
		if !strings.HasSuffix(nm, ".go") || strings.HasSuffix(nm, "_test.go") {
			continue
		}
		full := filepath.Join(dir, nm)
		f, err := parser.ParseFile(p.fset, full, nil, parser.ParseComments)
		if err != nil {
			continue
		}
		if strings.HasSuffix(f.Name.Name, "_test") {
			continue
		}
		p.files[full] = f
		fs = append(fs, f)
	}
	conf := types.Config{Importer: fakeImporter{}, Error: func(error) {}, FakeImportC: true}
	conf.Check("kafka", p.fset, fs, p.info)
	pcache[dir] = p
	return p
}

func must(err error) {
	if err != nil {
		fmt.Fprintln(os.Stderr, "mkoverlay:", err)
		os.Exit(1)
	}
}
