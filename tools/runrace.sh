#!/bin/bash
# usage: tools/runrace.sh <test-binary-in-work> [env assignments...]
# Runs a -race harness binary by hand with the detector's log where the explorer reads it.
ROOT=$(cd "$(dirname "$0")/.." && pwd)
bin=$1; shift
mkdir -p "$ROOT/work/racelog"
rm -f "$ROOT/work/racelog/"*
cd "$ROOT/work"
env GORACE="log_path=$ROOT/work/racelog/r suppress_equal_stacks=0 suppress_equal_addresses=0 halt_on_error=0 exitcode=0 history_size=5" \
  VERIF_RACE_LOG="$ROOT/work/racelog/r" GOMAXPROCS=1 "$@" timeout 1200 "./$bin" -test.run '^TestCheck$' -test.v > "$ROOT/work/race.out" 2>&1
grep -v "^=== \|^    --- \|^--- \|^        testing.go" "$ROOT/work/race.out" | cut -c1-400 | tail -${TAIL:-40}
