#!/bin/bash
# usage: tools/seedmatrix.sh [seed ids...]   (default: every seeded/C??)
# For each seeded change: apply it to /repo, run the quick check of its own property (and of the
# properties listed in EXTRA="C05 C02 ..."), undo it, and record what was reported in seeded/<id>/detected.json.
ROOT=$(cd "$(dirname "$0")/.." && pwd)
cd "$ROOT"
ids="$@"
[ -z "$ids" ] && ids=$(ls seeded | grep -E '^C[0-9]+[a-z]?$')
for id in $ids; do
  [ -f seeded/$id/patch.diff ] || continue
  if ! git -C /repo apply --check "$ROOT/seeded/$id/patch.diff" 2>/dev/null; then
    echo "$id: PATCH DOES NOT APPLY to the current tree"
    continue
  fi
  git -C /repo apply "$ROOT/seeded/$id/patch.diff"
  for prop in ${id:0:3} $EXTRA; do
    # the evidence files describe the unchanged tree: keep them out of the way of a run on a seeded tree
    cp "evidence/$prop.json" "work/evidence.$prop.keep" 2>/dev/null
    out=$(bin/check $prop quick 2>&1)
    rc=$?
    cp "work/evidence.$prop.keep" "evidence/$prop.json" 2>/dev/null
    nv=$(echo "$out" | grep -c '^VIOLATION')
    sig=$(echo "$out" | grep -m1 'sig=' | sed 's/.*sig=//' | cut -c1-160)
    echo "$id -> check $prop: exit=$rc violations=$nv first: $sig"
    python3 - "$id" "$prop" "$rc" "$nv" "$sig" <<'PY'
import json,sys,os
id,prop,rc,nv,sig=sys.argv[1:6]
p=os.path.join('seeded',id,'detected.json')
d=json.load(open(p)) if os.path.exists(p) else {}
d[prop]={'exit':int(rc),'violation_lines':int(nv),'first_signature':sig}
json.dump(d,open(p,'w'),indent=1)
PY
  done
  git -C /repo checkout -- .
done
git -C /repo status --short
