#!/usr/bin/env python3
"""Writes seeded/<name>/meta.json skeletons for seeds that lack one (fields filled by hand afterwards)."""
import json, os, sys
R = os.path.dirname(os.path.dirname(os.path.abspath(__file__)))
for d in sorted(os.listdir(os.path.join(R, "seeded"))):
    p = os.path.join(R, "seeded", d)
    mp = os.path.join(p, "meta.json")
    if os.path.exists(mp):
        continue
    demos = [f for f in os.listdir(p) if f.endswith("_test.go")]
    files = sorted(set(l.split(" b/")[1].strip() for l in open(os.path.join(p, "patch.diff")) if l.startswith("diff --git")))
    json.dump({"property": d[:3], "changed_files": files, "demonstration": demos, "needs_to_manifest": "see NOTES.md",
               "confirmed": "tools/verify_seed.sh: applies to a fresh worktree of /repo HEAD, builds, pinned suite 410/410 passing, demonstration fails 3/3 with the change and passes 3/3 without",
               "detected_by": []}, open(mp, "w"), indent=1)
    print("meta", d)
