#!/usr/bin/env python3
"""Writes seeded/<name>/meta.json from the hand-written table below, the patch and detected.json
(tools/seedmatrix.sh), and prints the markdown table used in DESIGN.md section 10.6."""
import json, os, sys
R = os.path.dirname(os.path.dirname(os.path.abspath(__file__)))

# what the change is, and what it needs to manifest
INFO = {
 "C01": ("writer.go: the one-shot record cursor is created once per batch instead of once per attempt", "RequiredAcks != None, MaxAttempts > 1, first attempt of a batch fails retriably after its request was encoded (temporary error code or connection cut): the retry sends nothing and WriteMessages returns nil"),
 "C01b": ("writer.go (*Writer).produce: the record reader is cached on the writeBatch and shared by every attempt", "same trigger as C01 through a different site: a retried batch after a temporary produce error or a cut connection"),
 "C02": ("message_reader.go readMessageV2: lengthRemain is decremented when a record's length is read, not when the record is complete", "a fetch response truncated inside the last record of a v2 batch: the compaction skip takes the partial record for compacted-away and the Reader never delivers it"),
 "C02b": ("reader.go (*reader).run: the position is only advanced when read returns nil or io.EOF", "connection lost inside a key or value of a fetch response after at least one record of it was delivered: the Reader redials at the offset the interrupted fetch started from and re-delivers"),
 "C03": ("reader.go commitOffsetsWithRetry: sleeps (zero back-off) before the first attempt too", "a synchronous CommitMessages overlapping Reader.Close: after stctx is cancelled the commit loop returns nil without sending OffsetCommit"),
 "C04": ("write.go varIntLen: off by one at the 7-bit boundaries", "legacy Conn produce v3+/v7 with a key, value or header whose length (or a record count) sits on a varint boundary (64, 8192 ... bytes): the size prefix disagrees with the bytes written"),
 "C05": ("protocol/record_v2.go: timestamp delta computed from the elapsed time.Duration instead of from millisecond timestamps", "Client.Produce / Writer with records whose sub-millisecond fractions decrease: a record is written 1 ms off"),
 "C06": ("conn.go (*Conn).doRequest: the correlation id is computed before wlock is taken and stored only after the write", "two calls entering while a third is inside its network write: duplicate correlation ids on the wire, responses delivered to the wrong call"),
 "C06b": ("conn.go (*Conn).doRequest: the correlation id is read before the write lock is taken (atomic load, later store)", "same mechanism as C06, produced independently (load before the lock, store after): one call inside its network write while two others start on the same Conn"),
 "C07": ("writer.go awaitBatch: queue.Put of an expired batch moved outside ptw.mutex", "BatchTimeout expiring while another WriteMessages adds to the partition: the next batch is queued before the expired one (reordering)"),
 "C08": ("writer.go awaitBatch: currBatch detached even when the expiring batch is not the current one", "a full batch flushed early followed by a new current batch when the old timer fires: the new batch is dropped from currBatch and never sent / sent late"),
 "C09": ("writer.go (*Writer).spawn: group.Add moved inside the goroutine", "Close racing with the start of a partition writer: Close returns before accepted messages completed"),
 "C09b": ("transport.go (*connGroup).grabConnOrConnect: the result of releaseConn is ignored for a connection whose requester has gone", "requester cancelled while ApiVersions is outstanding, then CloseIdleConnections, then the broker answers: the connection and its goroutine are never closed"),
 "C10": ("batch.go (*Batch).Read: the mutex is released before the short-buffer rollback of batch.offset / batch.err", "Batch.Read with a buffer smaller than the value concurrent with Batch.Offset/Err/ReadMessage"),
 "C10b": ("conn.go (*Conn).Seek: the SeekAbsolute short-cut compares with c.offset without the mutex", "Seek(off, SeekAbsolute) without SeekDontCheck concurrent with anything that writes the connection offset (another Seek, a Batch being read or closed)"),
 "C11": ("conn.go (*Conn).readOffset: returns the broker error before the rest of the partition entry is read", "ListOffsets answered with a partition error, then any call on the same Conn: 16 bytes stay unread"),
 "C12": ("transport.go (*connPool).sendRequest: brokerID >= 0 became brokerID > 0", "a request whose designated broker has id 0 while the bootstrap/cluster connection is another broker"),
 "C12b": ("transport.go (*connPool).update: a broker counts as changed only when its host changed", "a broker id that keeps its host but changes port between two metadata refreshes: requests keep going to the old address"),
 "C13": ("balancer.go (*Hash).Balance: the Hasher lock is released before Sum32", "user supplied Hasher shared by concurrent Balance calls, interleaved between Write and Sum32"),
 "C14": ("groupbalancer.go RackAffinityGroupBalancer.assignTopic: leftover handling simplified", "rack groups where a zone has more partitions than consumers at the target load: a partition is assigned to nobody"),
 "C15": ("consumergroup.go (*Generation).close: the number of running routines is read only when the generation was not yet closed", "a second close (Close during a rebalance) while a Start function is still winding down: Next hands out the next generation while it runs"),
 "C15b": ("conn.go (*Conn).heartbeat: retriable error codes are returned inside the response with a nil error", "a Heartbeat answered with NotCoordinatorForGroup / GroupCoordinatorNotAvailable: the generation never ends, Next never advances"),
 "C16": ("compress/snappy/xerial.go (*xerialReader).Reset: no longer clears the buffered output", "a pooled snappy reader closed with decoded bytes still buffered, then reused: the next stream starts with the previous stream's bytes"),
 "C17": ("protocol/decode.go (*decoder).discard: io.Copy through a LimitReader instead of the reader's Discard", "Client.Fetch whose response is cut at least 17 bytes into the second or a later batch of the last partition's record set, connection ending with a clean EOF: nil error, partial records, and the dead connection is reused"),
 "C18": ("dialer.go authenticateSASL: the error of the final SCRAM step is dropped", "SCRAM where the server's final message fails verification (wrong server signature / error in the last round): the connection is handed out as authenticated"),
 "C19": ("protocol/listoffsets (*Response).Merge: the partitions slice is re-made in the error branch", "Client.ListOffsets over partitions of several leaders when a later leader is unreachable: healthy partitions disappear from the answer"),
 "C19b": ("listoffset.go (*partitionOffsetV1).readFrom: returns at a non-zero error code before timestamp and offset are read", "a Conn offset query answered with a partition error, then any later query on the same Conn: stale bytes are read as the next response"),
 "C03b": ("consumergroup.go fetchOffsets/makeAssignments: uncommitted partitions are left out of the offsets map and the hoisted `ok` flag is never reset", "a member assigned several partitions of a topic where one without a commit is listed before others that have one: those resume at StartOffset instead of their committed offset"),
 "C04b": ("protocol/encode.go encodeCompactNullArray: tests length == 0 instead of isNil", "flexible version, nullable array field, non-nil empty slice (AlterPartitionReassignments replicas, ListPartitionReassignments topics): encoded as null"),
 "C05b": ("protocol/buffer.go (*pageBuffer).refTo: an empty range takes no page reference (but still drops one when closed)", "a fetched batch with an empty non-null key/value next to another record on the same page: closing the empty one frees the page while the neighbour is still held; the next fetch overwrites it"),
 "C07b": ("transport.go (*conn).roundTrip: SetReadDeadline instead of SetDeadline", "a broker that stops reading in the middle of a produce request for longer than WriteTimeout: the abandoned attempt stays alive on its connection and is applied after the retry and after the next batch"),
 "C08b": ("message.go (*Message).headerSize: the bytes of header values are not counted", "messages whose size lies in record headers: BatchBytes exceeded, an oversized message not refused"),
 "C11b": ("produce.go + conn.go: the v7 partition entry returns before StartOffset on error, and the error branch discards only the throttle time", "Produce v7+ answered with a partition error, then any operation on the same Conn (8 bytes left unread)"),
 "C13b": ("balancer.go (*LeastBytes).Balance: counters rebuilt outside the mutex and installed without re-checking", "two Balance calls both passing the partition-count check before either installs the counters: the second zeroes what the first recorded"),
 "C14b": ("groupbalancer.go RoundRobinGroupBalancer: partition id used instead of its index in the listing", "partitions listed in another order than 0..n-1, or sparse ids"),
 "C16b": ("compress/snappy/snappy.go (*Codec).NewWriter: framing set only when a writer is constructed, not when it is taken from the pool", "a Framed and an Unframed snappy codec value used one after the other in one process: the stream has the other value's framing"),
 "C17b": ("message_reader.go readMessageV2: remain decreased by the whole batch length instead of by what was read", "Conn.ReadBatch on a compressed v2 batch, connection lost inside the compressed payload where the codec sees a clean end of stream: batch ends with io.EOF, connection kept, offset may skip records"),
 "C18b": ("sasl/scram (*session).Next: reports completion whenever the conversation is done, dropping the final step's error", "SCRAM whose last step fails in-band (invalid proof reported with error code 0, malformed or forged server-final message): the connection is used as authenticated"),
 "C20b": ("protocol/decode.go checkArrayLength: signed comparison after converting the wire value to int", "flexible versions: a compact array length of 2^63+1 or more becomes negative and reaches makeArray"),
 "C01c": ("writer.go (*Writer).WriteMessages: the error flag is overwritten per batch instead of accumulated", "one synchronous call split into several batches with different outcomes, a successful batch waited for last (map order): nil returned although a batch failed"),
 "C02c": ("batch.go (*Batch).close: the offset is copied back to the Conn only when the batch ended cleanly", "QueueCapacity smaller than one response and a consumer pausing longer than MaxWait: the batch ends with RequestTimedOut and the whole response is fetched and delivered again"),
 "C03c": ("consumergroup.go (*Generation).CommitOffsets: one scratch slice shared by all topics of the request", "a group subscribed to two topics and one OffsetCommit covering both: both topics carry the partitions/offsets of the last one"),
 "C04c": ("protocol/buffer.go (*page).WriteAt: returns len(b) instead of the bytes that fit in the page", "a frame larger than 64 KiB in which a field patched after the content (batch length, crc, record-set size ...) straddles a page boundary"),
 "C05c": ("read.go readVarInt: accumulator re-initialised inside the refill loop", "a multi-byte varint of a v2 record cut by a bufio refill (compressed batches read through a 16-byte buffer; keys of 8, 9, 24, 25 bytes with 100-byte values)"),
 "C06c": ("transport.go: one response channel per pooled connection instead of one per request", "a RoundTrip cancelled while in flight, the broker answering late: the next call on that connection receives the abandoned call's response"),
 "C07c": ("writer.go (*batchQueue).Get: swap-remove of the head", "three or more batches of one partition queued while the partition writer is busy: they are sent in the wrong order"),
 "C08c": ("writer.go (*writeBatch).full: > instead of >= on the byte limit", "a batch whose messages add up to exactly BatchBytes stays open until the timer fires"),
 "C09c": ("consumergroup.go (*Generation).close: returns at once when the generation is already marked closed", "a generation ended by one of its own functions while another is still winding down, then Close or Next: Close returns / Next hands out a generation while the old function still runs"),
 "C10c": ("writer.go (*Writer).stats: unsynchronised fast-path read before once.Do", "a Writer built as a struct literal, Stats() concurrent with the first WriteMessages"),
 "C11c": ("conn.go (*Conn).loadVersions: the version list that came with a broker error is cached", "the implicit ApiVersions exchange of the first versioned operation answered with an error and an empty list: every later versioned operation on the Conn fails"),
 "C12c": ("transport.go (*connPool).discover: compares the error with the per-request deadline context", "one Metadata request unanswered for a TTL: the refresh goroutine exits for good and later leader moves are never followed"),
 "C13c": ("balancer.go murmur2: third trailing byte masked with 0x7f", "keys of length 3 mod 4 whose last byte is >= 0x80"),
 "C14c": ("groupbalancer.go findPartitions: stops at the first partition of another topic", "a partition listing in which a subscribed topic's partitions are not contiguous"),
 "C15c": ("consumergroup.go partitionWatcher: UnknownTopicOrPartition no longer counts as a change", "the watched topic deleted while the generation lives: the generation never ends"),
 "C16c": ("compress/zstd (*writer).Close: the encoder is returned to the pool before the error check", "a zstd writer whose Close failed closed a second time, then two writers open at once: they share one encoder"),
 "C17c": ("transport.go (*conn).run: the connection is released to the idle list before the result is examined", "any cut produce response followed by another request to that broker: the dead connection is reused and the call blocks past its deadline"),
 "C18c": ("transport.go saslAuthenticateRoundTrip: ErrorCode > 0 instead of != 0", "PLAIN over the Transport with handshake v1 and the broker refusing with error code -1: requests are sent on the unauthenticated connection"),
 "C19c": ("listoffset.go (*Client).ListOffsets: the partition error is assigned unconditionally when folding entries", "one call asking two or more offsets of a partition, one sub-request failing and a sibling succeeding: the error is reset to nil"),
 "C20c": ("protocol/decode.go (*decoder).Read guard relaxed to remain == 0 (with a frame-size check added at the entry points)", "a fetch response whose v2 batch length or v0/v1 message size has the sign bit set: slice bounds panic on a Transport goroutine"),
 "C01d": ("produce.go (*Client).Produce: the partition error is only built when ErrorCode > 0", "a produce request answered with a negative error code (-1 UNKNOWN_SERVER_ERROR), nothing appended: ProduceResponse.Error stays nil, the Writer reports the batch written and does not retry"),
 "C02d": ("read.go readVarInt: accumulator and shift declared inside the refill loop", "a multi-byte varint (timestamp/offset delta >= 64, key/value/header length >= 64) whose bytes lie on either side of a bufio refill: the fetch response arriving in two pieces split inside it, or a compressed batch at a particular alignment of its 16-byte window"),
 "C03d": ("reader.go (*reader).run: `conn, offset, err := r.initialize(...)` shadows the loop's offset", "a fetch fault in the middle of an assignment (NotLeaderForPartition, UnknownTopicOrPartition, dropped connection): the partition reader re-initialises from the offset it was started with; with StartOffset=LastOffset records are skipped and covered by the next commit, with an absolute start delivery rewinds and the commit regresses"),
 "C04d": ("protocol/decode.go (*decoder).read: the copy buffer for values above maxPrealloc starts with 16384 zero bytes", "any non-record string or bytes field longer than 16384 bytes (16385 fails, 16384 does not): the decoded value has 16384 zero bytes prepended, nothing else changes"),
 "C05d": ("batch.go (*Batch).close: batch.msgs.decompressed is no longer cleared after releaseBuffer", "a Batch with a real message-set reader closed twice, then two Conns reading compressed batches at the same time: they share one pooled decompression buffer and one returns the other's records"),
 "C06d": ("protocol/buffer.go (*pageBuffer).refTo: no page reference is taken for an empty range", "a Fetch response through the Transport with an empty non-null key or value, its record closed while a neighbour on the same page is still unread, then any other round trip: the neighbour's bytes are overwritten"),
 "C07d": ("writer.go (*partitionWriter).writeMessages: exactly-full batches are queued after the whole call was assigned, rolled-over ones immediately", "BatchSize and BatchBytes both acting within one WriteMessages call for one partition: a batch rolled over by bytes is produced before an earlier batch that filled exactly"),
 "C08d": ("writer.go (*partitionWriter).writeMessages: after a byte overflow the next batch is opened with the bare constructor, without the awaitBatch goroutine", "a batch closed by byte overflow whose successor does not fill up: it is never queued, the message is never produced and a synchronous WriteMessages blocks"),
 "C09d": ("reader.go (*Reader).Close: r.cancel() is called before the mutex is taken and closed is set", "a SetOffset on a started reader (or the first FetchMessage) landing between Close's cancel and its Lock: the newly started partition readers are never cancelled and Close never returns"),
 "C10d": ("transport.go (*connGroup).releaseConn: g.closed is read before g.mutex is taken", "CloseIdleConnections (or a broker dropped by a metadata refresh) while a request is in flight on a connection of that group: unsynchronised read against the write in closeIdleConns; the connection may be parked in a closed group"),
 "C11d": ("conn.go (*Conn).do: an error with isTimeout(err) is treated as a transport failure", "a well-formed Produce or ListOffsets response carrying RequestTimedOut (7), then any operation on the same Conn: the connection was closed"),
 "C12d": ("protocol/protocol.go (ApiKey).SelectVersion: first case compares with minVersion instead of maxVersion", "an API whose client-side minimum is above 0 (ListOffsets v1-v5) against a broker advertising a minimum of 0: the request goes out at the client's lowest version instead of the highest common one"),
 "C13d": ("writer.go loadCachedPartitions: the cached identity list is grown by copying the old prefix and filling the tail with tail-relative indexes", "one process producing first to a topic with fewer than 128 partitions and later to one with more than the cache holds: the balancers are offered [0..127,0..n-129] and keys are routed to the wrong partitions"),
 "C14d": ("groupbalancer.go findPartitions: stops scanning at the first partition of another topic once some were found", "a partition listing in which a subscribed topic's partitions are not contiguous: the later ones are assigned to nobody by Range and RoundRobin"),
 "C15d": ("consumergroup.go (*ConsumerGroup).run: `var backoff` moved out of the loop", "a non-rebalance join/sync failure, any number of good generations, then a generation ended by RebalanceInProgress: the loop waits on an already drained timer channel, never rejoins, and Close sends no LeaveGroup"),
 "C16d": ("compress/snappy/xerial.go (*xerialReader).readChunk: the 16-byte header is read with one Read instead of a full read", "a framed snappy stream whose source returns fewer than 16 bytes from its first Read (one-byte or half readers, a LimitedReader at the end of a bufio window)"),
 "C17d": ("read.go readVarInt: the refill-failure path returns the never-assigned named result `remain`", "a v2 record batch read through Conn, cut exactly where a varint is about to be read or inside one: the batch ends with io.EOF, Batch.Close returns nil and the connection is kept"),
 "C18d": ("protocol/saslauthenticate (*Request).readResp: the short-read check after io.ReadAll is gone", "Transport path, SaslHandshake v0 (raw tokens), PLAIN: the broker announces an answer length and closes before the last byte: authentication is taken to have succeeded and a Metadata request is written"),
 "C19d": ("offsetfetch.go (*Client).OffsetFetch: one shared slice for every topic's partition indexes", "an OffsetFetch for two or more topics with different partition lists: earlier topics are asked with the later topic's indexes"),
 "C20d": ("protocol/decode.go checkArrayLength/decodeCompactArray: the count is converted to int before the check", "a flexible response whose compact array count is 2^63+1 or more: negative count passes the check, reflect.MakeSlice panics on a Transport goroutine"),
 "C01e": ("protocol/response.go ReadResponse: a plain io.EOF left in the decoder is treated as benign", "a produce response of an error answer cut exactly on a field boundary before the error code: decoded as success, the Writer stops retrying and reports the batch written"),
 "C02e": ("message_reader.go extractOffset: the last inner offset of a compressed v0/v1 wrapper is computed as first + count - 1", "message format 0/1, compressed wrapper, a compaction hole inside the set: shifted offsets, and records of a following set dropped"),
 "C03e": ("conn.go (*Conn).offsetCommit: only the first partition response of each topic is checked for an error code", "one commit request covering two or more partitions of a topic of which the coordinator rejects one that is not first: CommitMessages returns nil, the offset was not recorded"),
 "C04e": ("write.go writeProduceRequestV3: the size prefix counts a constant 2 for the transactional id", "ConnConfig.TransactionalID set and a broker whose Produce maximum is 3..6: the frame's size prefix is short by the id's length"),
 "C05e": ("crc32.go (*crc32Writer).writeBytes: an empty slice is summed as null", "legacy Conn produce in message format 1 (broker Produce maximum 2) with an empty non-nil key or value: the CRC on the wire does not match"),
 "C06e": ("transport.go (*conn).run keeps a connection after a request timed out + protocol/conn.go RoundTrip hands the correlation id back after a failed exchange", "a round trip whose deadline expires after it was sent, then another on the same pooled connection: it gets the late answer of the first"),
 "C07e": ("writer.go (*partitionWriter).writeBatch: a batch refused with NotLeaderForPartition is re-queued at the tail", "error 6 on a batch while later batches of the partition are queued: they overtake it"),
 "C08e": ("writer.go (*Writer).chooseTopic: a message topic equal to Writer.Topic is accepted", "Writer.Topic set and a message carrying the same topic: the call is not rejected and is produced"),
 "C09e": ("writer.go (*partitionWriter).writeBatch: leaves the retry loop after the back-off when the Writer is closed", "a retriable produce failure with Close during the back-off: the accepted message is abandoned with attempts left"),
 "C10e": ("balancer.go (*LeastBytes).Balance: len(lb.counters) compared before the mutex is taken", "the partition count changing (or first use) while other goroutines call Balance"),
 "C11e": ("message_reader.go newMessageSetReader: returns nil instead of the half-built reader on a header error", "a fetch response truncated inside the first message header, processed after the RTT-adjusted deadline (turned into RequestTimedOut): the rest of the response stays unread and the Conn open"),
 "C12e": ("protocol/produce (*Request).Broker: broker.ID <= 0 means nothing chosen yet", "a raw multi-partition produce request through Transport.RoundTrip whose first partition is led by broker 0 and a later one by another broker: sent to the latter instead of refused"),
 "C13e": ("balancer.go (ReferenceHash).Balance: value receiver, so every call locks a copy of the mutex", "a user supplied Hasher shared by concurrent Balance calls on one ReferenceHash"),
 "C14e": ("groupbalancer.go findPartitions: early exit at the first partition of another topic (same change as C14d, produced independently)", "non-contiguous listing of a topic's partitions"),
 "C15e": ("consumergroup.go (*Generation).close: returns at once when closed is already set", "a generation ended from the inside (heartbeat error, rebalance) while another of its functions is slow to return: Next hands out the next generation meanwhile"),
 "C16e": ("compress/snappy/xerial.go (*xerialWriter).ReadFrom: the error of Read is looked at before the bytes it returned", "the io.ReaderFrom path with a source whose last Read returns data together with io.EOF: the tail is dropped silently"),
 "C17e": ("message_reader.go readMessageV1: the bytes still owed by the connection computed from the announced compressed length", "a v0/v1 xerial-snappy wrapper as last message, connection cut at a frame boundary of the compressed value: the batch ends with io.EOF and the Conn is kept"),
 "C18e": ("transport.go authenticateSASL: `completed` is looked at before the error of sess.Next", "Transport, SCRAM, failure at the last step (bad server signature, e=...): the connection counts as authenticated"),
 "C19e": ("conn.go (*Conn).Seek: the already-there shortcut of SeekAbsolute also applies to SeekStart", "a Conn positioned at absolute offset N, then Seek(N, SeekStart) on a partition whose log start is not 0: N instead of first+N, no range check"),
 "C20e": ("protocol/decode.go checkArrayLength takes an int (same change as C20d, produced independently)", "compact array count of 2^63+1 or more"),
 "C20": ("protocol/decode.go (*decoder).read: the n < 0 guard is dropped", "flexible versions only: a compact string/bytes length or tagged-field size of 2^63 or more becomes a negative int and reaches make()"),
}


def main():
    rows = []
    for d in sorted(os.listdir(os.path.join(R, "seeded"))):
        p = os.path.join(R, "seeded", d)
        if d == "old" or not os.path.exists(os.path.join(p, "patch.diff")):
            continue
        demos = sorted(f for f in os.listdir(p) if f.endswith("_test.go"))
        files = sorted(set(l.split(" b/")[1].strip() for l in open(os.path.join(p, "patch.diff")) if l.startswith("diff --git")))
        det = {}
        dp = os.path.join(p, "detected.json")
        if os.path.exists(dp):
            det = json.load(open(dp))
        what, needs = INFO.get(d, ("see NOTES.md", "see NOTES.md"))
        by = [{"check": k, "tier": "quick", "exit": v["exit"], "violation_lines": v["violation_lines"], "first_signature": v["first_signature"]} for k, v in sorted(det.items())]
        race = " (demonstration run with -race)" if d.startswith("C10") else ""
        meta = {"property": d[:3], "change": what, "changed_files": files, "demonstration": demos, "needs_to_manifest": needs,
                "confirmed": "tools/verify_seed.sh in a fresh scratch worktree of /repo HEAD: patch applies, go build ./... passes, pinned suite 410/410 passing with the change, demonstration fails 3/3 with the change and passes 3/3 without" + race,
                "ran_against_checks": "tools/seedmatrix.sh: git -C /repo apply patch.diff; bin/check <id> quick; git -C /repo checkout -- .",
                "detected_by": by}
        json.dump(meta, open(os.path.join(p, "meta.json"), "w"), indent=1)
        caught = ", ".join("%s (%d)" % (b["check"], b["violation_lines"]) for b in by if b["violation_lines"] > 0) or "—"
        missed = ", ".join(b["check"] for b in by if b["violation_lines"] == 0)
        sig = next((b["first_signature"] for b in by if b["violation_lines"] > 0), "")
        rows.append("| %s | %s | %s | %s%s | `%s` |" % (d, what, needs, caught, (" ; not by " + missed) if missed else "", sig.replace("|", "\\|")[:110]))
    print("| seed | change | needs to manifest | caught by (VIOLATION lines, quick tier) | first signature |")
    print("|------|--------|-------------------|------------------------------------------|-----------------|")
    print("\n".join(rows))


main()
