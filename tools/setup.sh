#!/bin/bash
# Builds the framework from files on disk only (offline) and warms the Go build cache.
set -e
ROOT=$(cd "$(dirname "$0")/.." && pwd)
cd "$ROOT"
export GOFLAGS=-mod=mod GOPROXY=off GOSUMDB=off GOTOOLCHAIN=local
mkdir -p work evidence
cp -n /repo/go.sum "$ROOT/go.sum" 2>/dev/null || true
go1.26.8 build -o work/mkoverlay ./tools/mkoverlay
for h in $(python3 -c "import json;print(' '.join(sorted(set(v['harness'] for v in json.load(open('checks.json')).values()))))"); do
  VERIF_BIN_SUFFIX=.setup tools/build.sh $h || exit 1
done
rm -f work/*.setup.test
echo setup ok
