#!/usr/bin/env python3
"""Prints the status table of DESIGN.md 10.1 from the summaries of the last passes (work/final/summary3.txt, overridden per id and tier by summary5.txt)."""
import re, sys, os
R = os.path.dirname(os.path.dirname(os.path.abspath(__file__)))
ENG = {
 "C01": "qx, Writer scenarios (error-code classes, both-limits class, one over the real Transport)", "C07": "same harness as C01, order oracle", "C08": "same harness, limits / flush oracles",
 "C02": "seqx layouts, truncation and split-point sweeps, qx Reader scripts", "C03": "qx, real group Readers vs fake coordinator; fetch-fault class",
 "C04": "seqx vs reference codec over golden schema, size thresholds, 2 builds", "C05": "seqx produce/consume/aliasing, two-Conn operation sequences",
 "C06": "qx Conn fine/gated + Transport; seqx held records of every shape", "C09": "qx Writer/Reader/group Reader/Transport close+cancel, lock-level Reader scenarios",
 "C10": "qx fine under `-race`, 413 two-call programs (+516 three-call in thorough)", "C11": "seqx op × code class × op", "C12": "seqx routing / version negotiation tables + qx leader moves",
 "C13": "seqx keys × partitions, qx counters, Writer-level cases in child processes", "C14": "seqx groups × map orders", "C15": "qx ConsumerGroup + seqx/qx ending histories",
 "C16": "seqx codecs × histories × source chunking, qx pools", "C17": "seqx every cut byte", "C18": "seqx SASL failure points, every cut of every answer",
 "C19": "seqx cluster states × queries, request shapes", "C20": "seqx length-field faults in child processes, 2 builds",
}
rows = {}
lines = []
for f in ("work/final/summary3.txt", "work/final/summary5.txt"):  # the later pass overrides the earlier one per (id, tier)
    if os.path.exists(os.path.join(R, f)):
        lines += open(os.path.join(R, f)).readlines()
for l in lines:
    m = re.match(r"(C\d+) (quick|thorough) rc=(\d+) (\d+) alarms; .*?: (\d+) executions, (\d+) decision steps, (\d+) distinct outcomes, (\d+) scenarios, exhaustive=(\w+), violations=(\d+), (\d+)s", l)
    if m:
        rows.setdefault(m.group(1), {})[m.group(2)] = m.groups()
print("| id | engine | quick: executions / scenarios / exhaustive within bound / wall | thorough |")
print("|----|--------|-----------------------------------------------------------------|----------|")
for p in sorted(rows):
    def f(t):
        g = rows[p].get(t)
        if not g:
            return "—"
        return "%s / %s / %s / %ss" % (format(int(g[4]), ","), g[7], "yes" if g[8] == "True" else "time-capped", g[10])
    print("| %s | %s | %s | %s |" % (p, ENG.get(p, ""), f("quick"), f("thorough")))
