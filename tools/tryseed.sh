#!/bin/bash
# usage: tryseed.sh <seed-name> <harness-dir> <prop> [extra env...]
# Applies a seeded change to /repo, runs one harness against it, and reverts.
set -u
NAME=$1; H=$2; PROP=$3; shift 3
cd /verif
git -C /repo apply /verif/seeded/$NAME/patch.diff || exit 2
trap 'git -C /repo checkout -- . ' EXIT
VERIF_BIN_SUFFIX=.seed tools/build.sh $H || exit 3
n=$(basename $H)
( cd work && env GOMAXPROCS=1 VERIF_PROP=$PROP VERIF_BUDGET_S=${BUDGET:-120} "$@" timeout 900 ./$n.seed.test -test.run TestCheck -test.v 2>&1 | grep -v "^=== RUN\|^PASS\|^--- " | cut -c1-500 )
