#!/bin/bash
# usage: verify_seed.sh <seed-dir-with-OUT> <name>
# Confirms a seeded change in a fresh scratch worktree: applies, builds, baseline passes, demo fails with / passes without.
set -u
SRC=$1; NAME=$2
export GOFLAGS=-mod=mod GOPROXY=off GOSUMDB=off GOTOOLCHAIN=local
WT=/tmp/seedverify/$NAME
rm -rf "$WT"; git -C /repo worktree prune; git -C /repo worktree add --detach "$WT" HEAD >/dev/null 2>&1 || { echo "worktree failed"; exit 2; }
cleanup() { git -C /repo worktree remove --force "$WT" >/dev/null 2>&1; }
trap cleanup EXIT
cd "$WT"
git apply "$SRC/OUT/patch.diff" || { echo "RESULT $NAME: patch does not apply"; exit 1; }
# the demonstrations: every untracked *_test.go of the agent's worktree (outside OUT/), at the same relative path
demos=$(cd "$SRC" && git ls-files --others --exclude-standard | grep '_test\.go$' | grep -v '^OUT/')
dirs=""
for d in $demos; do
  mkdir -p "$WT/$(dirname $d)"
  cp "$SRC/$d" "$WT/$d"
  dirs="$dirs ./$(dirname $d)"
  echo "demo $d"
done
dirs=$(echo $dirs | tr ' ' '\n' | sort -u | tr '\n' ' ')
RACE=""
case "$NAME" in C10*) RACE="-race";; esac
go build ./... || { echo "RESULT $NAME: does not build"; exit 1; }
b=$(/tmp/seedkit/baseline.sh "$WT" | head -1); echo "baseline with change: $b"
runs() { local ok=0; for i in 1 2 3; do ( cd "$WT" && go test $RACE -vet=off -count=1 -run '^TestSeed' $dirs >/tmp/seedverify/$NAME.log 2>&1 ) && ok=$((ok+1)); done; echo $ok; }
mkdir -p /tmp/seedverify
w=$(runs); echo "demo passes with change: $w/3"
git apply -R "$SRC/OUT/patch.diff"
wo=$(runs); echo "demo passes without change: $wo/3"
case "$b" in *"missing: 0"*) okb=1;; *) okb=0;; esac
if [ "$okb" = 1 ] && [ "$w" = 0 ] && [ "$wo" = 3 ]; then
  mkdir -p /verif/seeded/$NAME && cp "$SRC/OUT/patch.diff" /verif/seeded/$NAME/ && cp "$SRC/OUT/NOTES.md" /verif/seeded/$NAME/ 2>/dev/null
  for d in $demos; do mkdir -p /verif/seeded/$NAME/$(dirname $d); cp "$SRC/$d" /verif/seeded/$NAME/$d; done
  echo "RESULT $NAME: CONFIRMED (dirs=$dirs)"
else
  echo "RESULT $NAME: NOT CONFIRMED (baseline_ok=$okb fail_with=$w pass_without=$wo)"
fi
